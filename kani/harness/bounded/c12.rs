//! C12 bounded: connectivity results are exact partitions, terminate, and do not depend on the hash-iteration order.
//! Every group runs on a worker thread under a progress watchdog (a case normally takes microseconds; no progress for
//! STALL_MS is reported as non-termination together with the input that was being evaluated; a panic of the real code
//! is reported with its input as well).  All oracles are brute force (union-find / counting) and use no hash containers.
//!
//! (a) `common::indices::chained_indices` on every list of <= 4 pairs over the vertex ids 0..5 (self pairs and repeated
//!     pairs included);
//! (b) `raster3::clusters_from_sparse` on every subset of a 2x2x2 block, of a 3x3x1 slab and of a 2x2x3 block (blocks
//!     placed across the origin so that negative coordinates occur), each evaluated twice (fresh hash state);
//! (c) `Mesh::{calc_edges, get_patches, get_patch_boundary_points}` on every ORDERED list of <= 3 faces over 5 vertices
//!     that is consistently wound (no directed edge twice => no edge in more than two faces) and has no vertex-only
//!     contact (the faces around every vertex form one edge-connected fan), on a family of larger hand-built meshes
//!     of the same class (grids with holes, closed solids, several components, with rotated / reversed face storage),
//!     and on the outputs of `Mesh::create_box` / `Mesh::create_cylinder`; every face list with an edge in three
//!     faces must be refused by `calc_edges`.  Inputs outside that class (vertex-only contacts, inconsistent
//!     winding) are evaluated by the groups (g) and (i): `calc_edges` answers Ok with a full edge table when the boundary
//!     edges still form closed loops, and Err - returning, not hanging or panicking - when they do not (DESIGN D7, repaired);
//! (d) edge lengths of `calc_edges` against |v1 - v0| of the stored vertices to RELATIVE 1e-12 on grids, boxes and
//!     cylinders of pitch 5e-6 .. 1 placed at (0,0,0), (1500,-2000,350), (-1536,2048,352), (123456.789,-98765.4321,5000.5)
//!     and (-0.001,0.002,1e6);
//! (e) `get_patches` on ANY face list - every ordered list of <= 2 faces over 5 vertices (64 calls each), every ordered
//!     3-face list starting with [0,1,2] or [0,2,1] (8 calls each), and box / cylinder / 3x3 grid / cut strip /
//!     tetrahedron / a vertex-only contact with no face, each single face, pairs of faces, every other face and all
//!     faces flipped (64 calls each; std's RandomState gives every call its own start face): every face in exactly one
//!     patch and every patch edge-connected, for every input; maximal connectivity only where no directed edge occurs
//!     in two faces (with a flipped face the unchanged code's answer depends on the start face, DESIGN D8);
//! (f) `chained_indices` on 1..=12 separate simple chains / closed loops of 1..=9 links in 4 storage orders.
//! (g) ROUND 4: `calc_edges` on INCONSISTENTLY wound meshes on which the unchanged code terminates: no edge in more than two
//!     faces and the boundary edges (in the direction of their only face) give every boundary vertex exactly one successor
//!     and one predecessor - closed surfaces with any faces flipped, disks with flipped interior faces.  The hand-built
//!     meshes of (c) additionally with reversed vertex numbering and with the interior vertices numbered last.
//! (h) the clauses of (c) on few-face meshes over a 70000-vertex list (vertex ids on both sides of 2^16).
//! (i) D7 (repaired): `calc_edges` returns Err, under the watchdog, whenever no edge is in more than two faces but the directed
//!     boundary edges are not a successor bijection (a boundary vertex left or entered by two boundary edges): bow-ties, grids
//!     sharing a corner, fins touching at a vertex, open meshes with faces flipped along the boundary, and every such ordered
//!     list of 2 / 3 faces over 5 vertices.  Together with (c) and (g): Err EXACTLY outside class G on the enumerated lists.
use super::{close, Report};
use crate::geom3::{Mesh, Point3};
use std::collections::HashSet;
use std::sync::atomic::{AtomicU64, Ordering};
use std::sync::{Arc, Mutex};

const STALL_MS: u64 = 6000;

// ------------------------------------------------------------------------------------------------ watchdog
struct Progress {
    tick: AtomicU64,
    cur: Mutex<Vec<i64>>,
}
impl Progress {
    /// announce the input that is evaluated next (flattened numbers)
    fn at(&self, input: &[i64]) {
        let mut c = self.cur.lock().unwrap();
        c.clear();
        c.extend_from_slice(input);
        drop(c);
        self.tick.fetch_add(1, Ordering::Relaxed);
    }
}

/// run `work` on its own thread; merge its report; a stall or a panic becomes a failing clause naming the current input
fn guarded<F>(r: &mut Report, group: &'static str, encoding: &'static str, work: F)
where
    F: FnOnce(&mut Report, &Progress) + Send + 'static,
{
    let p = Arc::new(Progress { tick: AtomicU64::new(0), cur: Mutex::new(Vec::new()) });
    let p2 = p.clone();
    let h = std::thread::Builder::new()
        .name(format!("c12-{}", group))
        .spawn(move || {
            let mut sub = Report::new("");
            work(&mut sub, &p2);
            sub
        })
        .expect("spawn");
    let mut last = p.tick.load(Ordering::Relaxed);
    let mut idle_ms = 0u64;
    while !h.is_finished() {
        std::thread::sleep(std::time::Duration::from_millis(20));
        let t = p.tick.load(Ordering::Relaxed);
        if t != last {
            last = t;
            idle_ms = 0;
        } else {
            idle_ms += 20;
        }
        if idle_ms >= STALL_MS {
            let cur = p.cur.lock().map(|c| c.clone()).unwrap_or_default();
            r.case();
            r.check(false, &format!("{}: the computation finishes on every input (watchdog: one input made no progress for {} s)", group, STALL_MS / 1000), || {
                format!("{} {:?}", encoding, cur)
            });
            return; // the stuck thread is abandoned; the process exits after the report is printed
        }
    }
    match h.join() {
        Ok(sub) => {
            if std::env::var("C12_BOUNDED_VERBOSE").is_ok() { eprintln!("c12 bounded group {}: cases={} checks={} failures={}", group, sub.cases, sub.checks, sub.failures.len()); }
            r.cases += sub.cases;
            r.checks += sub.checks;
            for f in sub.failures {
                if r.failures.len() < 40 {
                    r.failures.push(f);
                }
            }
        }
        Err(e) => {
            let msg = e.downcast_ref::<String>().cloned().or_else(|| e.downcast_ref::<&str>().map(|s| s.to_string())).unwrap_or_default();
            let cur = p.cur.lock().map(|c| c.clone()).unwrap_or_else(|e| e.into_inner().clone());
            r.case();
            r.check(false, &format!("{}: the computation finishes without a panic on every input", group), || format!("{} {:?} panic: {}", encoding, cur, msg));
        }
    }
}

// ------------------------------------------------------------------------------------------------ brute-force helpers
struct Dsu(Vec<usize>);
impl Dsu {
    fn new(n: usize) -> Self { Dsu((0..n).collect()) }
    fn find(&mut self, mut x: usize) -> usize { while self.0[x] != x { self.0[x] = self.0[self.0[x]]; x = self.0[x]; } x }
    fn union(&mut self, a: usize, b: usize) { let (a, b) = (self.find(a), self.find(b)); if a != b { self.0[a.max(b)] = a.min(b); } }
    /// the partition of 0..n as sorted groups, groups sorted
    fn groups(&mut self) -> Vec<Vec<usize>> {
        let n = self.0.len();
        let mut g: Vec<Vec<usize>> = vec![Vec::new(); n];
        for i in 0..n { let f = self.find(i); g[f].push(i); }
        let mut g: Vec<Vec<usize>> = g.into_iter().filter(|v| !v.is_empty()).collect();
        g.sort();
        g
    }
}
fn canon<T: Ord + Clone>(parts: &[Vec<T>]) -> Vec<Vec<T>> {
    let mut p: Vec<Vec<T>> = parts.iter().map(|v| { let mut v = v.clone(); v.sort(); v }).collect();
    p.sort();
    p
}
fn ue(a: u32, b: u32) -> (u32, u32) { if a <= b { (a, b) } else { (b, a) } }

// ------------------------------------------------------------------------------------------------ (a) index chaining
const NV: usize = 5;
fn check_chain(r: &mut Report, pairs: &[[u32; 2]]) {
    r.case();
    let chains = crate::common::indices::chained_indices(pairs);
    let desc = || format!("chained_indices({:?}) = {:?}", pairs, chains);
    let mut cin = [[0i32; NV]; NV];
    let (mut indeg, mut outdeg) = ([0i32; NV], [0i32; NV]);
    for p in pairs { cin[p[0] as usize][p[1] as usize] += 1; outdeg[p[0] as usize] += 1; indeg[p[1] as usize] += 1; }
    let mut cout = [[0i32; NV]; NV];
    let mut shape = true;
    for c in chains.iter() {
        if c.len() < 2 || c.iter().any(|&v| v as usize >= NV) { shape = false; continue; }
        for w in c.windows(2) { cout[w[0] as usize][w[1] as usize] += 1; }
    }
    r.check(shape, "chaining: every chain has at least two entries, all of them input vertex ids", desc);
    let mut link_ok = true;
    let mut once = true;
    for a in 0..NV { for b in 0..NV {
        if cout[a][b] > 0 && cin[a][b] == 0 { link_ok = false; }
        if cout[a][b] != cin[a][b] { once = false; }
    } }
    r.check(link_ok, "chaining: consecutive chain entries are an input pair with its orientation kept", desc);
    r.check(once, "chaining: every input pair is consumed exactly once", desc);
    // maximal under the unique-candidate rule: a chain that ends at v and a DIFFERENT chain that starts at v can only
    // coexist when v is ambiguous (more than one input pair starts at v, or more than one ends at v)
    let mut maximal = true;
    for (i, a) in chains.iter().enumerate() { for (j, b) in chains.iter().enumerate() {
        if i == j || a.len() < 2 || b.len() < 2 { continue; }
        let v = *a.last().unwrap();
        if v == b[0] && (v as usize) < NV && indeg[v as usize] == 1 && outdeg[v as usize] == 1 { maximal = false; }
    } }
    r.check(maximal, "chaining: chains are maximal (two chains meet end-to-start only at an index where the continuation is not unique)", desc);
}

fn run_chains(r: &mut Report, p: &Progress) {
    let all: Vec<[u32; 2]> = (0..(NV * NV) as u32).map(|k| [k / NV as u32, k % NV as u32]).collect();
    let mut buf: Vec<i64> = Vec::new();
    for len in 0..=4usize {
        let mut idx = vec![0usize; len];
        loop {
            let pairs: Vec<[u32; 2]> = idx.iter().map(|&i| all[i]).collect();
            buf.clear();
            for q in pairs.iter() { buf.push(q[0] as i64); buf.push(q[1] as i64); }
            p.at(&buf);
            check_chain(r, &pairs);
            let mut k = 0;
            while k < len { idx[k] += 1; if idx[k] < all.len() { break; } idx[k] = 0; k += 1; }
            if k == len { break; }
        }
    }
}

// ------------------------------------------------------------------------------------------------ (b) voxel clustering
type Vox = (i32, i32, i32);
fn adjacent26(a: &Vox, b: &Vox) -> bool {
    a != b && (a.0 - b.0).abs() <= 1 && (a.1 - b.1).abs() <= 1 && (a.2 - b.2).abs() <= 1
}
fn check_voxels(r: &mut Report, vox: &[Vox]) {
    r.case();
    let mut d = Dsu::new(vox.len());
    for i in 0..vox.len() { for j in 0..i { if adjacent26(&vox[i], &vox[j]) { d.union(i, j); } } }
    let expect: Vec<Vec<Vox>> = canon(&d.groups().into_iter().map(|g| g.into_iter().map(|i| vox[i]).collect()).collect::<Vec<Vec<Vox>>>());
    let mut first: Option<Vec<Vec<Vox>>> = None;
    for _run in 0..2 {
        let set: HashSet<Vox> = vox.iter().copied().collect(); // fresh RandomState per set
        let got = crate::raster3::clusters_from_sparse(set);
        let desc = || format!("clusters_from_sparse({:?}) = {:?}", vox, got);
        let mut flat: Vec<Vox> = got.iter().flatten().copied().collect();
        flat.sort();
        let mut inp: Vec<Vox> = vox.to_vec();
        inp.sort();
        r.check(flat == inp && got.iter().all(|c| !c.is_empty()), "voxels: the clusters partition the input set (every voxel in exactly one non-empty cluster)", desc);
        let cg = canon(&got);
        r.check(cg == expect, "voxels: two voxels share a cluster exactly when they are connected through 26-adjacency", desc);
        match &first {
            None => first = Some(cg),
            Some(f) => r.check(*f == cg, "voxels: same clusters as sets on a repeated run (hash order)", desc),
        }
    }
}
fn run_voxels(r: &mut Report, p: &Progress) {
    let blocks: [(Vox, Vox); 3] = [((-1, -1, -1), (2, 2, 2)), ((-1, -1, 0), (3, 3, 1)), ((0, -1, -2), (2, 2, 3))];
    let mut buf: Vec<i64> = Vec::new();
    for (o, s) in blocks.iter() {
        let mut cells: Vec<Vox> = Vec::new();
        for x in 0..s.0 { for y in 0..s.1 { for z in 0..s.2 { cells.push((o.0 + x, o.1 + y, o.2 + z)); } } }
        for mask in 0u32..(1u32 << cells.len()) {
            let vox: Vec<Vox> = (0..cells.len()).filter(|k| mask >> k & 1 == 1).map(|k| cells[k]).collect();
            buf.clear();
            for v in vox.iter() { buf.extend_from_slice(&[v.0 as i64, v.1 as i64, v.2 as i64]); }
            p.at(&buf);
            check_voxels(r, &vox);
        }
    }
    // the i32 extremes of the coordinate range are not enumerated (neighbour arithmetic overflows there: precondition)
}

// ------------------------------------------------------------------------------------------------ (c) meshes
fn dir_edges(f: &[u32; 3]) -> [(u32, u32); 3] { [(f[0], f[1]), (f[1], f[2]), (f[2], f[0])] }

/// consistently wound (no directed edge twice), proper triangles, and no vertex-only contact
fn in_class(faces: &[[u32; 3]]) -> bool {
    let mut de: Vec<(u32, u32)> = Vec::new();
    for f in faces {
        if f[0] == f[1] || f[1] == f[2] || f[2] == f[0] { return false; }
        for e in dir_edges(f) { if de.contains(&e) { return false; } de.push(e); }
    }
    let nv = faces.iter().flatten().copied().max().map(|m| m + 1).unwrap_or(0);
    for v in 0..nv {
        let inc: Vec<usize> = (0..faces.len()).filter(|&i| faces[i].contains(&v)).collect();
        if inc.len() < 2 { continue; }
        let mut d = Dsu::new(inc.len());
        for a in 0..inc.len() { for b in 0..a {
            // share an (undirected) edge that contains v
            let (fa, fb) = (&faces[inc[a]], &faces[inc[b]]);
            if fa.iter().any(|&w| w != v && fb.contains(&w)) { d.union(a, b); }
        } }
        if d.groups().len() != 1 { return false; }
    }
    true
}
fn has_edge_in_three_faces(faces: &[[u32; 3]]) -> bool {
    let mut all: Vec<(u32, u32)> = Vec::new();
    for f in faces { for e in dir_edges(f) { all.push(ue(e.0, e.1)); } }
    all.iter().any(|e| all.iter().filter(|x| *x == e).count() > 2)
}

fn vid(verts: &[Point3], p: &Point3) -> Option<u32> { verts.iter().position(|q| q == p).map(|i| i as u32) }

/// closed simple cycles whose consecutive (cyclic) vertex pairs are exactly the boundary edges, each once
fn check_cycles(r: &mut Report, loops: &[Vec<u32>], boundary: &[(u32, u32)], what_cycle: &str, what_once: &str, desc: &dyn Fn() -> String) -> Vec<Vec<(u32, u32)>> {
    let mut seen: Vec<(u32, u32)> = Vec::new();
    let mut cyc_ok = true;
    let mut per_loop: Vec<Vec<(u32, u32)>> = Vec::new();
    for l in loops {
        let n = l.len();
        if n < 3 { cyc_ok = false; }
        for i in 0..n { for j in 0..i { if l[i] == l[j] { cyc_ok = false; } } }
        let mut es = Vec::new();
        for i in 0..n {
            let e = ue(l[i], l[(i + 1) % n]);
            if !boundary.contains(&e) { cyc_ok = false; }
            es.push(e);
            seen.push(e);
        }
        per_loop.push(es);
    }
    r.check(cyc_ok, what_cycle, desc);
    let mut s = seen.clone();
    s.sort();
    let mut b = boundary.to_vec();
    b.sort();
    r.check(s == b, what_once, desc);
    canon(&per_loop)
}

/// the edge-table clauses: produced (not Err) for a mesh with no edge in more than two faces; each undirected edge exactly
/// once with its length; every face mapped to its three edges; the boundary loops are closed vertex cycles that together
/// contain every boundary edge exactly once; same answer as sets on a repeated run (fresh hash state)
fn check_edge_table(r: &mut Report, mesh: &Mesh, verts: &[Point3], faces: &[[u32; 3]], label: &str) {
    let nf = faces.len();
    let desc = || format!("{} faces {:?}", label, faces);
    let mut und: Vec<(u32, u32)> = Vec::new();
    let mut all: Vec<(u32, u32)> = Vec::new();
    for f in faces { for e in dir_edges(f) { let k = ue(e.0, e.1); all.push(k); if !und.contains(&k) { und.push(k); } } }
    und.sort();
    let boundary: Vec<(u32, u32)> = und.iter().copied().filter(|e| all.iter().filter(|x| *x == e).count() == 1).collect();
    let mut first_edges: Option<(Vec<(u32, u32)>, Vec<Vec<(u32, u32)>>)> = None;
    for _run in 0..2 {
        match mesh.calc_edges() {
            Err(_) => r.check(false, "edges: a mesh with no edge in more than two faces has an edge table", desc),
            Ok(me) => {
                let d2 = || format!("{} edges {:?} face_edges {:?} boundary_loops {:?}", desc(), me.edges, me.face_edges, me.boundary_loops);
                let mut listed: Vec<(u32, u32)> = me.edges.iter().map(|e| ue(e[0], e[1])).collect();
                listed.sort();
                r.check(listed == und, "edges: the edge table lists each undirected edge exactly once", d2);
                let mut len_ok = me.edge_lengths.len() == me.edges.len();
                if len_ok { for (e, l) in me.edges.iter().zip(me.edge_lengths.iter()) {
                    let (a, b) = (verts[e[0] as usize], verts[e[1] as usize]);
                    let t = ((a.x - b.x).powi(2) + (a.y - b.y).powi(2) + (a.z - b.z).powi(2)).sqrt();
                    if !close(*l, t) { len_ok = false; }
                } }
                r.check(len_ok, "edges: every listed edge carries its length", d2);
                let mut fe_ok = me.face_edges.len() == nf;
                if fe_ok { for (f, fe) in faces.iter().zip(me.face_edges.iter()) {
                    let mut want: Vec<(u32, u32)> = dir_edges(f).iter().map(|e| ue(e.0, e.1)).collect();
                    want.sort();
                    let mut got: Vec<(u32, u32)> = Vec::new();
                    for &k in fe.iter() { match me.edges.get(k as usize) { Some(e) => got.push(ue(e[0], e[1])), None => fe_ok = false } }
                    got.sort();
                    if got != want { fe_ok = false; }
                } }
                r.check(fe_ok, "edges: every face is mapped to its three edges", d2);
                let cl = check_cycles(r, &me.boundary_loops, &boundary, "edges: every boundary loop is a closed vertex cycle along boundary edges",
                    "edges: the boundary loops together contain every boundary edge exactly once", &d2);
                match &first_edges {
                    None => first_edges = Some((listed, cl)),
                    Some((l0, c0)) => r.check(*l0 == listed && *c0 == cl, "edges: same edge table and loops as sets on a repeated run (hash order)", d2),
                }
            }
        }
    }
}

/// class G (what `calc_edges` must answer although the winding may be INCONSISTENT): proper triangles, no undirected edge
/// in more than two faces, and the boundary edges - each taken in the direction of its only face - give every boundary
/// vertex exactly one successor and one predecessor.  Closed surfaces with any faces flipped and disks with flipped
/// INTERIOR faces are in G; a flipped face that owns a boundary edge, or a vertex-only contact on the boundary, is not (D7)
fn in_class_g(faces: &[[u32; 3]]) -> bool {
    let mut allu: Vec<(u32, u32)> = Vec::new();
    for f in faces {
        if f[0] == f[1] || f[1] == f[2] || f[2] == f[0] { return false; }
        for e in dir_edges(f) { allu.push(ue(e.0, e.1)); }
    }
    let mut bd: Vec<(u32, u32)> = Vec::new();
    for f in faces { for e in dir_edges(f) {
        let c = allu.iter().filter(|x| **x == ue(e.0, e.1)).count();
        if c > 2 { return false; }
        if c == 1 { bd.push(e); }
    } }
    for (i, a) in bd.iter().enumerate() { for b in bd[..i].iter() { if a.0 == b.0 || a.1 == b.1 { return false; } } }
    bd.iter().all(|a| bd.iter().any(|b| b.0 == a.1))
}
fn inconsistent(faces: &[[u32; 3]]) -> bool {
    let mut de: Vec<(u32, u32)> = Vec::new();
    for f in faces { for e in dir_edges(f) { if de.contains(&e) { return true; } de.push(e); } }
    false
}

fn check_mesh(r: &mut Report, verts: &[Point3], faces: &[[u32; 3]], label: &str) {
    r.case();
    let nf = faces.len();
    let mesh = Mesh::new(verts.to_vec(), faces.to_vec(), false);
    let desc = || format!("{} faces {:?}", label, faces);
    r.check(mesh.faces() == faces && mesh.vertices() == verts, "mesh: Mesh::new keeps the face list and the vertex list", desc);
    // ---- oracle
    let mut und: Vec<(u32, u32)> = Vec::new();
    let mut all: Vec<(u32, u32)> = Vec::new();
    for f in faces { for e in dir_edges(f) { let k = ue(e.0, e.1); all.push(k); if !und.contains(&k) { und.push(k); } } }
    und.sort();
    let boundary: Vec<(u32, u32)> = und.iter().copied().filter(|e| all.iter().filter(|x| *x == e).count() == 1).collect();
    let mut d = Dsu::new(nf);
    for a in 0..nf { for b in 0..a {
        if dir_edges(&faces[a]).iter().any(|e| dir_edges(&faces[b]).iter().any(|g| ue(e.0, e.1) == ue(g.0, g.1))) { d.union(a, b); }
    } }
    let comp = d.groups();
    check_edge_table(r, &mesh, verts, faces, label);
    // ---- patches (three times)
    let mut first_p: Option<Vec<Vec<usize>>> = None;
    for _run in 0..3 {
        let patches = mesh.get_patches();
        let d3 = || format!("{} get_patches {:?}", desc(), patches);
        let mut flat: Vec<usize> = patches.iter().flatten().copied().collect();
        flat.sort();
        r.check(flat == (0..nf).collect::<Vec<_>>() && patches.iter().all(|q| !q.is_empty()), "patches: every face is in exactly one patch", d3);
        let cp = canon(&patches);
        r.check(cp == comp, "patches: two faces share a patch exactly when they are connected through shared edges", d3);
        match &first_p {
            None => first_p = Some(cp),
            Some(f) => r.check(*f == cp, "patches: same patches as sets on a repeated run (hash order)", d3),
        }
    }
    // ---- patch boundaries as point cycles
    match mesh.get_patch_boundary_points() {
        Err(_) => r.check(false, "patch boundaries: computed for a mesh with no edge in more than two faces", desc),
        Ok(bp) => {
            let mut ids: Vec<Vec<u32>> = Vec::new();
            let mut known = true;
            for l in bp.iter() { let mut v = Vec::new(); for q in l { match vid(verts, q) { Some(i) => v.push(i), None => known = false } } ids.push(v); }
            let d4 = || format!("{} get_patch_boundary_points (as vertex ids) {:?}", desc(), ids);
            r.check(known, "patch boundaries: every returned point is a mesh vertex", d4);
            check_cycles(r, &ids, &boundary, "patch boundaries: every boundary is a closed vertex cycle along boundary edges",
                "patch boundaries: together they contain every boundary edge exactly once", &d4);
        }
    }
}

fn base_vertices() -> Vec<Point3> {
    vec![Point3::new(0.0, 0.0, 0.0), Point3::new(1.0, 0.0, 0.0), Point3::new(0.0, 2.0, 0.0), Point3::new(0.0, 0.0, 3.0), Point3::new(2.0, 3.0, 5.0)]
}

fn run_small_meshes(r: &mut Report, p: &Progress) {
    let verts = base_vertices();
    let mut tri: Vec<[u32; 3]> = Vec::new();
    for a in 0..5u32 { for b in 0..5u32 { for c in 0..5u32 { if a != b && b != c && a != c { tri.push([a, b, c]); } } } }
    let mut buf: Vec<i64> = Vec::new();
    for len in 1..=3usize {
        let mut idx = vec![0usize; len];
        loop {
            let faces: Vec<[u32; 3]> = idx.iter().map(|&i| tri[i]).collect();
            let member = in_class(&faces);
            let refused = !member && has_edge_in_three_faces(&faces);
            if member || refused {
                buf.clear();
                for f in faces.iter() { buf.extend_from_slice(&[f[0] as i64, f[1] as i64, f[2] as i64]); }
                p.at(&buf);
            }
            if member { check_mesh(r, &verts, &faces, "Mesh::new(5 fixed vertices)"); }
            if refused {
                r.case();
                let mesh = Mesh::new(verts.clone(), faces.clone(), false);
                r.check(mesh.calc_edges().is_err(), "edges: a mesh with an edge in more than two faces is refused (Err)", || format!("faces {:?}", faces));
            }
            let mut k = 0;
            while k < len { idx[k] += 1; if idx[k] < tri.len() { break; } idx[k] = 0; k += 1; }
            if k == len { break; }
        }
    }
}

/// (nx x ny) grid of quads, each split into two consistently wound triangles; quads listed in `holes` are left out
fn grid(nx: u32, ny: u32, holes: &[(u32, u32)], z: f64, vbase: u32) -> (Vec<Point3>, Vec<[u32; 3]>) {
    let mut v = Vec::new();
    for j in 0..=ny { for i in 0..=nx { v.push(Point3::new(i as f64 + 0.125 * j as f64, j as f64 * 1.5, z + 0.25 * (i * j) as f64)); } }
    let id = |i: u32, j: u32| vbase + j * (nx + 1) + i;
    let mut f = Vec::new();
    for j in 0..ny { for i in 0..nx {
        if holes.contains(&(i, j)) { continue; }
        f.push([id(i, j), id(i + 1, j), id(i + 1, j + 1)]);
        f.push([id(i, j), id(i + 1, j + 1), id(i, j + 1)]);
    } }
    (v, f)
}
/// other storage of the same surface: face order kept / reversed / rotated by half, vertex triple of face k rotated by (k + variant) % 3
fn restore(faces: &[[u32; 3]], variant: usize) -> Vec<[u32; 3]> {
    let n = faces.len();
    (0..n).map(|k| {
        let src = match variant % 3 { 0 => k, 1 => n - 1 - k, _ => (k + n / 2) % n };
        let f = faces[src];
        let s = (k + variant) % 3;
        [f[s], f[(s + 1) % 3], f[(s + 2) % 3]]
    }).collect()
}

fn run_built_meshes(r: &mut Report, p: &Progress) {
    let mut fam: Vec<(String, Vec<Point3>, Vec<[u32; 3]>)> = Vec::new();
    let (v, f) = grid(3, 3, &[], 0.0, 0); fam.push(("3x3 grid".into(), v, f));
    let (v, f) = grid(3, 3, &[(1, 1)], 0.0, 0); fam.push(("3x3 grid with the centre quad removed".into(), v, f));
    let (v, f) = grid(5, 3, &[(1, 1), (3, 1)], 0.0, 0); fam.push(("5x3 grid with two holes".into(), v, f));
    let (v, f) = grid(4, 1, &[(2, 0)], 0.0, 0); fam.push(("4x1 strip cut into two components".into(), v, f));
    // a grid in which one triangle of a quad is missing (triangular notch / three-vertex hole)
    let (v, mut f) = grid(3, 3, &[], 0.0, 0); f.remove(8); fam.push(("3x3 grid with one triangle removed".into(), v, f));
    // closed solids: tetrahedron, octahedron, and both together as two components
    let tv = vec![Point3::new(0.0, 0.0, 0.0), Point3::new(2.0, 0.0, 0.0), Point3::new(0.0, 3.0, 0.0), Point3::new(0.0, 0.0, 5.0)];
    let tf = vec![[0u32, 2, 1], [0, 1, 3], [1, 2, 3], [2, 0, 3]];
    fam.push(("tetrahedron".into(), tv.clone(), tf.clone()));
    let ov = vec![Point3::new(1.0, 0.0, 0.0), Point3::new(-1.5, 0.0, 0.0), Point3::new(0.0, 2.0, 0.0), Point3::new(0.0, -2.5, 0.0), Point3::new(0.0, 0.0, 3.0), Point3::new(0.0, 0.0, -3.5)];
    let of = vec![[0u32, 2, 4], [2, 1, 4], [1, 3, 4], [3, 0, 4], [2, 0, 5], [1, 2, 5], [3, 1, 5], [0, 3, 5]];
    fam.push(("octahedron".into(), ov.clone(), of.clone()));
    let mut bv = tv.clone(); bv.extend(ov.iter().map(|q| Point3::new(q.x + 10.0, q.y, q.z)));
    let mut bf = tf.clone(); bf.extend(of.iter().map(|f| [f[0] + 4, f[1] + 4, f[2] + 4]));
    fam.push(("tetrahedron + octahedron (two components)".into(), bv, bf));
    // tetrahedron with one face removed (three-vertex boundary loop) next to a separate grid (four-or-more-vertex loop)
    let (gv, gf) = grid(2, 2, &[], 7.0, 4);
    let mut mv = tv.clone(); mv.extend(gv);
    let mut mf: Vec<[u32; 3]> = tf[1..].to_vec(); mf.extend(gf);
    fam.push(("open tetrahedron + 2x2 grid".into(), mv, mf));
    // fan of triangles around a vertex (disk) and the same fan with the closing edge stored last in both neighbours
    let fv: Vec<Point3> = vec![Point3::new(0.0, 0.0, 0.0), Point3::new(2.0, 0.0, 0.0), Point3::new(1.0, 2.0, 0.5), Point3::new(-1.5, 1.0, 0.0), Point3::new(-1.0, -2.0, 0.25), Point3::new(1.5, -1.5, 0.0)];
    fam.push(("open fan".into(), fv.clone(), vec![[0, 1, 2], [0, 2, 3], [0, 3, 4], [0, 4, 5]]));
    fam.push(("closed fan (disk)".into(), fv.clone(), vec![[0, 1, 2], [0, 2, 3], [0, 3, 4], [0, 4, 5], [0, 5, 1]]));
    // a disk whose centre vertex carries the highest id (the lexicographically last edge is interior), and a 4x4 grid
    let cv: Vec<Point3> = vec![Point3::new(2.0, 0.0, 0.0), Point3::new(1.0, 2.0, 0.5), Point3::new(-1.5, 1.0, 0.0), Point3::new(-1.0, -2.0, 0.25), Point3::new(1.5, -1.5, 0.0), Point3::new(0.0, 0.0, 0.0)];
    fam.push(("closed fan (disk) around the LAST vertex".into(), cv, vec![[5, 0, 1], [5, 1, 2], [5, 2, 3], [5, 3, 4], [5, 4, 0]]));
    let (v, f) = grid(4, 4, &[], 0.0, 0); fam.push(("4x4 grid".into(), v, f));
    let mut buf: Vec<i64> = Vec::new();
    let mut last_interior = 0usize;
    for (name, v0, f0) in fam.iter() {
        // numbering variants: as built; reversed (vertex k becomes n-1-k); boundary vertices first, INTERIOR vertices last
        for numbering in 0..3usize {
            let perm = match numbering { 0 => (0..v0.len() as u32).collect::<Vec<u32>>(), 1 => (0..v0.len() as u32).rev().collect(), _ => interior_last(f0, v0.len()) };
            let (v, f) = renumber(v0, f0, &perm);
            for variant in 0..6usize {
                let fs = restore(&f, variant);
                if !in_class(&fs) { r.case(); r.check(false, "internal: hand-built mesh is in the stated class", || format!("{} {:?}", name, fs)); continue; }
                if last_edge_is_interior(&fs) { last_interior += 1; }
                buf.clear();
                for t in fs.iter() { buf.extend_from_slice(&[t[0] as i64, t[1] as i64, t[2] as i64]); }
                p.at(&buf);
                check_mesh(r, &v, &fs, &format!("{} (vertex numbering {}, storage variant {})", name, ["as built", "reversed", "interior vertices last"][numbering], variant));
            }
        }
    }
    r.check(last_interior >= 100, "input space: meshes whose lexicographically last edge is an interior edge occur (closed surfaces, disks with the interior vertices numbered last)", || format!("{} of them", last_interior));
}
/// vertex k of the input becomes vertex perm[k]
fn renumber(verts: &[Point3], faces: &[[u32; 3]], perm: &[u32]) -> (Vec<Point3>, Vec<[u32; 3]>) {
    let mut v = verts.to_vec();
    for (k, q) in verts.iter().enumerate() { v[perm[k] as usize] = *q; }
    (v, faces.iter().map(|f| [perm[f[0] as usize], perm[f[1] as usize], perm[f[2] as usize]]).collect())
}
/// the numbering that keeps the boundary vertices (and unused ones) first, in their order, and puts the interior vertices last
fn interior_last(faces: &[[u32; 3]], nv: usize) -> Vec<u32> {
    let mut allu: Vec<(u32, u32)> = Vec::new();
    for f in faces { for e in dir_edges(f) { allu.push(ue(e.0, e.1)); } }
    let used = |v: u32| faces.iter().any(|f| f.contains(&v));
    let on_boundary = |v: u32| allu.iter().any(|e| (e.0 == v || e.1 == v) && allu.iter().filter(|x| *x == e).count() == 1);
    let mut order: Vec<u32> = (0..nv as u32).filter(|&v| !used(v) || on_boundary(v)).collect();
    order.extend((0..nv as u32).filter(|&v| used(v) && !on_boundary(v)));
    let mut perm = vec![0u32; nv];
    for (newid, old) in order.iter().enumerate() { perm[*old as usize] = newid as u32; }
    perm
}
fn last_edge_is_interior(faces: &[[u32; 3]]) -> bool {
    let mut allu: Vec<(u32, u32)> = Vec::new();
    for f in faces { for e in dir_edges(f) { allu.push(ue(e.0, e.1)); } }
    match allu.iter().max() { Some(m) => allu.iter().filter(|x| *x == m).count() == 2, None => false }
}

// ------------------------------------------------------------------------------------------------ (g) edge table with INCONSISTENT winding
/// `calc_edges` on class G (see in_class_g) restricted to inconsistently wound face lists: the statement demands an edge
/// table for EVERY mesh with no edge in more than two faces, "including meshes with inconsistent winding"
fn run_inconsistent_meshes(r: &mut Report, p: &Progress) {
    let mut buf: Vec<i64> = Vec::new();
    let mut n_small = 0usize;
    // larger meshes: closed solids with any faces flipped, disks with INTERIOR faces flipped
    let mut fam: Vec<(String, Vec<Point3>, Vec<[u32; 3]>)> = Vec::new();
    for (w, h, d) in [(2.0, 3.0, 4.0), (1.0, 1.0, 1.0)] {
        let bx = Mesh::create_box(w, h, d, false);
        fam.push((format!("create_box({}, {}, {})", w, h, d), bx.vertices().to_vec(), bx.faces().to_vec()));
    }
    let tv = vec![Point3::new(0.0, 0.0, 0.0), Point3::new(2.0, 0.0, 0.0), Point3::new(0.0, 3.0, 0.0), Point3::new(0.0, 0.0, 5.0)];
    let tf = vec![[0u32, 2, 1], [0, 1, 3], [1, 2, 3], [2, 0, 3]];
    fam.push(("tetrahedron".into(), tv.clone(), tf.clone()));
    let ov = vec![Point3::new(1.0, 0.0, 0.0), Point3::new(-1.5, 0.0, 0.0), Point3::new(0.0, 2.0, 0.0), Point3::new(0.0, -2.5, 0.0), Point3::new(0.0, 0.0, 3.0), Point3::new(0.0, 0.0, -3.5)];
    let of = vec![[0u32, 2, 4], [2, 1, 4], [1, 3, 4], [3, 0, 4], [2, 0, 5], [1, 2, 5], [3, 1, 5], [0, 3, 5]];
    fam.push(("octahedron".into(), ov.clone(), of.clone()));
    let mut bv = tv.clone(); bv.extend(ov.iter().map(|q| Point3::new(q.x + 10.0, q.y, q.z)));
    let mut bf = tf.clone(); bf.extend(of.iter().map(|f| [f[0] + 4, f[1] + 4, f[2] + 4]));
    fam.push(("tetrahedron + octahedron (two components)".into(), bv, bf));
    let (v, f) = grid(3, 3, &[], 0.0, 0); fam.push(("3x3 grid".into(), v, f));
    let (v, f) = grid(4, 4, &[], 0.0, 0); fam.push(("4x4 grid".into(), v, f));
    let (v, f) = grid(5, 3, &[(1, 1), (3, 1)], 0.0, 0); fam.push(("5x3 grid with two holes".into(), v, f));
    let cy = Mesh::create_cylinder(1.0, 2.0, 6);
    fam.push(("create_cylinder(1, 2, 6)".into(), cy.vertices().to_vec(), cy.faces().to_vec()));
    let (mut n_closed, mut n_open) = (0usize, 0usize);
    for (name, v, f) in fam.iter() {
        let nf = f.len();
        let mut sets: Vec<Vec<usize>> = Vec::new();
        for a in 0..nf { sets.push(vec![a]); }
        for a in 0..nf { for b in 0..a { if nf <= 12 || (a + b) % 3 == 0 { sets.push(vec![b, a]); } } }
        sets.push((0..nf).step_by(2).collect());
        sets.push((0..nf).step_by(3).collect());
        sets.push((0..nf / 2).collect());
        for which in sets.iter() {
            let fs = flip(f, which);
            if !(inconsistent(&fs) && in_class_g(&fs)) { continue; }
            let closed = fs.iter().all(|t| dir_edges(t).iter().all(|e| fs.iter().filter(|u| dir_edges(u).iter().any(|g| ue(g.0, g.1) == ue(e.0, e.1))).count() == 2));
            if closed { n_closed += 1; } else { n_open += 1; }
            for variant in [0usize, 4] {
                let fs = restore(&fs, variant);
                buf.clear();
                for t in fs.iter() { buf.extend_from_slice(&[t[0] as i64, t[1] as i64, t[2] as i64]); }
                p.at(&buf);
                r.case();
                let mesh = Mesh::new(v.clone(), fs.clone(), false);
                check_edge_table(r, &mesh, v, &fs, &format!("{} with faces {:?} flipped (inconsistent winding, storage variant {})", name, which, variant));
            }
        }
    }
    // every ordered list of 3 faces over 5 vertices and of 4 faces over 4 vertices (tetrahedra with flipped faces)
    for (nv, len) in [(5u32, 3usize), (4, 4)] {
        let verts: Vec<Point3> = base_vertices()[..nv as usize].to_vec();
        let mut tri: Vec<[u32; 3]> = Vec::new();
        for a in 0..nv { for b in 0..nv { for c in 0..nv { if a != b && b != c && a != c { tri.push([a, b, c]); } } } }
        let mut idx = vec![0usize; len];
        loop {
            let faces: Vec<[u32; 3]> = idx.iter().map(|&i| tri[i]).collect();
            if inconsistent(&faces) && in_class_g(&faces) {
                n_small += 1;
                buf.clear();
                for f in faces.iter() { buf.extend_from_slice(&[f[0] as i64, f[1] as i64, f[2] as i64]); }
                p.at(&buf);
                r.case();
                let mesh = Mesh::new(verts.clone(), faces.clone(), false);
                check_edge_table(r, &mesh, &verts, &faces, "inconsistent winding, Mesh::new(fixed vertices)");
            }
            let mut k = 0;
            while k < len { idx[k] += 1; if idx[k] < tri.len() { break; } idx[k] = 0; k += 1; }
            if k == len { break; }
        }
    }
    r.check(n_small >= 1000 && n_closed >= 100 && n_open >= 20, "input space: inconsistently wound meshes with no edge in more than two faces occur (small lists, closed solids with flipped faces, disks with flipped interior faces)", || format!("{} small lists, {} closed, {} open", n_small, n_closed, n_open));
}

fn check_generated(r: &mut Report, mesh: &Mesh, label: &str, closed: bool, centre: &dyn Fn(&Point3) -> Point3) {
    r.case();
    let faces: Vec<[u32; 3]> = mesh.faces().to_vec();
    let verts: Vec<Point3> = mesh.vertices().to_vec();
    let desc = || format!("{} faces {:?}", label, faces);
    let mut de: Vec<(u32, u32)> = Vec::new();
    let mut wound = faces.iter().all(|f| f.iter().all(|&i| (i as usize) < verts.len()));
    for f in faces.iter() { for e in dir_edges(f) { if de.contains(&e) || e.0 == e.1 { wound = false; } de.push(e); } }
    r.check(wound, "generators: consistently wound (every directed edge occurs at most once, indices inside the vertex list)", desc);
    if closed {
        r.check(de.iter().all(|e| de.contains(&(e.1, e.0))), "generators: the box is closed (every undirected edge twice, once in each direction)", desc);
    }
    // outward normals: the library's face normal, and the normal of the stored winding, both point away from the centre / axis
    let mut out_ok = wound;
    let mut lib_ok = true;
    match mesh.get_face_normals() {
        Err(_) => lib_ok = false,
        Ok(ns) => {
            if ns.len() != faces.len() { lib_ok = false; }
            for (f, n) in faces.iter().zip(ns.iter()) {
                if !wound { break; }
                let (a, b, c) = (verts[f[0] as usize], verts[f[1] as usize], verts[f[2] as usize]);
                let g = Point3::new((a.x + b.x + c.x) / 3.0, (a.y + b.y + c.y) / 3.0, (a.z + b.z + c.z) / 3.0);
                let o = g - centre(&g);
                let w = (b - a).cross(&(c - a));
                if !(w.dot(&o) > 1e-9) { out_ok = false; }
                if !(n.dot(&o) > 1e-9) || !(n.dot(&w) > 0.0) || !close(n.norm(), 1.0) { lib_ok = false; }
            }
        }
    }
    r.check(out_ok, "generators: the stored winding of every face gives an outward normal", desc);
    r.check(lib_ok, "generators: get_face_normals returns one outward unit normal per face", desc);
}

fn run_generators(r: &mut Report, p: &Progress) {
    let mut k = 0i64;
    for (w, h, d) in [(1.0, 2.0, 3.0), (2.0, 2.0, 2.0), (0.5, 4.0, 1.0), (3.0, 0.25, 8.0)] {
        k += 1; p.at(&[0, k]);
        let m = Mesh::create_box(w, h, d, false);
        let label = format!("create_box({}, {}, {})", w, h, d);
        let c = Point3::new(w / 2.0, h / 2.0, d / 2.0);
        check_generated(r, &m, &label, true, &|_g| c);
        r.check(m.faces().len() == 12 && m.vertices().len() == 8, "generators: a box has 8 vertices and 12 faces", || label.clone());
        if in_class(m.faces()) { check_mesh(r, &m.vertices().to_vec(), &m.faces().to_vec(), &label); }
    }
    for steps in 3..=16usize { for (rad, h) in [(1.0, 1.0), (2.5, 3.0)] {
        k += 1; p.at(&[1, steps as i64, k]);
        let m = Mesh::create_cylinder(rad, h, steps);
        let label = format!("create_cylinder({}, {}, {})", rad, h, steps);
        check_generated(r, &m, &label, false, &|g| Point3::new(0.0, 0.0, g.z));
        r.check(m.faces().len() == 2 * steps && m.vertices().len() == 2 * steps, "generators: a cylinder wall has 2*steps vertices and 2*steps faces", || label.clone());
        if in_class(m.faces()) {
            check_mesh(r, &m.vertices().to_vec(), &m.faces().to_vec(), &label);
            // an open tube: one patch, two rim loops of `steps` vertices
            let loops = m.calc_edges().map(|e| e.boundary_loops.iter().map(|l| l.len()).collect::<Vec<_>>()).unwrap_or_default();
            r.check(loops == vec![steps, steps] && m.get_patches().len() == 1, "generators: the cylinder wall is one patch with two rim loops of `steps` vertices", || format!("{} loops {:?}", label, loops));
        }
    } }
}


// ------------------------------------------------------------------------------------------------ (d) edge lengths far from the origin
/// a (nx x ny) grid of quads with the given pitch, sheared and lifted so that no two edges of a quad have the same
/// length, placed at `off`; pitch and offsets are dyadic or short decimals: the stored coordinates are whatever f64
/// holds, and the oracle works from those STORED coordinates
fn far_grid(nx: u32, ny: u32, pitch: f64, off: (f64, f64, f64)) -> (Vec<Point3>, Vec<[u32; 3]>) {
    let mut v = Vec::new();
    for j in 0..=ny { for i in 0..=nx {
        v.push(Point3::new(off.0 + pitch * (i as f64 + 0.125 * j as f64), off.1 + pitch * 1.5 * j as f64, off.2 + pitch * 0.25 * (i * j) as f64));
    } }
    let id = |i: u32, j: u32| j * (nx + 1) + i;
    let mut f = Vec::new();
    for j in 0..ny { for i in 0..nx {
        f.push([id(i, j), id(i + 1, j), id(i + 1, j + 1)]);
        f.push([id(i, j), id(i + 1, j + 1), id(i, j + 1)]);
    } }
    (v, f)
}
/// "the edge table lists each undirected edge once WITH ITS LENGTH": the length of edge [a, b] is |v_b - v_a|, the
/// norm of the coordinate differences of the two stored vertices (each difference of nearby coordinates is exact or
/// correctly rounded, so this value is good to a few ulp whatever the distance of the mesh from the origin);
/// demanded to RELATIVE 1e-12
fn check_lengths(r: &mut Report, verts: &[Point3], faces: &[[u32; 3]], label: &str) {
    r.case();
    let mesh = Mesh::new(verts.to_vec(), faces.to_vec(), false);
    let stored = mesh.vertices().to_vec();
    let desc = || format!("{} ({} vertices, {} faces)", label, verts.len(), faces.len());
    match mesh.calc_edges() {
        Err(_) => r.check(false, "edges: a mesh with no edge in more than two faces has an edge table", desc),
        Ok(me) => {
            let mut und: Vec<(u32, u32)> = Vec::new();
            for f in faces { for e in dir_edges(f) { und.push(ue(e.0, e.1)); } }
            und.sort(); und.dedup();
            let mut listed: Vec<(u32, u32)> = me.edges.iter().map(|e| ue(e[0], e[1])).collect();
            listed.sort();
            r.check(listed == und, "edges: the edge table lists each undirected edge exactly once", desc);
            r.check(me.edge_lengths.len() == me.edges.len(), "edges: one length per listed edge", desc);
            let mut worst: Option<(usize, f64, f64)> = None;
            for (k, (e, l)) in me.edges.iter().zip(me.edge_lengths.iter()).enumerate() {
                if e[0] as usize >= stored.len() || e[1] as usize >= stored.len() { continue; }
                let (a, b) = (stored[e[0] as usize], stored[e[1] as usize]);
                let (dx, dy, dz) = (b.x - a.x, b.y - a.y, b.z - a.z);
                let t = (dx * dx + dy * dy + dz * dz).sqrt();
                let ok = l.is_finite() && t > 0.0 && (*l - t).abs() <= 1e-12 * t;
                if !ok && worst.map(|w| (w.1 - w.2).abs() / w.2 < (*l - t).abs() / t).unwrap_or(true) { worst = Some((k, *l, t)); }
            }
            r.check(worst.is_none(), "edges: every listed edge carries its length |v1 - v0| to relative 1e-12, wherever the mesh lies (meshes far from the origin, fine pitch)", || {
                let (k, l, t) = worst.unwrap();
                let e = me.edges[k];
                let (a, b) = (stored[e[0] as usize], stored[e[1] as usize]);
                format!("{}: edge {:?} between ({:?}, {:?}, {:?}) and ({:?}, {:?}, {:?}) has edge_lengths[{}] = {:?} but the vertices are {:?} apart (relative error {:e})", desc(), e, a.x, a.y, a.z, b.x, b.y, b.z, k, l, t, (l - t).abs() / t)
            });
        }
    }
}
fn run_far_meshes(r: &mut Report, p: &Progress) {
    let offsets = [(0.0, 0.0, 0.0), (1500.0, -2000.0, 350.0), (-1536.0, 2048.0, 352.0), (123456.789, -98765.4321, 5000.5), (-0.001, 0.002, 1.0e6)];
    let pitches = [5.0e-6, 1.0e-4, 0.0009765625, 0.03125, 0.3, 1.0];
    let mut k = 0i64;
    for off in offsets { for pitch in pitches { for (nx, ny) in [(1u32, 1u32), (4, 3), (12, 9)] {
        k += 1; p.at(&[3, k]);
        let (v, f) = far_grid(nx, ny, pitch, off);
        check_lengths(r, &v, &f, &format!("{}x{} grid of pitch {:?} at offset {:?}", nx, ny, pitch, off));
    } } }
    // the library's own generators moved away from the origin (translation only: lengths are those of the moved vertices)
    for off in offsets { for s in [5.0e-6, 0.001, 1.0] {
        k += 1; p.at(&[4, k]);
        let b = Mesh::create_box(2.0 * s, 3.0 * s, 5.0 * s, false);
        let v: Vec<Point3> = b.vertices().iter().map(|q| Point3::new(q.x + off.0, q.y + off.1, q.z + off.2)).collect();
        check_lengths(r, &v, &b.faces().to_vec(), &format!("create_box({:?}, {:?}, {:?}) moved by {:?}", 2.0 * s, 3.0 * s, 5.0 * s, off));
        let c = Mesh::create_cylinder(2.0 * s, 3.0 * s, 12);
        let v: Vec<Point3> = c.vertices().iter().map(|q| Point3::new(q.x + off.0, q.y + off.1, q.z + off.2)).collect();
        check_lengths(r, &v, &c.faces().to_vec(), &format!("create_cylinder({:?}, {:?}, 12) moved by {:?}", 2.0 * s, 3.0 * s, off));
    } }
}

// ------------------------------------------------------------------------------------------------ (e) patches on ANY face list
/// the clauses of the patch decomposition that hold for EVERY face list (inconsistent winding, vertex-only contacts,
/// repeated faces included): every face in exactly one non-empty patch; faces that share a patch are connected through
/// shared edges.  "Faces connected through shared edges share a patch" is demanded when no directed edge occurs in two
/// faces (consistent winding; vertex-only contacts allowed) - with a flipped face the unchanged code's answer depends on
/// the hash-chosen start face (DESIGN D8), which is not a verdict a deterministic check can give.
/// The call is repeated `runs` times: std's RandomState differs per HashSet, so the start face changes from call to call.
fn check_patches_any(r: &mut Report, verts: &[Point3], faces: &[[u32; 3]], runs: usize, label: &str) {
    r.case();
    let nf = faces.len();
    let mesh = Mesh::new(verts.to_vec(), faces.to_vec(), false);
    let mut d = Dsu::new(nf);
    for a in 0..nf { for b in 0..a {
        if dir_edges(&faces[a]).iter().any(|e| dir_edges(&faces[b]).iter().any(|g| ue(e.0, e.1) == ue(g.0, g.1))) { d.union(a, b); }
    } }
    let comp_of: Vec<usize> = (0..nf).map(|i| d.find(i)).collect();
    let comp = d.groups();
    let mut de: Vec<(u32, u32)> = Vec::new();
    let mut wound = true;
    for f in faces { for e in dir_edges(f) { if de.contains(&e) { wound = false; } de.push(e); } }
    let all: Vec<usize> = (0..nf).collect();
    let (mut part_ok, mut sound_ok, mut max_ok) = (true, true, true);
    let mut bad: Option<Vec<Vec<usize>>> = None;
    for _run in 0..runs {
        let patches = mesh.get_patches();
        let mut flat: Vec<usize> = patches.iter().flatten().copied().collect();
        flat.sort();
        let p_ok = flat == all && patches.iter().all(|q| !q.is_empty());
        let s_ok = patches.iter().all(|q| q.iter().all(|&i| i < nf && comp_of[i] == comp_of[q[0].min(nf - 1)]));
        let m_ok = !wound || !p_ok || canon(&patches) == comp;
        if !(p_ok && s_ok && m_ok) && bad.is_none() { bad = Some(patches.clone()); }
        part_ok &= p_ok; sound_ok &= s_ok; max_ok &= m_ok;
    }
    let desc = || format!("{} faces {:?} ({} calls) get_patches {:?}", label, faces, runs, bad);
    r.check(part_ok, "patches: every face is in exactly one patch", desc);
    r.check(sound_ok, "patches: two faces that share a patch are connected through shared edges (any winding, any contact)", desc);
    r.check(max_ok, "patches: two faces share a patch exactly when they are connected through shared edges", desc);
}
fn flip(faces: &[[u32; 3]], which: &[usize]) -> Vec<[u32; 3]> {
    faces.iter().enumerate().map(|(k, f)| if which.contains(&k) { [f[0], f[2], f[1]] } else { *f }).collect()
}
fn run_flipped_meshes(r: &mut Report, p: &Progress) {
    let verts = base_vertices();
    let mut tri: Vec<[u32; 3]> = Vec::new();
    for a in 0..5u32 { for b in 0..5u32 { for c in 0..5u32 { if a != b && b != c && a != c { tri.push([a, b, c]); } } } }
    let mut buf: Vec<i64> = Vec::new();
    // every ordered list of 1..=2 faces (64 calls each) and every ordered list of 3 faces over the vertices 0..4 whose
    // first face is one of [0,1,2] / [0,2,1] (8 calls each) - the lists skipped are relabelings of these
    for len in 1..=3usize {
        let mut idx = vec![0usize; len];
        loop {
            let faces: Vec<[u32; 3]> = idx.iter().map(|&i| tri[i]).collect();
            let run_it = len < 3 || (faces[0] == [0, 1, 2] || faces[0] == [0, 2, 1]);
            if run_it {
                buf.clear();
                for f in faces.iter() { buf.extend_from_slice(&[f[0] as i64, f[1] as i64, f[2] as i64]); }
                p.at(&buf);
                check_patches_any(r, &verts, &faces, if len < 3 { 64 } else { 8 }, "Mesh::new(5 fixed vertices)");
            }
            let mut k = 0;
            while k < len { idx[k] += 1; if idx[k] < tri.len() { break; } idx[k] = 0; k += 1; }
            if k == len { break; }
        }
    }
    // larger meshes with flipped faces, 64 calls each
    let mut fam: Vec<(String, Vec<Point3>, Vec<[u32; 3]>)> = Vec::new();
    let bx = Mesh::create_box(2.0, 3.0, 5.0, false);
    fam.push(("create_box(2, 3, 5)".into(), bx.vertices().to_vec(), bx.faces().to_vec()));
    let cy = Mesh::create_cylinder(1.0, 2.0, 6);
    fam.push(("create_cylinder(1, 2, 6)".into(), cy.vertices().to_vec(), cy.faces().to_vec()));
    let (v, f) = grid(3, 3, &[], 0.0, 0); fam.push(("3x3 grid".into(), v, f));
    let (v, f) = grid(4, 1, &[(2, 0)], 0.0, 0); fam.push(("4x1 strip cut into two components".into(), v, f));
    let tv = vec![Point3::new(0.0, 0.0, 0.0), Point3::new(2.0, 0.0, 0.0), Point3::new(0.0, 3.0, 0.0), Point3::new(0.0, 0.0, 5.0)];
    let tf = vec![[0u32, 2, 1], [0, 1, 3], [1, 2, 3], [2, 0, 3]];
    fam.push(("tetrahedron".into(), tv, tf));
    // two triangles meeting at a vertex only, and a bow-tie of two fans
    fam.push(("two faces with a vertex-only contact".into(), base_vertices(), vec![[0, 1, 2], [0, 3, 4]]));
    for (name, v, f) in fam.iter() {
        let nf = f.len();
        let mut sets: Vec<Vec<usize>> = vec![vec![]];
        for a in 0..nf { sets.push(vec![a]); }
        for a in 0..nf { for b in 0..a { if nf <= 12 || (a + b) % 3 == 0 { sets.push(vec![b, a]); } } }
        sets.push((0..nf).step_by(2).collect());
        sets.push((0..nf).collect());
        for which in sets.iter() {
            let fs = flip(f, which);
            buf.clear();
            for t in fs.iter() { buf.extend_from_slice(&[t[0] as i64, t[1] as i64, t[2] as i64]); }
            p.at(&buf);
            check_patches_any(r, v, &fs, 64, &format!("{} with faces {:?} flipped", name, which));
        }
    }
}

// ------------------------------------------------------------------------------------------------ (f) many separate chains
/// the clauses of check_chain for vertex ids beyond 0..5 (no fixed-size tables)
fn check_chain_big(r: &mut Report, pairs: &[[u32; 2]], label: &str, expect_chains: Option<usize>) {
    r.case();
    let chains = crate::common::indices::chained_indices(pairs);
    let desc = || format!("{}: chained_indices({:?}) = {:?}", label, pairs, chains);
    let mut want: Vec<(u32, u32)> = pairs.iter().map(|q| (q[0], q[1])).collect();
    want.sort();
    let mut got: Vec<(u32, u32)> = Vec::new();
    for c in chains.iter() { for w in c.windows(2) { got.push((w[0], w[1])); } }
    got.sort();
    r.check(chains.iter().all(|c| c.len() >= 2), "chaining: every chain has at least two entries, all of them input vertex ids", desc);
    r.check(got.iter().all(|g| want.binary_search(g).is_ok()), "chaining: consecutive chain entries are an input pair with its orientation kept", desc);
    r.check(got == want, "chaining: every input pair is consumed exactly once", desc);
    let outdeg = |v: u32| pairs.iter().filter(|q| q[0] == v).count();
    let indeg = |v: u32| pairs.iter().filter(|q| q[1] == v).count();
    let mut maximal = true;
    for (i, a) in chains.iter().enumerate() { for (j, b) in chains.iter().enumerate() {
        if i == j || a.len() < 2 || b.len() < 2 { continue; }
        let v = *a.last().unwrap();
        if v == b[0] && indeg(v) == 1 && outdeg(v) == 1 { maximal = false; }
    } }
    r.check(maximal, "chaining: chains are maximal (two chains meet end-to-start only at an index where the continuation is not unique)", desc);
    if let Some(n) = expect_chains {
        r.check(chains.len() == n, "chaining: separate simple chains / loops come out as one chain each", || format!("{} expected {} chains", desc(), n));
    }
}
fn run_many_chains(r: &mut Report, p: &Progress) {
    // k separate simple loops (closed) or open chains of m links each; the pairs stored in 4 orders
    for k in 1..=12usize { for m in [1usize, 2, 3, 4, 6, 9] { for closed in [false, true] {
        if closed && m < 2 { continue; }
        let mut pairs: Vec<[u32; 2]> = Vec::new();
        for c in 0..k {
            let base = (c * (m + 1)) as u32;
            for l in 0..m {
                let a = base + l as u32;
                let b = if closed && l == m - 1 { base } else { base + l as u32 + 1 };
                pairs.push([a, b]);
            }
        }
        let n = pairs.len();
        for order in 0..4usize {
            let stored: Vec<[u32; 2]> = match order {
                0 => pairs.clone(),
                1 => pairs.iter().rev().copied().collect(),
                2 => (0..n).map(|i| pairs[(i * 7 + 3) % n]).collect::<Vec<_>>(), // a permutation when gcd(7, n) == 1
                _ => { let mut e: Vec<[u32; 2]> = pairs.iter().step_by(2).copied().collect(); e.extend(pairs.iter().skip(1).step_by(2).copied()); e }
            };
            if order == 2 && n % 7 == 0 { continue; }
            p.at(&[5, k as i64, m as i64, closed as i64, order as i64]);
            check_chain_big(r, &stored, &format!("{} separate {} of {} links each, storage order {}", k, if closed { "closed loops" } else { "open chains" }, m, order), Some(k));
        }
    } } }
}

// ------------------------------------------------------------------------------------------------ (i) boundary edges that do not form closed loops (D7)
/// `calc_edges` on face lists with no edge in more than two faces that are NOT in class G: some boundary vertex is left, or
/// entered, by two boundary edges (faces touching at a boundary vertex only: bow-ties, fins; a face flipped along the
/// boundary).  There are no boundary loops to report: the call must RETURN (watchdog) and answer Err, not hang or panic.
/// Run LAST: on a tree without the repair the first such input never returns and the stuck thread dies with the process
const D7_CLAUSE: &str = "edges: a mesh whose boundary edges do not form closed loops (faces touching at a boundary vertex only, winding flipped along the boundary) is refused (Err)";
fn check_refused(r: &mut Report, verts: &[Point3], faces: &[[u32; 3]], label: &str) {
    r.case();
    let mesh = Mesh::new(verts.to_vec(), faces.to_vec(), false);
    for _run in 0..2 {
        let res = mesh.calc_edges();
        r.check(res.is_err(), D7_CLAUSE, || format!("{} faces {:?}: calc_edges returned Ok with boundary_loops {:?}", label, faces, res.as_ref().map(|e| e.boundary_loops.clone()).unwrap_or_default()));
    }
}
fn run_open_boundaries(r: &mut Report, p: &Progress) {
    let mut buf: Vec<i64> = Vec::new();
    let (mut n_contact, mut n_flipped, mut n_ok) = (0usize, 0usize, 0usize);
    // larger meshes first (so that the reported inputs are the readable ones)
    let mut fam: Vec<(String, Vec<Point3>, Vec<[u32; 3]>)> = Vec::new();
    fam.push(("two triangles sharing one vertex (bow-tie)".into(), base_vertices(), vec![[0, 1, 2], [0, 3, 4]]));
    fam.push(("two triangles sharing one vertex, opposite winding".into(), base_vertices(), vec![[0, 1, 2], [0, 4, 3]]));
    fam.push(("two adjacent triangles, one flipped".into(), base_vertices(), vec![[0, 1, 2], [1, 2, 3]]));
    // two 2x2 grids sharing one corner vertex; a 3x3 grid and a fin triangle touching it at a boundary vertex / at an interior vertex
    let (v1, f1) = grid(2, 2, &[], 0.0, 0);
    let (v2, f2) = grid(2, 2, &[], 5.0, 9);
    let mut v = v1.clone(); v.extend(v2.iter().skip(1).copied());
    let remap = |i: u32| if i == 9 { 8 } else { i - 1 };
    let mut f = f1.clone(); f.extend(f2.iter().map(|t| [remap(t[0]), remap(t[1]), remap(t[2])]));
    fam.push(("two 2x2 grids sharing one corner vertex".into(), v, f));
    let (gv, gf) = grid(3, 3, &[], 0.0, 0);
    let mut v = gv.clone(); v.push(Point3::new(0.5, 0.5, 4.0)); v.push(Point3::new(1.5, 0.5, 4.0));
    let mut f = gf.clone(); f.push([1, 16, 17]);
    fam.push(("3x3 grid + a fin triangle touching it at the boundary vertex 1 only".into(), v.clone(), f));
    let mut f = gf.clone(); f.push([5, 16, 17]);
    fam.push(("3x3 grid + a fin triangle touching it at the interior vertex 5 only".into(), v, f));
    for (name, v, f) in fam.iter() {
        buf.clear();
        for t in f.iter() { buf.extend_from_slice(&[t[0] as i64, t[1] as i64, t[2] as i64]); }
        p.at(&buf);
        if has_edge_in_three_faces(f) { r.case(); r.check(false, "internal: hand-built mesh has no edge in three faces", || format!("{} {:?}", name, f)); continue; }
        if in_class_g(f) {
            // a contact at a vertex that is INTERIOR to the other piece leaves the boundary edges in closed loops: edge table expected
            n_ok += 1;
            r.case();
            let mesh = Mesh::new(v.clone(), f.clone(), false);
            check_edge_table(r, &mesh, v, f, name);
        } else {
            n_contact += 1;
            check_refused(r, v, f, name);
        }
    }
    // open meshes with faces flipped: in class G -> edge table (group g); outside -> Err
    let mut fam: Vec<(String, Vec<Point3>, Vec<[u32; 3]>)> = Vec::new();
    let (v, f) = grid(3, 3, &[], 0.0, 0); fam.push(("3x3 grid".into(), v, f));
    let (v, f) = grid(5, 3, &[(1, 1), (3, 1)], 0.0, 0); fam.push(("5x3 grid with two holes".into(), v, f));
    let cy = Mesh::create_cylinder(1.0, 2.0, 6);
    fam.push(("create_cylinder(1, 2, 6)".into(), cy.vertices().to_vec(), cy.faces().to_vec()));
    let bx = Mesh::create_box(2.0, 3.0, 4.0, false);
    fam.push(("create_box(2, 3, 4) without its first face".into(), bx.vertices().to_vec(), bx.faces()[1..].to_vec()));
    for (name, v, f) in fam.iter() {
        let nf = f.len();
        let mut sets: Vec<Vec<usize>> = Vec::new();
        for a in 0..nf { sets.push(vec![a]); }
        for a in 0..nf { for b in 0..a { if (a + b) % 3 == 0 { sets.push(vec![b, a]); } } }
        sets.push((0..nf).step_by(2).collect());
        sets.push((0..nf / 2).collect());
        for which in sets.iter() {
            let fs = flip(f, which);
            if has_edge_in_three_faces(&fs) || in_class_g(&fs) { continue; }
            n_flipped += 1;
            buf.clear();
            for t in fs.iter() { buf.extend_from_slice(&[t[0] as i64, t[1] as i64, t[2] as i64]); }
            p.at(&buf);
            check_refused(r, v, &fs, &format!("{} with faces {:?} flipped", name, which));
        }
    }
    // every ordered list of 2 and 3 faces over 5 vertices outside class G (no edge in three faces)
    let verts = base_vertices();
    let mut tri: Vec<[u32; 3]> = Vec::new();
    for a in 0..5u32 { for b in 0..5u32 { for c in 0..5u32 { if a != b && b != c && a != c { tri.push([a, b, c]); } } } }
    let mut n_small = 0usize;
    for len in 2..=3usize {
        let mut idx = vec![0usize; len];
        loop {
            let faces: Vec<[u32; 3]> = idx.iter().map(|&i| tri[i]).collect();
            if !has_edge_in_three_faces(&faces) && !in_class_g(&faces) {
                n_small += 1;
                buf.clear();
                for f in faces.iter() { buf.extend_from_slice(&[f[0] as i64, f[1] as i64, f[2] as i64]); }
                p.at(&buf);
                check_refused(r, &verts, &faces, "Mesh::new(5 fixed vertices)");
            }
            let mut k = 0;
            while k < len { idx[k] += 1; if idx[k] < tri.len() { break; } idx[k] = 0; k += 1; }
            if k == len { break; }
        }
    }
    r.check(n_contact >= 5 && n_ok >= 1 && n_flipped >= 50 && n_small >= 10000, "input space: meshes whose boundary edges do not form closed loops occur (vertex-only contacts, faces flipped along the boundary, small lists)", || format!("{} hand-built, {} flipped, {} small lists", n_contact, n_flipped, n_small));
}

// ------------------------------------------------------------------------------------------------ (h) large vertex ids
/// meshes with a few faces over a LARGE vertex list (70000 vertices): vertex ids on both sides of 2^16, ids that agree
/// modulo 2^16, and ids whose bit 16 lands on another id's low bits when two ids are packed into one word - every
/// clause of check_mesh (edge table, patches, patch boundaries) against the same brute-force oracles
fn run_large_ids(r: &mut Report, p: &Progress) {
    let nv = 70000usize;
    let verts: Vec<Point3> = (0..nv).map(|i| Point3::new(i as f64 * 0.5, (i % 7) as f64, (i % 11) as f64 * 0.25)).collect();
    let mut k = 0i64;
    // two disjoint faces: the first over small ids, the second over every ordered triple of a set mixing small and large ids
    let pool: [u32; 8] = [2, 8, 65538, 65539, 65541, 65544, 65545, 69999];
    for first in [[3u32, 5, 9], [65539 + 4, 65536 + 5, 65536 + 9], [9, 65541, 3]] {
        for a in pool { for b in pool { for c in pool {
            if a == b || b == c || a == c || first.contains(&a) || first.contains(&b) || first.contains(&c) { continue; }
            let faces = vec![first, [a, b, c]];
            k += 1; p.at(&[7, k, a as i64, b as i64, c as i64]);
            check_mesh(r, &verts, &faces, "two faces without a common vertex over 70000 vertices");
        } } }
    }
    // two separate consistently wound strips of 40 faces, one on low ids and one across / above 2^16; the same with the
    // second strip shifted so that its ids agree with the first strip's modulo 2^16
    for base2 in [65530u32, 65536, 65500, 69000] {
        let mut faces: Vec<[u32; 3]> = Vec::new();
        for base in [0u32, base2] { for i in 0..40u32 {
            let a = base + i;
            faces.push(if i % 2 == 0 { [a, a + 1, a + 2] } else { [a + 1, a, a + 2] });
        } }
        k += 1; p.at(&[8, k, base2 as i64]);
        if in_class(&faces) { check_mesh(r, &verts, &faces, &format!("two separate strips of 40 faces on vertex ids 0.. and {}.. over 70000 vertices", base2)); }
        else { r.case(); r.check(false, "internal: hand-built mesh is in the stated class", || format!("strips at {}", base2)); }
    }
}

pub fn run() -> Option<Report> {
    let mut r = Report::new("chained_indices: every list of <= 4 pairs over vertex ids 0..5 (406901 lists); clusters_from_sparse: every subset of a 2x2x2 block, a 3x3x1 slab and a 2x2x3 block of voxels (4864 sets, each twice); Mesh::calc_edges / get_patches / get_patch_boundary_points: every ordered list of <= 3 faces over 5 vertices that is consistently wound and free of vertex-only contacts, 11 larger hand-built meshes of that class in 6 storage variants each, create_box (4 sizes) and create_cylinder (steps 3..=16, 2 sizes), repeated 2-3 times per mesh for hash order; every <= 3 face list with an edge in three faces must be refused; each group under a progress watchdog (6 s per input). Vertex-only contacts and inconsistent winding: see ROUND 4 and D7 below (patch boundaries are not evaluated on them). Edge lengths to relative 1e-12 on grids (1x1, 4x3, 12x9), boxes and 12-step cylinders of pitch 5e-6 .. 1 at 5 offsets up to 1e6 from the origin. get_patches on ANY face list (partition and edge-connected patches always, maximality when no directed edge occurs twice): all lists of <= 2 faces over 5 vertices x 64 calls, 3-face lists starting with [0,1,2] / [0,2,1] x 8 calls, box / cylinder / grid / strip / tetrahedron with single faces, pairs, every other and all faces flipped x 64 calls. chained_indices on 1..12 separate chains / closed loops of 1..9 links in 4 storage orders. ROUND 4: the hand-built meshes (+ a disk around the LAST vertex, a 4x4 grid) also with the vertex numbering reversed and with the interior vertices numbered last (lexicographically last edge interior); calc_edges on INCONSISTENTLY wound meshes whose boundary edges still give every boundary vertex one successor and one predecessor (closed surfaces with any faces flipped, disks with flipped interior faces): every such ordered list of 3 faces over 5 vertices and of 4 faces over 4 vertices, boxes / tetrahedron / octahedron / both / 3x3, 4x4, 5x3-with-holes grids with single faces, pairs, every 2nd, every 3rd and the first half of the faces flipped, in 2 storage variants: edge table produced (not Err), each undirected edge once with its length, face -> edges, boundary loops; LARGE vertex ids: two vertex-disjoint faces over a 70000-vertex list (3 first faces x every ordered triple of 8 ids on both sides of 2^16, incl. ids that collide when two ids are packed with a 16-bit shift) and two separate 40-face strips on ids 0.. and {65500, 65530, 65536, 69000}..: all clauses of the mesh group (edge table, patches, patch boundaries); D7 (repaired): calc_edges returns Err (and returns: 6 s watchdog) when no edge is in more than two faces but the boundary edges do not form closed loops - bow-ties, two grids sharing a corner, fins touching a grid at one vertex, 3x3 / 5x3-with-holes grids, a cylinder and an open box with single faces, pairs, every 2nd and the first half of the faces flipped (those outside class G), and every ordered list of 2 / 3 faces over 5 vertices outside class G");
    guarded(&mut r, "chaining", "pairs (flattened)", run_chains);
    guarded(&mut r, "voxels", "voxels (flattened x,y,z)", run_voxels);
    guarded(&mut r, "mesh", "faces (flattened)", run_small_meshes);
    guarded(&mut r, "mesh", "faces (flattened)", run_built_meshes);
    guarded(&mut r, "generators", "generator case", run_generators);
    guarded(&mut r, "edge lengths", "case id", run_far_meshes);
    guarded(&mut r, "patches (any winding)", "faces (flattened)", run_flipped_meshes);
    guarded(&mut r, "mesh (inconsistent winding)", "faces (flattened)", run_inconsistent_meshes);
    guarded(&mut r, "mesh (large vertex ids)", "case id", run_large_ids);
    // LAST: on a tree without the D7 repair the first input of this group never returns
    guarded(&mut r, "mesh (boundary edges do not form closed loops)", "faces (flattened)", run_open_boundaries);
    guarded(&mut r, "chaining", "k chains / links / closed / storage order", run_many_chains);
    Some(r)
}
