//! C12 bounded: connectivity results are exact partitions, terminate, and do not depend on the hash-iteration order.
//! Every group runs on a worker thread under a progress watchdog (a case normally takes microseconds; no progress for
//! STALL_MS is reported as non-termination together with the input that was being evaluated; a panic of the real code
//! is reported with its input as well).  All oracles are brute force (union-find / counting) and use no hash containers.
//!
//! (a) `common::indices::chained_indices` on every list of <= 4 pairs over the vertex ids 0..5 (self pairs and repeated
//!     pairs included);
//! (b) `raster3::clusters_from_sparse` on every subset of a 2x2x2 block, of a 3x3x1 slab and of a 2x2x3 block (blocks
//!     placed across the origin so that negative coordinates occur), each evaluated twice (fresh hash state);
//! (c) `Mesh::{calc_edges, get_patches, get_patch_boundary_points}` on every ORDERED list of <= 3 faces over 5 vertices
//!     that is consistently wound (no directed edge twice => no edge in more than two faces) and has no vertex-only
//!     contact (the faces around every vertex form one edge-connected fan), on a family of larger hand-built meshes
//!     of the same class (grids with holes, closed solids, several components, with rotated / reversed face storage),
//!     and on the outputs of `Mesh::create_box` / `Mesh::create_cylinder`; every face list with an edge in three
//!     faces must be refused by `calc_edges`.  Inputs outside that class (vertex-only contacts, inconsistent
//!     winding) are evaluated by the groups (g) and (i): `calc_edges` answers Ok with a full edge table when the boundary
//!     edges still form closed loops, and Err - returning, not hanging or panicking - when they do not (DESIGN D7, repaired);
//! (d) edge lengths of `calc_edges` against |v1 - v0| of the stored vertices to RELATIVE 1e-12 on grids, boxes and
//!     cylinders of pitch 5e-6 .. 1 placed at (0,0,0), (1500,-2000,350), (-1536,2048,352), (123456.789,-98765.4321,5000.5)
//!     and (-0.001,0.002,1e6);
//! (e) `get_patches` on ANY face list - every ordered list of <= 2 faces over 5 vertices (64 calls each), every ordered
//!     3-face list starting with [0,1,2] or [0,2,1] (8 calls each), and box / cylinder / 3x3 grid / cut strip /
//!     tetrahedron / a vertex-only contact with no face, each single face, pairs of faces, every other face and all
//!     faces flipped (64 calls each; std's RandomState gives every call its own start face): every face in exactly one
//!     patch and every patch edge-connected, for every input; maximal connectivity only where no directed edge occurs
//!     in two faces (with a flipped face the unchanged code's answer depends on the start face, DESIGN D8);
//! (f) `chained_indices` on 1..=12 separate simple chains / closed loops of 1..=9 links in 4 storage orders.
//! (g) ROUND 4: `calc_edges` on INCONSISTENTLY wound meshes on which the unchanged code terminates: no edge in more than two
//!     faces and the boundary edges (in the direction of their only face) give every boundary vertex exactly one successor
//!     and one predecessor - closed surfaces with any faces flipped, disks with flipped interior faces.  The hand-built
//!     meshes of (c) additionally with reversed vertex numbering and with the interior vertices numbered last.
//! (h) the clauses of (c) on few-face meshes over a 70000-vertex list (vertex ids on both sides of 2^16).
//! (i) D7 (repaired: the computations FINISH): face lists with no edge in more than two faces whose directed boundary edges are
//!     not a successor bijection, run under the watchdog and split by the degree-balance oracle: (i-a) every vertex is left by
//!     as many boundary edges as enter it (bow-ties, grids sharing a corner, a fin touching at a boundary vertex) - the call
//!     returns, and the statement's edge table with loops covering every boundary edge exactly once is demanded by the
//!     clause "[defect vertex-only contact refused] ..." (the repaired code answers Err: residual known finding); (i-b) degrees
//!     unbalanced (a face flipped along the boundary) - no panic, Err or loops that are closed cycles over boundary edges each
//!     used at most once.  Hand-built meshes, open meshes with flipped faces, every ordered 2 / 3 face list over 5 vertices.
//! WAVE 5 (parameter-space audit, notes/w5_audit_C12.md):
//! (j) `index_vec` directly: None -> 0..len for 18 lengths up to 65537, Some(list) -> the list, whatever `len` is;
//! (k) `chained_indices` on chains / closed loops of 31 .. 4097 links on vertex ids up to exactly u32::MAX in 5 storage orders,
//!     every list of <= 3 pairs over {0, 1, 65536, u32::MAX - 1, u32::MAX}, 1100 / 4100 / 1030 separate chains, branches;
//! (l) `clusters_from_sparse` on two voxels at every offset of [-3,3]^3 from 8 bases up to |coordinate| = i32::MAX - 1, on
//!     voxels 2^k apart (k = 4 .. 30) listed twice, on clusters of up to 5000 voxels and up to 1500 clusters;
//! (m) the mesh clauses, with sort-based oracles, on meshes of 4200 .. 46812 faces (grids with and without holes, a strip with
//!     a boundary loop of 4202 vertices, tori, 1100 separate triangles, components of very different sizes in both storage
//!     orders, a 2100-step cylinder, a grid with more than 65536 edges on vertex ids 50000..), class G and the Err verdicts at
//!     that scale, the `MeshEdges` accessors;
//! (n) a TOTAL verdict for `calc_edges` (Err exactly when an edge is in three faces or the boundary edges do not form closed
//!     loops; the full edge table otherwise) and the any-winding patch clauses on every list [0,1,2] + 3 faces over 5 vertices,
//!     every ordered list [0,1,2] + 2 faces over 6 vertices, a Moebius band, a projective plane, tetrahedra sharing a vertex /
//!     an edge, holes touching at a vertex, coincident vertex positions (zero-length edge);
//! (o) faces with a repeated vertex: the calls return, same verdict twice, every face in exactly one patch;
//! (p) `create_box` on every ordered triple of sizes from 1e-9 .. 1e8 x is_solid, `create_cylinder` on radius 1e-6 .. 1e6 x
//!     height 1e-6 .. 1e8 x steps 3 .. 257, steps 3 ..= 70 and up to 32769 (outwardness evaluated scale free);
//! (q) edge lengths for pitches 1e-9 .. 1e6, offsets up to 1e8, up to 12416 edges.
use super::{close, Report};
use crate::geom3::{Mesh, Point3};
use std::collections::HashSet;
use std::sync::atomic::{AtomicU64, Ordering};
use std::sync::{Arc, Mutex};

const STALL_MS: u64 = 6000;

// ------------------------------------------------------------------------------------------------ watchdog
struct Progress {
    tick: AtomicU64,
    cur: Mutex<Vec<i64>>,
}
impl Progress {
    /// announce the input that is evaluated next (flattened numbers)
    fn at(&self, input: &[i64]) {
        let mut c = self.cur.lock().unwrap();
        c.clear();
        c.extend_from_slice(input);
        drop(c);
        self.tick.fetch_add(1, Ordering::Relaxed);
    }
}

/// run `work` on its own thread; merge its report; a stall or a panic becomes a failing clause naming the current input
fn guarded<F>(r: &mut Report, group: &'static str, encoding: &'static str, work: F)
where
    F: FnOnce(&mut Report, &Progress) + Send + 'static,
{
    let p = Arc::new(Progress { tick: AtomicU64::new(0), cur: Mutex::new(Vec::new()) });
    let p2 = p.clone();
    let t_start = std::time::Instant::now();
    let h = std::thread::Builder::new()
        .name(format!("c12-{}", group))
        .spawn(move || {
            let mut sub = Report::new("");
            work(&mut sub, &p2);
            sub
        })
        .expect("spawn");
    let mut last = p.tick.load(Ordering::Relaxed);
    let mut idle_ms = 0u64;
    while !h.is_finished() {
        std::thread::sleep(std::time::Duration::from_millis(20));
        let t = p.tick.load(Ordering::Relaxed);
        if t != last {
            last = t;
            idle_ms = 0;
        } else {
            idle_ms += 20;
        }
        if idle_ms >= STALL_MS {
            let cur = p.cur.lock().map(|c| c.clone()).unwrap_or_default();
            r.case();
            r.check(false, &format!("{}: the computation finishes on every input (watchdog: one input made no progress for {} s)", group, STALL_MS / 1000), || {
                format!("{} {:?}", encoding, cur)
            });
            return; // the stuck thread is abandoned; the process exits after the report is printed
        }
    }
    match h.join() {
        Ok(sub) => {
            if std::env::var("C12_BOUNDED_VERBOSE").is_ok() { eprintln!("c12 bounded group {}: cases={} checks={} failures={} ({} ms)", group, sub.cases, sub.checks, sub.failures.len(), t_start.elapsed().as_millis()); }
            r.cases += sub.cases;
            r.checks += sub.checks;
            for f in sub.failures {
                if r.failures.len() < 40 {
                    r.failures.push(f);
                }
            }
        }
        Err(e) => {
            let msg = e.downcast_ref::<String>().cloned().or_else(|| e.downcast_ref::<&str>().map(|s| s.to_string())).unwrap_or_default();
            let cur = p.cur.lock().map(|c| c.clone()).unwrap_or_else(|e| e.into_inner().clone());
            r.case();
            r.check(false, &format!("{}: the computation finishes without a panic on every input", group), || format!("{} {:?} panic: {}", encoding, cur, msg));
        }
    }
}

// ------------------------------------------------------------------------------------------------ brute-force helpers
struct Dsu(Vec<usize>);
impl Dsu {
    fn new(n: usize) -> Self { Dsu((0..n).collect()) }
    fn find(&mut self, mut x: usize) -> usize { while self.0[x] != x { self.0[x] = self.0[self.0[x]]; x = self.0[x]; } x }
    fn union(&mut self, a: usize, b: usize) { let (a, b) = (self.find(a), self.find(b)); if a != b { self.0[a.max(b)] = a.min(b); } }
    /// the partition of 0..n as sorted groups, groups sorted
    fn groups(&mut self) -> Vec<Vec<usize>> {
        let n = self.0.len();
        let mut g: Vec<Vec<usize>> = vec![Vec::new(); n];
        for i in 0..n { let f = self.find(i); g[f].push(i); }
        let mut g: Vec<Vec<usize>> = g.into_iter().filter(|v| !v.is_empty()).collect();
        g.sort();
        g
    }
}
fn canon<T: Ord + Clone>(parts: &[Vec<T>]) -> Vec<Vec<T>> {
    let mut p: Vec<Vec<T>> = parts.iter().map(|v| { let mut v = v.clone(); v.sort(); v }).collect();
    p.sort();
    p
}
fn ue(a: u32, b: u32) -> (u32, u32) { if a <= b { (a, b) } else { (b, a) } }

// ------------------------------------------------------------------------------------------------ (a) index chaining
const NV: usize = 5;
fn check_chain(r: &mut Report, pairs: &[[u32; 2]]) {
    r.case();
    let chains = crate::common::indices::chained_indices(pairs);
    let desc = || format!("chained_indices({:?}) = {:?}", pairs, chains);
    let mut cin = [[0i32; NV]; NV];
    let (mut indeg, mut outdeg) = ([0i32; NV], [0i32; NV]);
    for p in pairs { cin[p[0] as usize][p[1] as usize] += 1; outdeg[p[0] as usize] += 1; indeg[p[1] as usize] += 1; }
    let mut cout = [[0i32; NV]; NV];
    let mut shape = true;
    for c in chains.iter() {
        if c.len() < 2 || c.iter().any(|&v| v as usize >= NV) { shape = false; continue; }
        for w in c.windows(2) { cout[w[0] as usize][w[1] as usize] += 1; }
    }
    r.check(shape, "chaining: every chain has at least two entries, all of them input vertex ids", desc);
    let mut link_ok = true;
    let mut once = true;
    for a in 0..NV { for b in 0..NV {
        if cout[a][b] > 0 && cin[a][b] == 0 { link_ok = false; }
        if cout[a][b] != cin[a][b] { once = false; }
    } }
    r.check(link_ok, "chaining: consecutive chain entries are an input pair with its orientation kept", desc);
    r.check(once, "chaining: every input pair is consumed exactly once", desc);
    // maximal under the unique-candidate rule: a chain that ends at v and a DIFFERENT chain that starts at v can only
    // coexist when v is ambiguous (more than one input pair starts at v, or more than one ends at v)
    let mut maximal = true;
    for (i, a) in chains.iter().enumerate() { for (j, b) in chains.iter().enumerate() {
        if i == j || a.len() < 2 || b.len() < 2 { continue; }
        let v = *a.last().unwrap();
        if v == b[0] && (v as usize) < NV && indeg[v as usize] == 1 && outdeg[v as usize] == 1 { maximal = false; }
    } }
    r.check(maximal, "chaining: chains are maximal (two chains meet end-to-start only at an index where the continuation is not unique)", desc);
}

fn run_chains(r: &mut Report, p: &Progress) {
    let all: Vec<[u32; 2]> = (0..(NV * NV) as u32).map(|k| [k / NV as u32, k % NV as u32]).collect();
    let mut buf: Vec<i64> = Vec::new();
    for len in 0..=4usize {
        let mut idx = vec![0usize; len];
        loop {
            let pairs: Vec<[u32; 2]> = idx.iter().map(|&i| all[i]).collect();
            buf.clear();
            for q in pairs.iter() { buf.push(q[0] as i64); buf.push(q[1] as i64); }
            p.at(&buf);
            check_chain(r, &pairs);
            let mut k = 0;
            while k < len { idx[k] += 1; if idx[k] < all.len() { break; } idx[k] = 0; k += 1; }
            if k == len { break; }
        }
    }
}

// ------------------------------------------------------------------------------------------------ (b) voxel clustering
type Vox = (i32, i32, i32);
fn adjacent26(a: &Vox, b: &Vox) -> bool {
    // 64-bit differences: the oracle must not overflow on coordinates near the ends of the i32 range
    a != b && (a.0 as i64 - b.0 as i64).abs() <= 1 && (a.1 as i64 - b.1 as i64).abs() <= 1 && (a.2 as i64 - b.2 as i64).abs() <= 1
}
/// `given` may list a voxel more than once (the input of the real code is a set: duplicates collapse)
fn check_voxels(r: &mut Report, given: &[Vox]) {
    r.case();
    let mut dedup: Vec<Vox> = given.to_vec();
    dedup.sort();
    dedup.dedup();
    let vox: &[Vox] = &dedup;
    let mut d = Dsu::new(vox.len());
    for i in 0..vox.len() { for j in 0..i { if adjacent26(&vox[i], &vox[j]) { d.union(i, j); } } }
    let expect: Vec<Vec<Vox>> = canon(&d.groups().into_iter().map(|g| g.into_iter().map(|i| vox[i]).collect()).collect::<Vec<Vec<Vox>>>());
    let mut first: Option<Vec<Vec<Vox>>> = None;
    for _run in 0..2 {
        let set: HashSet<Vox> = given.iter().copied().collect(); // fresh RandomState per set
        let got = crate::raster3::clusters_from_sparse(set);
        let desc = || if vox.len() <= 40 { format!("clusters_from_sparse({:?}) = {:?}", vox, got) } else {
            format!("clusters_from_sparse({} voxels: {:?} ..) = {} clusters of sizes {:?} ..", vox.len(), &vox[..6], got.len(), got.iter().take(12).map(|c| c.len()).collect::<Vec<_>>()) };
        let mut flat: Vec<Vox> = got.iter().flatten().copied().collect();
        flat.sort();
        let mut inp: Vec<Vox> = vox.to_vec();
        inp.sort();
        r.check(flat == inp && got.iter().all(|c| !c.is_empty()), "voxels: the clusters partition the input set (every voxel in exactly one non-empty cluster)", desc);
        let cg = canon(&got);
        r.check(cg == expect, "voxels: two voxels share a cluster exactly when they are connected through 26-adjacency", desc);
        match &first {
            None => first = Some(cg),
            Some(f) => r.check(*f == cg, "voxels: same clusters as sets on a repeated run (hash order)", desc),
        }
    }
}
fn run_voxels(r: &mut Report, p: &Progress) {
    let blocks: [(Vox, Vox); 3] = [((-1, -1, -1), (2, 2, 2)), ((-1, -1, 0), (3, 3, 1)), ((0, -1, -2), (2, 2, 3))];
    let mut buf: Vec<i64> = Vec::new();
    for (o, s) in blocks.iter() {
        let mut cells: Vec<Vox> = Vec::new();
        for x in 0..s.0 { for y in 0..s.1 { for z in 0..s.2 { cells.push((o.0 + x, o.1 + y, o.2 + z)); } } }
        for mask in 0u32..(1u32 << cells.len()) {
            let vox: Vec<Vox> = (0..cells.len()).filter(|k| mask >> k & 1 == 1).map(|k| cells[k]).collect();
            buf.clear();
            for v in vox.iter() { buf.extend_from_slice(&[v.0 as i64, v.1 as i64, v.2 as i64]); }
            p.at(&buf);
            check_voxels(r, &vox);
        }
    }
    // the i32 extremes of the coordinate range are not enumerated (neighbour arithmetic overflows there: precondition)
}

// ------------------------------------------------------------------------------------------------ (c) meshes
fn dir_edges(f: &[u32; 3]) -> [(u32, u32); 3] { [(f[0], f[1]), (f[1], f[2]), (f[2], f[0])] }

/// consistently wound (no directed edge twice), proper triangles, and no vertex-only contact
fn in_class(faces: &[[u32; 3]]) -> bool {
    let mut de: Vec<(u32, u32)> = Vec::new();
    for f in faces {
        if f[0] == f[1] || f[1] == f[2] || f[2] == f[0] { return false; }
        for e in dir_edges(f) { if de.contains(&e) { return false; } de.push(e); }
    }
    let nv = faces.iter().flatten().copied().max().map(|m| m + 1).unwrap_or(0);
    for v in 0..nv {
        let inc: Vec<usize> = (0..faces.len()).filter(|&i| faces[i].contains(&v)).collect();
        if inc.len() < 2 { continue; }
        let mut d = Dsu::new(inc.len());
        for a in 0..inc.len() { for b in 0..a {
            // share an (undirected) edge that contains v
            let (fa, fb) = (&faces[inc[a]], &faces[inc[b]]);
            if fa.iter().any(|&w| w != v && fb.contains(&w)) { d.union(a, b); }
        } }
        if d.groups().len() != 1 { return false; }
    }
    true
}
fn has_edge_in_three_faces(faces: &[[u32; 3]]) -> bool {
    let mut all: Vec<(u32, u32)> = Vec::new();
    for f in faces { for e in dir_edges(f) { all.push(ue(e.0, e.1)); } }
    all.iter().any(|e| all.iter().filter(|x| *x == e).count() > 2)
}

fn vid(verts: &[Point3], p: &Point3) -> Option<u32> { verts.iter().position(|q| q == p).map(|i| i as u32) }

/// closed simple cycles whose consecutive (cyclic) vertex pairs are exactly the boundary edges, each once
fn check_cycles(r: &mut Report, loops: &[Vec<u32>], boundary: &[(u32, u32)], what_cycle: &str, what_once: &str, desc: &dyn Fn() -> String) -> Vec<Vec<(u32, u32)>> {
    let mut seen: Vec<(u32, u32)> = Vec::new();
    let mut cyc_ok = true;
    let mut per_loop: Vec<Vec<(u32, u32)>> = Vec::new();
    for l in loops {
        let n = l.len();
        if n < 3 { cyc_ok = false; }
        for i in 0..n { for j in 0..i { if l[i] == l[j] { cyc_ok = false; } } }
        let mut es = Vec::new();
        for i in 0..n {
            let e = ue(l[i], l[(i + 1) % n]);
            if !boundary.contains(&e) { cyc_ok = false; }
            es.push(e);
            seen.push(e);
        }
        per_loop.push(es);
    }
    r.check(cyc_ok, what_cycle, desc);
    let mut s = seen.clone();
    s.sort();
    let mut b = boundary.to_vec();
    b.sort();
    r.check(s == b, what_once, desc);
    canon(&per_loop)
}

/// the edge-table clauses: produced (not Err) for a mesh with no edge in more than two faces; each undirected edge exactly
/// once with its length; every face mapped to its three edges; the boundary loops are closed vertex cycles that together
/// contain every boundary edge exactly once; same answer as sets on a repeated run (fresh hash state)
fn check_edge_table(r: &mut Report, mesh: &Mesh, verts: &[Point3], faces: &[[u32; 3]], label: &str) {
    let nf = faces.len();
    let desc = || format!("{} faces {:?}", label, faces);
    let mut und: Vec<(u32, u32)> = Vec::new();
    let mut all: Vec<(u32, u32)> = Vec::new();
    for f in faces { for e in dir_edges(f) { let k = ue(e.0, e.1); all.push(k); if !und.contains(&k) { und.push(k); } } }
    und.sort();
    let boundary: Vec<(u32, u32)> = und.iter().copied().filter(|e| all.iter().filter(|x| *x == e).count() == 1).collect();
    let mut first_edges: Option<(Vec<(u32, u32)>, Vec<Vec<(u32, u32)>>)> = None;
    for _run in 0..2 {
        match mesh.calc_edges() {
            Err(_) => r.check(false, "edges: a mesh with no edge in more than two faces has an edge table", desc),
            Ok(me) => {
                let d2 = || format!("{} edges {:?} face_edges {:?} boundary_loops {:?}", desc(), me.edges, me.face_edges, me.boundary_loops);
                let mut listed: Vec<(u32, u32)> = me.edges.iter().map(|e| ue(e[0], e[1])).collect();
                listed.sort();
                r.check(listed == und, "edges: the edge table lists each undirected edge exactly once", d2);
                let mut len_ok = me.edge_lengths.len() == me.edges.len();
                if len_ok { for (e, l) in me.edges.iter().zip(me.edge_lengths.iter()) {
                    let (a, b) = (verts[e[0] as usize], verts[e[1] as usize]);
                    let t = ((a.x - b.x).powi(2) + (a.y - b.y).powi(2) + (a.z - b.z).powi(2)).sqrt();
                    if !close(*l, t) { len_ok = false; }
                } }
                r.check(len_ok, "edges: every listed edge carries its length", d2);
                let mut fe_ok = me.face_edges.len() == nf;
                if fe_ok { for (f, fe) in faces.iter().zip(me.face_edges.iter()) {
                    let mut want: Vec<(u32, u32)> = dir_edges(f).iter().map(|e| ue(e.0, e.1)).collect();
                    want.sort();
                    let mut got: Vec<(u32, u32)> = Vec::new();
                    for &k in fe.iter() { match me.edges.get(k as usize) { Some(e) => got.push(ue(e[0], e[1])), None => fe_ok = false } }
                    got.sort();
                    if got != want { fe_ok = false; }
                } }
                r.check(fe_ok, "edges: every face is mapped to its three edges", d2);
                let cl = check_cycles(r, &me.boundary_loops, &boundary, "edges: every boundary loop is a closed vertex cycle along boundary edges",
                    "edges: the boundary loops together contain every boundary edge exactly once", &d2);
                match &first_edges {
                    None => first_edges = Some((listed, cl)),
                    Some((l0, c0)) => r.check(*l0 == listed && *c0 == cl, "edges: same edge table and loops as sets on a repeated run (hash order)", d2),
                }
            }
        }
    }
}

/// class G (what `calc_edges` must answer although the winding may be INCONSISTENT): proper triangles, no undirected edge
/// in more than two faces, and the boundary edges - each taken in the direction of its only face - give every boundary
/// vertex exactly one successor and one predecessor.  Closed surfaces with any faces flipped and disks with flipped
/// INTERIOR faces are in G; a flipped face that owns a boundary edge, or a vertex-only contact on the boundary, is not (D7)
fn in_class_g(faces: &[[u32; 3]]) -> bool {
    let mut allu: Vec<(u32, u32)> = Vec::new();
    for f in faces {
        if f[0] == f[1] || f[1] == f[2] || f[2] == f[0] { return false; }
        for e in dir_edges(f) { allu.push(ue(e.0, e.1)); }
    }
    let mut bd: Vec<(u32, u32)> = Vec::new();
    for f in faces { for e in dir_edges(f) {
        let c = allu.iter().filter(|x| **x == ue(e.0, e.1)).count();
        if c > 2 { return false; }
        if c == 1 { bd.push(e); }
    } }
    for (i, a) in bd.iter().enumerate() { for b in bd[..i].iter() { if a.0 == b.0 || a.1 == b.1 { return false; } } }
    bd.iter().all(|a| bd.iter().any(|b| b.0 == a.1))
}
fn inconsistent(faces: &[[u32; 3]]) -> bool {
    let mut de: Vec<(u32, u32)> = Vec::new();
    for f in faces { for e in dir_edges(f) { if de.contains(&e) { return true; } de.push(e); } }
    false
}

fn check_mesh(r: &mut Report, verts: &[Point3], faces: &[[u32; 3]], label: &str) {
    r.case();
    let nf = faces.len();
    let mesh = Mesh::new(verts.to_vec(), faces.to_vec(), false);
    let desc = || format!("{} faces {:?}", label, faces);
    r.check(mesh.faces() == faces && mesh.vertices() == verts, "mesh: Mesh::new keeps the face list and the vertex list", desc);
    // ---- oracle
    let mut und: Vec<(u32, u32)> = Vec::new();
    let mut all: Vec<(u32, u32)> = Vec::new();
    for f in faces { for e in dir_edges(f) { let k = ue(e.0, e.1); all.push(k); if !und.contains(&k) { und.push(k); } } }
    und.sort();
    let boundary: Vec<(u32, u32)> = und.iter().copied().filter(|e| all.iter().filter(|x| *x == e).count() == 1).collect();
    let mut d = Dsu::new(nf);
    for a in 0..nf { for b in 0..a {
        if dir_edges(&faces[a]).iter().any(|e| dir_edges(&faces[b]).iter().any(|g| ue(e.0, e.1) == ue(g.0, g.1))) { d.union(a, b); }
    } }
    let comp = d.groups();
    check_edge_table(r, &mesh, verts, faces, label);
    // ---- patches (three times)
    let mut first_p: Option<Vec<Vec<usize>>> = None;
    for _run in 0..3 {
        let patches = mesh.get_patches();
        let d3 = || format!("{} get_patches {:?}", desc(), patches);
        let mut flat: Vec<usize> = patches.iter().flatten().copied().collect();
        flat.sort();
        r.check(flat == (0..nf).collect::<Vec<_>>() && patches.iter().all(|q| !q.is_empty()), "patches: every face is in exactly one patch", d3);
        let cp = canon(&patches);
        r.check(cp == comp, "patches: two faces share a patch exactly when they are connected through shared edges", d3);
        match &first_p {
            None => first_p = Some(cp),
            Some(f) => r.check(*f == cp, "patches: same patches as sets on a repeated run (hash order)", d3),
        }
    }
    // ---- patch boundaries as point cycles
    match mesh.get_patch_boundary_points() {
        Err(_) => r.check(false, "patch boundaries: computed for a mesh with no edge in more than two faces", desc),
        Ok(bp) => {
            let mut ids: Vec<Vec<u32>> = Vec::new();
            let mut known = true;
            for l in bp.iter() { let mut v = Vec::new(); for q in l { match vid(verts, q) { Some(i) => v.push(i), None => known = false } } ids.push(v); }
            let d4 = || format!("{} get_patch_boundary_points (as vertex ids) {:?}", desc(), ids);
            r.check(known, "patch boundaries: every returned point is a mesh vertex", d4);
            check_cycles(r, &ids, &boundary, "patch boundaries: every boundary is a closed vertex cycle along boundary edges",
                "patch boundaries: together they contain every boundary edge exactly once", &d4);
        }
    }
}

fn base_vertices() -> Vec<Point3> {
    vec![Point3::new(0.0, 0.0, 0.0), Point3::new(1.0, 0.0, 0.0), Point3::new(0.0, 2.0, 0.0), Point3::new(0.0, 0.0, 3.0), Point3::new(2.0, 3.0, 5.0)]
}

fn run_small_meshes(r: &mut Report, p: &Progress) {
    let verts = base_vertices();
    let mut tri: Vec<[u32; 3]> = Vec::new();
    for a in 0..5u32 { for b in 0..5u32 { for c in 0..5u32 { if a != b && b != c && a != c { tri.push([a, b, c]); } } } }
    let mut buf: Vec<i64> = Vec::new();
    for len in 1..=3usize {
        let mut idx = vec![0usize; len];
        loop {
            let faces: Vec<[u32; 3]> = idx.iter().map(|&i| tri[i]).collect();
            let member = in_class(&faces);
            let refused = !member && has_edge_in_three_faces(&faces);
            if member || refused {
                buf.clear();
                for f in faces.iter() { buf.extend_from_slice(&[f[0] as i64, f[1] as i64, f[2] as i64]); }
                p.at(&buf);
            }
            if member { check_mesh(r, &verts, &faces, "Mesh::new(5 fixed vertices)"); }
            if refused {
                r.case();
                let mesh = Mesh::new(verts.clone(), faces.clone(), false);
                r.check(mesh.calc_edges().is_err(), "edges: a mesh with an edge in more than two faces is refused (Err)", || format!("faces {:?}", faces));
            }
            let mut k = 0;
            while k < len { idx[k] += 1; if idx[k] < tri.len() { break; } idx[k] = 0; k += 1; }
            if k == len { break; }
        }
    }
}

/// (nx x ny) grid of quads, each split into two consistently wound triangles; quads listed in `holes` are left out
fn grid(nx: u32, ny: u32, holes: &[(u32, u32)], z: f64, vbase: u32) -> (Vec<Point3>, Vec<[u32; 3]>) {
    let mut v = Vec::new();
    for j in 0..=ny { for i in 0..=nx { v.push(Point3::new(i as f64 + 0.125 * j as f64, j as f64 * 1.5, z + 0.25 * (i * j) as f64)); } }
    let id = |i: u32, j: u32| vbase + j * (nx + 1) + i;
    let mut f = Vec::new();
    for j in 0..ny { for i in 0..nx {
        if holes.contains(&(i, j)) { continue; }
        f.push([id(i, j), id(i + 1, j), id(i + 1, j + 1)]);
        f.push([id(i, j), id(i + 1, j + 1), id(i, j + 1)]);
    } }
    (v, f)
}
/// other storage of the same surface: face order kept / reversed / rotated by half, vertex triple of face k rotated by (k + variant) % 3
fn restore(faces: &[[u32; 3]], variant: usize) -> Vec<[u32; 3]> {
    let n = faces.len();
    (0..n).map(|k| {
        let src = match variant % 3 { 0 => k, 1 => n - 1 - k, _ => (k + n / 2) % n };
        let f = faces[src];
        let s = (k + variant) % 3;
        [f[s], f[(s + 1) % 3], f[(s + 2) % 3]]
    }).collect()
}

fn run_built_meshes(r: &mut Report, p: &Progress) {
    let mut fam: Vec<(String, Vec<Point3>, Vec<[u32; 3]>)> = Vec::new();
    let (v, f) = grid(3, 3, &[], 0.0, 0); fam.push(("3x3 grid".into(), v, f));
    let (v, f) = grid(3, 3, &[(1, 1)], 0.0, 0); fam.push(("3x3 grid with the centre quad removed".into(), v, f));
    let (v, f) = grid(5, 3, &[(1, 1), (3, 1)], 0.0, 0); fam.push(("5x3 grid with two holes".into(), v, f));
    let (v, f) = grid(4, 1, &[(2, 0)], 0.0, 0); fam.push(("4x1 strip cut into two components".into(), v, f));
    // a grid in which one triangle of a quad is missing (triangular notch / three-vertex hole)
    let (v, mut f) = grid(3, 3, &[], 0.0, 0); f.remove(8); fam.push(("3x3 grid with one triangle removed".into(), v, f));
    // closed solids: tetrahedron, octahedron, and both together as two components
    let tv = vec![Point3::new(0.0, 0.0, 0.0), Point3::new(2.0, 0.0, 0.0), Point3::new(0.0, 3.0, 0.0), Point3::new(0.0, 0.0, 5.0)];
    let tf = vec![[0u32, 2, 1], [0, 1, 3], [1, 2, 3], [2, 0, 3]];
    fam.push(("tetrahedron".into(), tv.clone(), tf.clone()));
    let ov = vec![Point3::new(1.0, 0.0, 0.0), Point3::new(-1.5, 0.0, 0.0), Point3::new(0.0, 2.0, 0.0), Point3::new(0.0, -2.5, 0.0), Point3::new(0.0, 0.0, 3.0), Point3::new(0.0, 0.0, -3.5)];
    let of = vec![[0u32, 2, 4], [2, 1, 4], [1, 3, 4], [3, 0, 4], [2, 0, 5], [1, 2, 5], [3, 1, 5], [0, 3, 5]];
    fam.push(("octahedron".into(), ov.clone(), of.clone()));
    let mut bv = tv.clone(); bv.extend(ov.iter().map(|q| Point3::new(q.x + 10.0, q.y, q.z)));
    let mut bf = tf.clone(); bf.extend(of.iter().map(|f| [f[0] + 4, f[1] + 4, f[2] + 4]));
    fam.push(("tetrahedron + octahedron (two components)".into(), bv, bf));
    // tetrahedron with one face removed (three-vertex boundary loop) next to a separate grid (four-or-more-vertex loop)
    let (gv, gf) = grid(2, 2, &[], 7.0, 4);
    let mut mv = tv.clone(); mv.extend(gv);
    let mut mf: Vec<[u32; 3]> = tf[1..].to_vec(); mf.extend(gf);
    fam.push(("open tetrahedron + 2x2 grid".into(), mv, mf));
    // fan of triangles around a vertex (disk) and the same fan with the closing edge stored last in both neighbours
    let fv: Vec<Point3> = vec![Point3::new(0.0, 0.0, 0.0), Point3::new(2.0, 0.0, 0.0), Point3::new(1.0, 2.0, 0.5), Point3::new(-1.5, 1.0, 0.0), Point3::new(-1.0, -2.0, 0.25), Point3::new(1.5, -1.5, 0.0)];
    fam.push(("open fan".into(), fv.clone(), vec![[0, 1, 2], [0, 2, 3], [0, 3, 4], [0, 4, 5]]));
    fam.push(("closed fan (disk)".into(), fv.clone(), vec![[0, 1, 2], [0, 2, 3], [0, 3, 4], [0, 4, 5], [0, 5, 1]]));
    // a disk whose centre vertex carries the highest id (the lexicographically last edge is interior), and a 4x4 grid
    let cv: Vec<Point3> = vec![Point3::new(2.0, 0.0, 0.0), Point3::new(1.0, 2.0, 0.5), Point3::new(-1.5, 1.0, 0.0), Point3::new(-1.0, -2.0, 0.25), Point3::new(1.5, -1.5, 0.0), Point3::new(0.0, 0.0, 0.0)];
    fam.push(("closed fan (disk) around the LAST vertex".into(), cv, vec![[5, 0, 1], [5, 1, 2], [5, 2, 3], [5, 3, 4], [5, 4, 0]]));
    let (v, f) = grid(4, 4, &[], 0.0, 0); fam.push(("4x4 grid".into(), v, f));
    let mut buf: Vec<i64> = Vec::new();
    let mut last_interior = 0usize;
    for (name, v0, f0) in fam.iter() {
        // numbering variants: as built; reversed (vertex k becomes n-1-k); boundary vertices first, INTERIOR vertices last
        for numbering in 0..3usize {
            let perm = match numbering { 0 => (0..v0.len() as u32).collect::<Vec<u32>>(), 1 => (0..v0.len() as u32).rev().collect(), _ => interior_last(f0, v0.len()) };
            let (v, f) = renumber(v0, f0, &perm);
            for variant in 0..6usize {
                let fs = restore(&f, variant);
                if !in_class(&fs) { r.case(); r.check(false, "internal: hand-built mesh is in the stated class", || format!("{} {:?}", name, fs)); continue; }
                if last_edge_is_interior(&fs) { last_interior += 1; }
                buf.clear();
                for t in fs.iter() { buf.extend_from_slice(&[t[0] as i64, t[1] as i64, t[2] as i64]); }
                p.at(&buf);
                check_mesh(r, &v, &fs, &format!("{} (vertex numbering {}, storage variant {})", name, ["as built", "reversed", "interior vertices last"][numbering], variant));
            }
        }
    }
    r.check(last_interior >= 100, "input space: meshes whose lexicographically last edge is an interior edge occur (closed surfaces, disks with the interior vertices numbered last)", || format!("{} of them", last_interior));
}
/// vertex k of the input becomes vertex perm[k]
fn renumber(verts: &[Point3], faces: &[[u32; 3]], perm: &[u32]) -> (Vec<Point3>, Vec<[u32; 3]>) {
    let mut v = verts.to_vec();
    for (k, q) in verts.iter().enumerate() { v[perm[k] as usize] = *q; }
    (v, faces.iter().map(|f| [perm[f[0] as usize], perm[f[1] as usize], perm[f[2] as usize]]).collect())
}
/// the numbering that keeps the boundary vertices (and unused ones) first, in their order, and puts the interior vertices last
fn interior_last(faces: &[[u32; 3]], nv: usize) -> Vec<u32> {
    let mut allu: Vec<(u32, u32)> = Vec::new();
    for f in faces { for e in dir_edges(f) { allu.push(ue(e.0, e.1)); } }
    let used = |v: u32| faces.iter().any(|f| f.contains(&v));
    let on_boundary = |v: u32| allu.iter().any(|e| (e.0 == v || e.1 == v) && allu.iter().filter(|x| *x == e).count() == 1);
    let mut order: Vec<u32> = (0..nv as u32).filter(|&v| !used(v) || on_boundary(v)).collect();
    order.extend((0..nv as u32).filter(|&v| used(v) && !on_boundary(v)));
    let mut perm = vec![0u32; nv];
    for (newid, old) in order.iter().enumerate() { perm[*old as usize] = newid as u32; }
    perm
}
fn last_edge_is_interior(faces: &[[u32; 3]]) -> bool {
    let mut allu: Vec<(u32, u32)> = Vec::new();
    for f in faces { for e in dir_edges(f) { allu.push(ue(e.0, e.1)); } }
    match allu.iter().max() { Some(m) => allu.iter().filter(|x| *x == m).count() == 2, None => false }
}

// ------------------------------------------------------------------------------------------------ (g) edge table with INCONSISTENT winding
/// `calc_edges` on class G (see in_class_g) restricted to inconsistently wound face lists: the statement demands an edge
/// table for EVERY mesh with no edge in more than two faces, "including meshes with inconsistent winding"
fn run_inconsistent_meshes(r: &mut Report, p: &Progress) {
    let mut buf: Vec<i64> = Vec::new();
    let mut n_small = 0usize;
    // larger meshes: closed solids with any faces flipped, disks with INTERIOR faces flipped
    let mut fam: Vec<(String, Vec<Point3>, Vec<[u32; 3]>)> = Vec::new();
    for (w, h, d) in [(2.0, 3.0, 4.0), (1.0, 1.0, 1.0)] {
        let bx = Mesh::create_box(w, h, d, false);
        fam.push((format!("create_box({}, {}, {})", w, h, d), bx.vertices().to_vec(), bx.faces().to_vec()));
    }
    let tv = vec![Point3::new(0.0, 0.0, 0.0), Point3::new(2.0, 0.0, 0.0), Point3::new(0.0, 3.0, 0.0), Point3::new(0.0, 0.0, 5.0)];
    let tf = vec![[0u32, 2, 1], [0, 1, 3], [1, 2, 3], [2, 0, 3]];
    fam.push(("tetrahedron".into(), tv.clone(), tf.clone()));
    let ov = vec![Point3::new(1.0, 0.0, 0.0), Point3::new(-1.5, 0.0, 0.0), Point3::new(0.0, 2.0, 0.0), Point3::new(0.0, -2.5, 0.0), Point3::new(0.0, 0.0, 3.0), Point3::new(0.0, 0.0, -3.5)];
    let of = vec![[0u32, 2, 4], [2, 1, 4], [1, 3, 4], [3, 0, 4], [2, 0, 5], [1, 2, 5], [3, 1, 5], [0, 3, 5]];
    fam.push(("octahedron".into(), ov.clone(), of.clone()));
    let mut bv = tv.clone(); bv.extend(ov.iter().map(|q| Point3::new(q.x + 10.0, q.y, q.z)));
    let mut bf = tf.clone(); bf.extend(of.iter().map(|f| [f[0] + 4, f[1] + 4, f[2] + 4]));
    fam.push(("tetrahedron + octahedron (two components)".into(), bv, bf));
    let (v, f) = grid(3, 3, &[], 0.0, 0); fam.push(("3x3 grid".into(), v, f));
    let (v, f) = grid(4, 4, &[], 0.0, 0); fam.push(("4x4 grid".into(), v, f));
    let (v, f) = grid(5, 3, &[(1, 1), (3, 1)], 0.0, 0); fam.push(("5x3 grid with two holes".into(), v, f));
    let cy = Mesh::create_cylinder(1.0, 2.0, 6);
    fam.push(("create_cylinder(1, 2, 6)".into(), cy.vertices().to_vec(), cy.faces().to_vec()));
    let (mut n_closed, mut n_open) = (0usize, 0usize);
    for (name, v, f) in fam.iter() {
        let nf = f.len();
        let mut sets: Vec<Vec<usize>> = Vec::new();
        for a in 0..nf { sets.push(vec![a]); }
        for a in 0..nf { for b in 0..a { if nf <= 12 || (a + b) % 3 == 0 { sets.push(vec![b, a]); } } }
        sets.push((0..nf).step_by(2).collect());
        sets.push((0..nf).step_by(3).collect());
        sets.push((0..nf / 2).collect());
        for which in sets.iter() {
            let fs = flip(f, which);
            if !(inconsistent(&fs) && in_class_g(&fs)) { continue; }
            let closed = fs.iter().all(|t| dir_edges(t).iter().all(|e| fs.iter().filter(|u| dir_edges(u).iter().any(|g| ue(g.0, g.1) == ue(e.0, e.1))).count() == 2));
            if closed { n_closed += 1; } else { n_open += 1; }
            for variant in [0usize, 4] {
                let fs = restore(&fs, variant);
                buf.clear();
                for t in fs.iter() { buf.extend_from_slice(&[t[0] as i64, t[1] as i64, t[2] as i64]); }
                p.at(&buf);
                r.case();
                let mesh = Mesh::new(v.clone(), fs.clone(), false);
                check_edge_table(r, &mesh, v, &fs, &format!("{} with faces {:?} flipped (inconsistent winding, storage variant {})", name, which, variant));
            }
        }
    }
    // every ordered list of 3 faces over 5 vertices and of 4 faces over 4 vertices (tetrahedra with flipped faces)
    for (nv, len) in [(5u32, 3usize), (4, 4)] {
        let verts: Vec<Point3> = base_vertices()[..nv as usize].to_vec();
        let mut tri: Vec<[u32; 3]> = Vec::new();
        for a in 0..nv { for b in 0..nv { for c in 0..nv { if a != b && b != c && a != c { tri.push([a, b, c]); } } } }
        let mut idx = vec![0usize; len];
        loop {
            let faces: Vec<[u32; 3]> = idx.iter().map(|&i| tri[i]).collect();
            if inconsistent(&faces) && in_class_g(&faces) {
                n_small += 1;
                buf.clear();
                for f in faces.iter() { buf.extend_from_slice(&[f[0] as i64, f[1] as i64, f[2] as i64]); }
                p.at(&buf);
                r.case();
                let mesh = Mesh::new(verts.clone(), faces.clone(), false);
                check_edge_table(r, &mesh, &verts, &faces, "inconsistent winding, Mesh::new(fixed vertices)");
            }
            let mut k = 0;
            while k < len { idx[k] += 1; if idx[k] < tri.len() { break; } idx[k] = 0; k += 1; }
            if k == len { break; }
        }
    }
    r.check(n_small >= 1000 && n_closed >= 100 && n_open >= 20, "input space: inconsistently wound meshes with no edge in more than two faces occur (small lists, closed solids with flipped faces, disks with flipped interior faces)", || format!("{} small lists, {} closed, {} open", n_small, n_closed, n_open));
}

fn check_generated(r: &mut Report, mesh: &Mesh, label: &str, closed: bool, centre: &dyn Fn(&Point3) -> Point3) {
    r.case();
    let faces: Vec<[u32; 3]> = mesh.faces().to_vec();
    let verts: Vec<Point3> = mesh.vertices().to_vec();
    let desc = || format!("{} faces {:?}", label, faces);
    let mut de: Vec<(u32, u32)> = Vec::new();
    let mut wound = faces.iter().all(|f| f.iter().all(|&i| (i as usize) < verts.len()));
    for f in faces.iter() { for e in dir_edges(f) { if de.contains(&e) || e.0 == e.1 { wound = false; } de.push(e); } }
    r.check(wound, "generators: consistently wound (every directed edge occurs at most once, indices inside the vertex list)", desc);
    if closed {
        r.check(de.iter().all(|e| de.contains(&(e.1, e.0))), "generators: the box is closed (every undirected edge twice, once in each direction)", desc);
    }
    // outward normals: the library's face normal, and the normal of the stored winding, both point away from the centre / axis
    let mut out_ok = wound;
    let mut lib_ok = true;
    match mesh.get_face_normals() {
        Err(_) => lib_ok = false,
        Ok(ns) => {
            if ns.len() != faces.len() { lib_ok = false; }
            for (f, n) in faces.iter().zip(ns.iter()) {
                if !wound { break; }
                let (a, b, c) = (verts[f[0] as usize], verts[f[1] as usize], verts[f[2] as usize]);
                let g = Point3::new((a.x + b.x + c.x) / 3.0, (a.y + b.y + c.y) / 3.0, (a.z + b.z + c.z) / 3.0);
                let o = g - centre(&g);
                let w = (b - a).cross(&(c - a));
                if !(w.dot(&o) > 1e-9) { out_ok = false; }
                if !(n.dot(&o) > 1e-9) || !(n.dot(&w) > 0.0) || !close(n.norm(), 1.0) { lib_ok = false; }
            }
        }
    }
    r.check(out_ok, "generators: the stored winding of every face gives an outward normal", desc);
    r.check(lib_ok, "generators: get_face_normals returns one outward unit normal per face", desc);
}

fn run_generators(r: &mut Report, p: &Progress) {
    let mut k = 0i64;
    for (w, h, d) in [(1.0, 2.0, 3.0), (2.0, 2.0, 2.0), (0.5, 4.0, 1.0), (3.0, 0.25, 8.0)] {
        k += 1; p.at(&[0, k]);
        let m = Mesh::create_box(w, h, d, false);
        let label = format!("create_box({}, {}, {})", w, h, d);
        let c = Point3::new(w / 2.0, h / 2.0, d / 2.0);
        check_generated(r, &m, &label, true, &|_g| c);
        r.check(m.faces().len() == 12 && m.vertices().len() == 8, "generators: a box has 8 vertices and 12 faces", || label.clone());
        if in_class(m.faces()) { check_mesh(r, &m.vertices().to_vec(), &m.faces().to_vec(), &label); }
    }
    for steps in 3..=16usize { for (rad, h) in [(1.0, 1.0), (2.5, 3.0)] {
        k += 1; p.at(&[1, steps as i64, k]);
        let m = Mesh::create_cylinder(rad, h, steps);
        let label = format!("create_cylinder({}, {}, {})", rad, h, steps);
        check_generated(r, &m, &label, false, &|g| Point3::new(0.0, 0.0, g.z));
        r.check(m.faces().len() == 2 * steps && m.vertices().len() == 2 * steps, "generators: a cylinder wall has 2*steps vertices and 2*steps faces", || label.clone());
        if in_class(m.faces()) {
            check_mesh(r, &m.vertices().to_vec(), &m.faces().to_vec(), &label);
            // an open tube: one patch, two rim loops of `steps` vertices
            let loops = m.calc_edges().map(|e| e.boundary_loops.iter().map(|l| l.len()).collect::<Vec<_>>()).unwrap_or_default();
            r.check(loops == vec![steps, steps] && m.get_patches().len() == 1, "generators: the cylinder wall is one patch with two rim loops of `steps` vertices", || format!("{} loops {:?}", label, loops));
        }
    } }
}


// ------------------------------------------------------------------------------------------------ (d) edge lengths far from the origin
/// a (nx x ny) grid of quads with the given pitch, sheared and lifted so that no two edges of a quad have the same
/// length, placed at `off`; pitch and offsets are dyadic or short decimals: the stored coordinates are whatever f64
/// holds, and the oracle works from those STORED coordinates
fn far_grid(nx: u32, ny: u32, pitch: f64, off: (f64, f64, f64)) -> (Vec<Point3>, Vec<[u32; 3]>) {
    let mut v = Vec::new();
    for j in 0..=ny { for i in 0..=nx {
        v.push(Point3::new(off.0 + pitch * (i as f64 + 0.125 * j as f64), off.1 + pitch * 1.5 * j as f64, off.2 + pitch * 0.25 * (i * j) as f64));
    } }
    let id = |i: u32, j: u32| j * (nx + 1) + i;
    let mut f = Vec::new();
    for j in 0..ny { for i in 0..nx {
        f.push([id(i, j), id(i + 1, j), id(i + 1, j + 1)]);
        f.push([id(i, j), id(i + 1, j + 1), id(i, j + 1)]);
    } }
    (v, f)
}
/// "the edge table lists each undirected edge once WITH ITS LENGTH": the length of edge [a, b] is |v_b - v_a|, the
/// norm of the coordinate differences of the two stored vertices (each difference of nearby coordinates is exact or
/// correctly rounded, so this value is good to a few ulp whatever the distance of the mesh from the origin);
/// demanded to RELATIVE 1e-12
fn check_lengths(r: &mut Report, verts: &[Point3], faces: &[[u32; 3]], label: &str) {
    r.case();
    let mesh = Mesh::new(verts.to_vec(), faces.to_vec(), false);
    let stored = mesh.vertices().to_vec();
    let desc = || format!("{} ({} vertices, {} faces)", label, verts.len(), faces.len());
    match mesh.calc_edges() {
        Err(_) => r.check(false, "edges: a mesh with no edge in more than two faces has an edge table", desc),
        Ok(me) => {
            let mut und: Vec<(u32, u32)> = Vec::new();
            for f in faces { for e in dir_edges(f) { und.push(ue(e.0, e.1)); } }
            und.sort(); und.dedup();
            let mut listed: Vec<(u32, u32)> = me.edges.iter().map(|e| ue(e[0], e[1])).collect();
            listed.sort();
            r.check(listed == und, "edges: the edge table lists each undirected edge exactly once", desc);
            r.check(me.edge_lengths.len() == me.edges.len(), "edges: one length per listed edge", desc);
            let mut worst: Option<(usize, f64, f64)> = None;
            for (k, (e, l)) in me.edges.iter().zip(me.edge_lengths.iter()).enumerate() {
                if e[0] as usize >= stored.len() || e[1] as usize >= stored.len() { continue; }
                let (a, b) = (stored[e[0] as usize], stored[e[1] as usize]);
                let (dx, dy, dz) = (b.x - a.x, b.y - a.y, b.z - a.z);
                let t = (dx * dx + dy * dy + dz * dz).sqrt();
                let ok = l.is_finite() && t > 0.0 && (*l - t).abs() <= 1e-12 * t;
                if !ok && worst.map(|w| (w.1 - w.2).abs() / w.2 < (*l - t).abs() / t).unwrap_or(true) { worst = Some((k, *l, t)); }
            }
            r.check(worst.is_none(), "edges: every listed edge carries its length |v1 - v0| to relative 1e-12, wherever the mesh lies (meshes far from the origin, fine pitch)", || {
                let (k, l, t) = worst.unwrap();
                let e = me.edges[k];
                let (a, b) = (stored[e[0] as usize], stored[e[1] as usize]);
                format!("{}: edge {:?} between ({:?}, {:?}, {:?}) and ({:?}, {:?}, {:?}) has edge_lengths[{}] = {:?} but the vertices are {:?} apart (relative error {:e})", desc(), e, a.x, a.y, a.z, b.x, b.y, b.z, k, l, t, (l - t).abs() / t)
            });
        }
    }
}
fn run_far_meshes(r: &mut Report, p: &Progress) {
    let offsets = [(0.0, 0.0, 0.0), (1500.0, -2000.0, 350.0), (-1536.0, 2048.0, 352.0), (123456.789, -98765.4321, 5000.5), (-0.001, 0.002, 1.0e6)];
    let pitches = [5.0e-6, 1.0e-4, 0.0009765625, 0.03125, 0.3, 1.0];
    let mut k = 0i64;
    for off in offsets { for pitch in pitches { for (nx, ny) in [(1u32, 1u32), (4, 3), (12, 9)] {
        k += 1; p.at(&[3, k]);
        let (v, f) = far_grid(nx, ny, pitch, off);
        check_lengths(r, &v, &f, &format!("{}x{} grid of pitch {:?} at offset {:?}", nx, ny, pitch, off));
    } } }
    // the library's own generators moved away from the origin (translation only: lengths are those of the moved vertices)
    for off in offsets { for s in [5.0e-6, 0.001, 1.0] {
        k += 1; p.at(&[4, k]);
        let b = Mesh::create_box(2.0 * s, 3.0 * s, 5.0 * s, false);
        let v: Vec<Point3> = b.vertices().iter().map(|q| Point3::new(q.x + off.0, q.y + off.1, q.z + off.2)).collect();
        check_lengths(r, &v, &b.faces().to_vec(), &format!("create_box({:?}, {:?}, {:?}) moved by {:?}", 2.0 * s, 3.0 * s, 5.0 * s, off));
        let c = Mesh::create_cylinder(2.0 * s, 3.0 * s, 12);
        let v: Vec<Point3> = c.vertices().iter().map(|q| Point3::new(q.x + off.0, q.y + off.1, q.z + off.2)).collect();
        check_lengths(r, &v, &c.faces().to_vec(), &format!("create_cylinder({:?}, {:?}, 12) moved by {:?}", 2.0 * s, 3.0 * s, off));
    } }
}

// ------------------------------------------------------------------------------------------------ (e) patches on ANY face list
/// the clauses of the patch decomposition that hold for EVERY face list (inconsistent winding, vertex-only contacts,
/// repeated faces included): every face in exactly one non-empty patch; faces that share a patch are connected through
/// shared edges.  "Faces connected through shared edges share a patch" is demanded when no directed edge occurs in two
/// faces (consistent winding; vertex-only contacts allowed) - with a flipped face the unchanged code's answer depends on
/// the hash-chosen start face (DESIGN D8), which is not a verdict a deterministic check can give.
/// The call is repeated `runs` times: std's RandomState differs per HashSet, so the start face changes from call to call.
fn check_patches_any(r: &mut Report, verts: &[Point3], faces: &[[u32; 3]], runs: usize, label: &str) {
    r.case();
    let nf = faces.len();
    let mesh = Mesh::new(verts.to_vec(), faces.to_vec(), false);
    let mut d = Dsu::new(nf);
    for a in 0..nf { for b in 0..a {
        if dir_edges(&faces[a]).iter().any(|e| dir_edges(&faces[b]).iter().any(|g| ue(e.0, e.1) == ue(g.0, g.1))) { d.union(a, b); }
    } }
    let comp_of: Vec<usize> = (0..nf).map(|i| d.find(i)).collect();
    let comp = d.groups();
    let mut de: Vec<(u32, u32)> = Vec::new();
    let mut wound = true;
    for f in faces { for e in dir_edges(f) { if de.contains(&e) { wound = false; } de.push(e); } }
    let all: Vec<usize> = (0..nf).collect();
    let (mut part_ok, mut sound_ok, mut max_ok) = (true, true, true);
    let mut bad: Option<Vec<Vec<usize>>> = None;
    for _run in 0..runs {
        let patches = mesh.get_patches();
        let mut flat: Vec<usize> = patches.iter().flatten().copied().collect();
        flat.sort();
        let p_ok = flat == all && patches.iter().all(|q| !q.is_empty());
        let s_ok = patches.iter().all(|q| q.iter().all(|&i| i < nf && comp_of[i] == comp_of[q[0].min(nf - 1)]));
        let m_ok = !wound || !p_ok || canon(&patches) == comp;
        if !(p_ok && s_ok && m_ok) && bad.is_none() { bad = Some(patches.clone()); }
        part_ok &= p_ok; sound_ok &= s_ok; max_ok &= m_ok;
    }
    let desc = || format!("{} faces {:?} ({} calls) get_patches {:?}", label, faces, runs, bad);
    r.check(part_ok, "patches: every face is in exactly one patch", desc);
    r.check(sound_ok, "patches: two faces that share a patch are connected through shared edges (any winding, any contact)", desc);
    r.check(max_ok, "patches: two faces share a patch exactly when they are connected through shared edges", desc);
}
fn flip(faces: &[[u32; 3]], which: &[usize]) -> Vec<[u32; 3]> {
    faces.iter().enumerate().map(|(k, f)| if which.contains(&k) { [f[0], f[2], f[1]] } else { *f }).collect()
}
fn run_flipped_meshes(r: &mut Report, p: &Progress) {
    let verts = base_vertices();
    let mut tri: Vec<[u32; 3]> = Vec::new();
    for a in 0..5u32 { for b in 0..5u32 { for c in 0..5u32 { if a != b && b != c && a != c { tri.push([a, b, c]); } } } }
    let mut buf: Vec<i64> = Vec::new();
    // every ordered list of 1..=2 faces (64 calls each) and every ordered list of 3 faces over the vertices 0..4 whose
    // first face is one of [0,1,2] / [0,2,1] (8 calls each) - the lists skipped are relabelings of these
    for len in 1..=3usize {
        let mut idx = vec![0usize; len];
        loop {
            let faces: Vec<[u32; 3]> = idx.iter().map(|&i| tri[i]).collect();
            let run_it = len < 3 || (faces[0] == [0, 1, 2] || faces[0] == [0, 2, 1]);
            if run_it {
                buf.clear();
                for f in faces.iter() { buf.extend_from_slice(&[f[0] as i64, f[1] as i64, f[2] as i64]); }
                p.at(&buf);
                check_patches_any(r, &verts, &faces, if len < 3 { 64 } else { 8 }, "Mesh::new(5 fixed vertices)");
            }
            let mut k = 0;
            while k < len { idx[k] += 1; if idx[k] < tri.len() { break; } idx[k] = 0; k += 1; }
            if k == len { break; }
        }
    }
    // larger meshes with flipped faces, 64 calls each
    let mut fam: Vec<(String, Vec<Point3>, Vec<[u32; 3]>)> = Vec::new();
    let bx = Mesh::create_box(2.0, 3.0, 5.0, false);
    fam.push(("create_box(2, 3, 5)".into(), bx.vertices().to_vec(), bx.faces().to_vec()));
    let cy = Mesh::create_cylinder(1.0, 2.0, 6);
    fam.push(("create_cylinder(1, 2, 6)".into(), cy.vertices().to_vec(), cy.faces().to_vec()));
    let (v, f) = grid(3, 3, &[], 0.0, 0); fam.push(("3x3 grid".into(), v, f));
    let (v, f) = grid(4, 1, &[(2, 0)], 0.0, 0); fam.push(("4x1 strip cut into two components".into(), v, f));
    let tv = vec![Point3::new(0.0, 0.0, 0.0), Point3::new(2.0, 0.0, 0.0), Point3::new(0.0, 3.0, 0.0), Point3::new(0.0, 0.0, 5.0)];
    let tf = vec![[0u32, 2, 1], [0, 1, 3], [1, 2, 3], [2, 0, 3]];
    fam.push(("tetrahedron".into(), tv, tf));
    // two triangles meeting at a vertex only, and a bow-tie of two fans
    fam.push(("two faces with a vertex-only contact".into(), base_vertices(), vec![[0, 1, 2], [0, 3, 4]]));
    for (name, v, f) in fam.iter() {
        let nf = f.len();
        let mut sets: Vec<Vec<usize>> = vec![vec![]];
        for a in 0..nf { sets.push(vec![a]); }
        for a in 0..nf { for b in 0..a { if nf <= 12 || (a + b) % 3 == 0 { sets.push(vec![b, a]); } } }
        sets.push((0..nf).step_by(2).collect());
        sets.push((0..nf).collect());
        for which in sets.iter() {
            let fs = flip(f, which);
            buf.clear();
            for t in fs.iter() { buf.extend_from_slice(&[t[0] as i64, t[1] as i64, t[2] as i64]); }
            p.at(&buf);
            check_patches_any(r, v, &fs, 64, &format!("{} with faces {:?} flipped", name, which));
        }
    }
}

// ------------------------------------------------------------------------------------------------ (f) many separate chains
/// the clauses of check_chain for vertex ids beyond 0..5 (no fixed-size tables)
fn check_chain_big(r: &mut Report, pairs: &[[u32; 2]], label: &str, expect_chains: Option<usize>) {
    r.case();
    let chains = crate::common::indices::chained_indices(pairs);
    let desc = || format!("{}: chained_indices({:?}) = {:?}", label, pairs, chains);
    let mut want: Vec<(u32, u32)> = pairs.iter().map(|q| (q[0], q[1])).collect();
    want.sort();
    let mut got: Vec<(u32, u32)> = Vec::new();
    for c in chains.iter() { for w in c.windows(2) { got.push((w[0], w[1])); } }
    got.sort();
    r.check(chains.iter().all(|c| c.len() >= 2), "chaining: every chain has at least two entries, all of them input vertex ids", desc);
    r.check(got.iter().all(|g| want.binary_search(g).is_ok()), "chaining: consecutive chain entries are an input pair with its orientation kept", desc);
    r.check(got == want, "chaining: every input pair is consumed exactly once", desc);
    let outdeg = |v: u32| pairs.iter().filter(|q| q[0] == v).count();
    let indeg = |v: u32| pairs.iter().filter(|q| q[1] == v).count();
    let mut maximal = true;
    for (i, a) in chains.iter().enumerate() { for (j, b) in chains.iter().enumerate() {
        if i == j || a.len() < 2 || b.len() < 2 { continue; }
        let v = *a.last().unwrap();
        if v == b[0] && indeg(v) == 1 && outdeg(v) == 1 { maximal = false; }
    } }
    r.check(maximal, "chaining: chains are maximal (two chains meet end-to-start only at an index where the continuation is not unique)", desc);
    if let Some(n) = expect_chains {
        r.check(chains.len() == n, "chaining: separate simple chains / loops come out as one chain each", || format!("{} expected {} chains", desc(), n));
    }
}
fn run_many_chains(r: &mut Report, p: &Progress) {
    // k separate simple loops (closed) or open chains of m links each; the pairs stored in 4 orders
    for k in 1..=12usize { for m in [1usize, 2, 3, 4, 6, 9] { for closed in [false, true] {
        if closed && m < 2 { continue; }
        let mut pairs: Vec<[u32; 2]> = Vec::new();
        for c in 0..k {
            let base = (c * (m + 1)) as u32;
            for l in 0..m {
                let a = base + l as u32;
                let b = if closed && l == m - 1 { base } else { base + l as u32 + 1 };
                pairs.push([a, b]);
            }
        }
        let n = pairs.len();
        for order in 0..4usize {
            let stored: Vec<[u32; 2]> = match order {
                0 => pairs.clone(),
                1 => pairs.iter().rev().copied().collect(),
                2 => (0..n).map(|i| pairs[(i * 7 + 3) % n]).collect::<Vec<_>>(), // a permutation when gcd(7, n) == 1
                _ => { let mut e: Vec<[u32; 2]> = pairs.iter().step_by(2).copied().collect(); e.extend(pairs.iter().skip(1).step_by(2).copied()); e }
            };
            if order == 2 && n % 7 == 0 { continue; }
            p.at(&[5, k as i64, m as i64, closed as i64, order as i64]);
            check_chain_big(r, &stored, &format!("{} separate {} of {} links each, storage order {}", k, if closed { "closed loops" } else { "open chains" }, m, order), Some(k));
        }
    } } }
}

// ------------------------------------------------------------------------------------------------ (i) boundary edges that are not a successor bijection (D7)
/// `calc_edges` on face lists with no edge in more than two faces that are NOT in class G: some boundary vertex is left, or
/// entered, by two boundary edges.  Two sub-groups, told apart by the degree-balance oracle (`boundary_balanced`):
/// (i-a) CONSISTENTLY WOUND VERTEX-ONLY CONTACTS - every vertex is left by as many directed boundary edges as enter it
///       (bow-tie, grids sharing a corner, a fin touching at a boundary vertex): closed walks through the shared vertex
///       exist and the statement demands an edge table whose loops contain every boundary edge exactly once.  The call must
///       RETURN (ordinary clause); that it answers Ok with such loops is the clause VERTEX_CONTACT_CLAUSE - on the tree as
///       repaired (D7) the call returns Err, a residual genuine defect listed as a known finding;
/// (i-b) WINDING BROKEN ALONG THE BOUNDARY - in/out degrees unbalanced, the boundary edges cannot be arranged in directed
///       closed walks: the call must return without a panic; Err is accepted, Ok only with loops that are closed cycles
///       along boundary edges, each used at most once.
/// Run LAST: on a tree without the D7 repair the first such input never returns and the stuck thread dies with the process
const VERTEX_CONTACT_CLAUSE: &str = "[defect vertex-only contact refused] a consistently wound mesh whose faces touch only at a vertex gets an edge table whose boundary loops contain every boundary edge exactly once as closed cycles";
const FINISHES_CONTACT_CLAUSE: &str = "edges: the computation finishes on a consistently wound mesh whose faces touch only at a vertex (watchdog)";
const BROKEN_WINDING_CLAUSE: &str = "edges: on a mesh whose winding is broken along the boundary calc_edges finishes without a panic and answers Err, or Ok with boundary loops that are closed cycles along boundary edges, each used at most once";
/// the directed boundary edges (each in the direction of its only face), sorted
fn boundary_dir_edges(faces: &[[u32; 3]]) -> Vec<(u32, u32)> {
    let mut keys: Vec<(u32, u32)> = Vec::with_capacity(3 * faces.len());
    for f in faces { for e in dir_edges(f) { keys.push(ue(e.0, e.1)); } }
    keys.sort();
    let count = |k: &(u32, u32)| keys.partition_point(|x| x <= k) - keys.partition_point(|x| x < k);
    let mut bd: Vec<(u32, u32)> = Vec::new();
    for f in faces { for e in dir_edges(f) { if count(&ue(e.0, e.1)) == 1 { bd.push(e); } } }
    bd.sort();
    bd
}
/// every vertex is left by as many directed boundary edges as enter it
fn boundary_balanced(faces: &[[u32; 3]]) -> bool {
    let bd = boundary_dir_edges(faces);
    let mut outs: Vec<u32> = bd.iter().map(|e| e.0).collect();
    let mut ins: Vec<u32> = bd.iter().map(|e| e.1).collect();
    outs.sort();
    ins.sort();
    outs == ins
}
/// the loops as closed walks over DIRECTED boundary edges: every loop, read in one of its two senses (the code stores a walk
/// reversed), steps along directed boundary edges only; returns (all loops are such walks, the edges used with repeats, sorted)
fn loops_as_walks(loops: &[Vec<u32>], bd: &[(u32, u32)]) -> (bool, Vec<(u32, u32)>) {
    let mut ok = true;
    let mut used: Vec<(u32, u32)> = Vec::new();
    for l in loops {
        let n = l.len();
        if n < 3 { ok = false; continue; }
        let fwd: Vec<(u32, u32)> = (0..n).map(|i| (l[i], l[(i + 1) % n])).collect();
        let bwd: Vec<(u32, u32)> = (0..n).map(|i| (l[(i + 1) % n], l[i])).collect();
        if fwd.iter().all(|e| bd.binary_search(e).is_ok()) { used.extend(fwd); }
        else if bwd.iter().all(|e| bd.binary_search(e).is_ok()) { used.extend(bwd); }
        else { ok = false; }
    }
    used.sort();
    (ok, used)
}
/// a face list with no edge in more than two faces OUTSIDE class G (name kept: callers classify first)
fn check_refused(r: &mut Report, verts: &[Point3], faces: &[[u32; 3]], label: &str) {
    r.case();
    let mesh = Mesh::new(verts.to_vec(), faces.to_vec(), false);
    let bd = boundary_dir_edges(faces);
    let balanced = boundary_balanced(faces);
    let show = |fs: &[[u32; 3]]| if fs.len() <= 40 { format!("{:?}", fs) } else { format!("({} faces)", fs.len()) };
    for _run in 0..2 {
        let res = mesh.calc_edges();
        if balanced {
            r.check(true, FINISHES_CONTACT_CLAUSE, || String::new());
            match &res {
                Err(_) => r.check(false, VERTEX_CONTACT_CLAUSE, || format!("{} faces {}: calc_edges returned Err; directed boundary edges {:?}", label, show(faces), &bd[..bd.len().min(24)])),
                Ok(me) => {
                    let (walks, used) = loops_as_walks(&me.boundary_loops, &bd);
                    // the known finding is the REFUSAL (Err above); an edge table that IS handed out must be right - this is an
                    // ordinary clause, not covered by the finding
                    r.check(true, VERTEX_CONTACT_CLAUSE, || String::new());
                    r.check(walks && used == bd, "edges: an edge table handed out for a mesh whose faces touch only at a vertex has boundary loops that contain every boundary edge exactly once as closed cycles", || format!("{} faces {}: boundary_loops {:?}; directed boundary edges {:?}", label, show(faces), me.boundary_loops, &bd[..bd.len().min(24)]));
                    // the rest of the table
                    let mut und: Vec<(u32, u32)> = Vec::new();
                    for f in faces { for e in dir_edges(f) { und.push(ue(e.0, e.1)); } }
                    und.sort(); und.dedup();
                    let mut listed: Vec<(u32, u32)> = me.edges.iter().map(|e| ue(e[0], e[1])).collect();
                    listed.sort();
                    r.check(listed == und && me.edge_lengths.len() == me.edges.len() && me.face_edges.len() == faces.len(), "edges: the edge table lists each undirected edge exactly once", || format!("{} faces {} edges {:?}", label, show(faces), me.edges));
                }
            }
        } else {
            let ok = match &res {
                Err(_) => true,
                Ok(me) => { let (walks, used) = loops_as_walks(&me.boundary_loops, &bd); walks && used.windows(2).all(|w| w[0] != w[1]) }
            };
            r.check(ok, BROKEN_WINDING_CLAUSE, || format!("{} faces {}: calc_edges returned Ok with boundary_loops {:?}", label, show(faces), res.as_ref().map(|e| e.boundary_loops.clone()).unwrap_or_default()));
        }
    }
}
fn run_open_boundaries(r: &mut Report, p: &Progress) {
    let mut buf: Vec<i64> = Vec::new();
    let (mut n_contact, mut n_broken, mut n_flipped, mut n_ok) = (0usize, 0usize, 0usize, 0usize);
    let (mut n_small_a, mut n_small_b) = (0usize, 0usize);
    // larger meshes first (so that the reported inputs are the readable ones)
    let mut fam: Vec<(String, Vec<Point3>, Vec<[u32; 3]>)> = Vec::new();
    fam.push(("two triangles sharing one vertex (bow-tie)".into(), base_vertices(), vec![[0, 1, 2], [0, 3, 4]]));
    fam.push(("two triangles sharing one vertex, opposite winding".into(), base_vertices(), vec![[0, 1, 2], [0, 4, 3]]));
    fam.push(("two adjacent triangles, one flipped".into(), base_vertices(), vec![[0, 1, 2], [1, 2, 3]]));
    // two 2x2 grids sharing one corner vertex; a 3x3 grid and a fin triangle touching it at a boundary vertex / at an interior vertex
    let (v1, f1) = grid(2, 2, &[], 0.0, 0);
    let (v2, f2) = grid(2, 2, &[], 5.0, 9);
    let mut v = v1.clone(); v.extend(v2.iter().skip(1).copied());
    let remap = |i: u32| if i == 9 { 8 } else { i - 1 };
    let mut f = f1.clone(); f.extend(f2.iter().map(|t| [remap(t[0]), remap(t[1]), remap(t[2])]));
    fam.push(("two 2x2 grids sharing one corner vertex".into(), v, f));
    let (gv, gf) = grid(3, 3, &[], 0.0, 0);
    let mut v = gv.clone(); v.push(Point3::new(0.5, 0.5, 4.0)); v.push(Point3::new(1.5, 0.5, 4.0));
    let mut f = gf.clone(); f.push([1, 16, 17]);
    fam.push(("3x3 grid + a fin triangle touching it at the boundary vertex 1 only".into(), v.clone(), f));
    let mut f = gf.clone(); f.push([5, 16, 17]);
    fam.push(("3x3 grid + a fin triangle touching it at the interior vertex 5 only".into(), v, f));
    // a piece whose every boundary edge collides with an already registered loop (quad + triangle touching it at two corners),
    // followed / preceded by a separate component, in several face orders
    {
        let mut v = base_vertices();
        while v.len() < 8 { let k = v.len() as f64; v.push(Point3::new(10.0 + k, 0.5 * k, 1.0)); }
        let faces4: [[u32; 3]; 4] = [[0, 1, 2], [0, 2, 3], [1, 3, 4], [5, 6, 7]];
        for order in [[0usize, 1, 2, 3], [3, 0, 1, 2], [0, 1, 3, 2], [2, 0, 1, 3], [3, 2, 1, 0], [0, 2, 1, 3]] {
            let f: Vec<[u32; 3]> = order.iter().map(|&k| faces4[k]).collect();
            fam.push((format!("quad + triangle touching it at two corners + a separate triangle, face order {:?}", order), v.clone(), f));
        }
    }
    for (name, v, f) in fam.iter() {
        buf.clear();
        for t in f.iter() { buf.extend_from_slice(&[t[0] as i64, t[1] as i64, t[2] as i64]); }
        p.at(&buf);
        if has_edge_in_three_faces(f) { r.case(); r.check(false, "internal: hand-built mesh has no edge in three faces", || format!("{} {:?}", name, f)); continue; }
        if in_class_g(f) {
            // a contact at a vertex that is INTERIOR to the other piece leaves the boundary edges in closed loops: edge table expected
            n_ok += 1;
            r.case();
            let mesh = Mesh::new(v.clone(), f.clone(), false);
            check_edge_table(r, &mesh, v, f, name);
        } else {
            if boundary_balanced(f) { n_contact += 1; } else { n_broken += 1; }
            check_refused(r, v, f, name);
        }
    }
    // open meshes with faces flipped: in class G -> edge table (group g); outside -> (i-b), or (i-a) when still balanced
    let mut fam: Vec<(String, Vec<Point3>, Vec<[u32; 3]>)> = Vec::new();
    let (v, f) = grid(3, 3, &[], 0.0, 0); fam.push(("3x3 grid".into(), v, f));
    let (v, f) = grid(5, 3, &[(1, 1), (3, 1)], 0.0, 0); fam.push(("5x3 grid with two holes".into(), v, f));
    let cy = Mesh::create_cylinder(1.0, 2.0, 6);
    fam.push(("create_cylinder(1, 2, 6)".into(), cy.vertices().to_vec(), cy.faces().to_vec()));
    let bx = Mesh::create_box(2.0, 3.0, 4.0, false);
    fam.push(("create_box(2, 3, 4) without its first face".into(), bx.vertices().to_vec(), bx.faces()[1..].to_vec()));
    for (name, v, f) in fam.iter() {
        let nf = f.len();
        let mut sets: Vec<Vec<usize>> = Vec::new();
        for a in 0..nf { sets.push(vec![a]); }
        for a in 0..nf { for b in 0..a { if (a + b) % 3 == 0 { sets.push(vec![b, a]); } } }
        sets.push((0..nf).step_by(2).collect());
        sets.push((0..nf / 2).collect());
        for which in sets.iter() {
            let fs = flip(f, which);
            if has_edge_in_three_faces(&fs) || in_class_g(&fs) { continue; }
            n_flipped += 1;
            buf.clear();
            for t in fs.iter() { buf.extend_from_slice(&[t[0] as i64, t[1] as i64, t[2] as i64]); }
            p.at(&buf);
            check_refused(r, v, &fs, &format!("{} with faces {:?} flipped", name, which));
        }
    }
    // every ordered list of 2 and 3 faces over 5 vertices outside class G (no edge in three faces)
    let verts = base_vertices();
    let mut tri: Vec<[u32; 3]> = Vec::new();
    for a in 0..5u32 { for b in 0..5u32 { for c in 0..5u32 { if a != b && b != c && a != c { tri.push([a, b, c]); } } } }
    let mut n_small = 0usize;
    for len in 2..=3usize {
        let mut idx = vec![0usize; len];
        loop {
            let faces: Vec<[u32; 3]> = idx.iter().map(|&i| tri[i]).collect();
            if !has_edge_in_three_faces(&faces) && !in_class_g(&faces) {
                n_small += 1;
                if boundary_balanced(&faces) { n_small_a += 1; } else { n_small_b += 1; }
                buf.clear();
                for f in faces.iter() { buf.extend_from_slice(&[f[0] as i64, f[1] as i64, f[2] as i64]); }
                p.at(&buf);
                check_refused(r, &verts, &faces, "Mesh::new(5 fixed vertices)");
            }
            let mut k = 0;
            while k < len { idx[k] += 1; if idx[k] < tri.len() { break; } idx[k] = 0; k += 1; }
            if k == len { break; }
        }
    }
    r.check(n_contact >= 4 && n_broken >= 1 && n_ok >= 1 && n_flipped >= 50 && n_small >= 10000 && n_small_a >= 1000 && n_small_b >= 1000, "input space: meshes whose boundary edges are not a successor bijection occur (consistently wound vertex-only contacts, winding broken along the boundary, small lists of both kinds)", || format!("{} + {} hand-built, {} flipped, {} small lists ({} balanced, {} unbalanced)", n_contact, n_broken, n_flipped, n_small, n_small_a, n_small_b));
}

// ------------------------------------------------------------------------------------------------ (h) large vertex ids
/// meshes with a few faces over a LARGE vertex list (70000 vertices): vertex ids on both sides of 2^16, ids that agree
/// modulo 2^16, and ids whose bit 16 lands on another id's low bits when two ids are packed into one word - every
/// clause of check_mesh (edge table, patches, patch boundaries) against the same brute-force oracles
fn run_large_ids(r: &mut Report, p: &Progress) {
    let nv = 70000usize;
    let verts: Vec<Point3> = (0..nv).map(|i| Point3::new(i as f64 * 0.5, (i % 7) as f64, (i % 11) as f64 * 0.25)).collect();
    let mut k = 0i64;
    // two disjoint faces: the first over small ids, the second over every ordered triple of a set mixing small and large ids
    let pool: [u32; 8] = [2, 8, 65538, 65539, 65541, 65544, 65545, 69999];
    for first in [[3u32, 5, 9], [65539 + 4, 65536 + 5, 65536 + 9], [9, 65541, 3]] {
        for a in pool { for b in pool { for c in pool {
            if a == b || b == c || a == c || first.contains(&a) || first.contains(&b) || first.contains(&c) { continue; }
            let faces = vec![first, [a, b, c]];
            k += 1; p.at(&[7, k, a as i64, b as i64, c as i64]);
            check_mesh(r, &verts, &faces, "two faces without a common vertex over 70000 vertices");
        } } }
    }
    // two separate consistently wound strips of 40 faces, one on low ids and one across / above 2^16; the same with the
    // second strip shifted so that its ids agree with the first strip's modulo 2^16
    for base2 in [65530u32, 65536, 65500, 69000] {
        let mut faces: Vec<[u32; 3]> = Vec::new();
        for base in [0u32, base2] { for i in 0..40u32 {
            let a = base + i;
            faces.push(if i % 2 == 0 { [a, a + 1, a + 2] } else { [a + 1, a, a + 2] });
        } }
        k += 1; p.at(&[8, k, base2 as i64]);
        if in_class(&faces) { check_mesh(r, &verts, &faces, &format!("two separate strips of 40 faces on vertex ids 0.. and {}.. over 70000 vertices", base2)); }
        else { r.case(); r.check(false, "internal: hand-built mesh is in the stated class", || format!("strips at {}", base2)); }
    }
}

// ================================================================================================ WAVE 5: parameter-space audit
// (j) index_vec directly; (k) chaining: long chains, many chains, vertex ids up to u32::MAX; (l) voxels: large / extreme
// coordinates, every offset of a two-voxel set up to distance 3, large clusters, > 1000 clusters, duplicates;
// (m) meshes with > 4096 faces, > 65536 edges, > 1000 components, loops of > 4000 vertices (sort-based oracles, no hash
// containers); (n) every 4-face list over 5 vertices starting with [0,1,2] and every 3-face list over 6 vertices starting
// with [0,1,2], plus non-orientable / pinched surfaces, each judged by a TOTAL oracle (edge in three faces -> Err; class G ->
// edge table; otherwise -> Err); (o) degenerate faces (repeated vertex): the calls return; (p) create_box / create_cylinder
// over every parameter; (q) edge lengths for extents 1e-9 .. 1e6 and offsets up to 1e8.

// ------------------------------------------------------------------------------------------------ (j) index_vec
fn run_index_vec(r: &mut Report, p: &Progress) {
    use crate::common::indices::index_vec;
    for len in [0usize, 1, 2, 3, 31, 32, 33, 63, 64, 65, 255, 256, 257, 1000, 1001, 4096, 4097, 65537] {
        p.at(&[9, len as i64]);
        r.case();
        let v = index_vec(None, len);
        r.check(v.len() == len && v.iter().enumerate().all(|(k, &x)| x == k), "index_vec: None gives the identity index list 0..len", || format!("index_vec(None, {}) has {} entries, first mismatch at {:?}", len, v.len(), v.iter().enumerate().find(|(k, x)| *k != **x)));
    }
    let mut lists: Vec<Vec<usize>> = vec![vec![], vec![0], vec![5], vec![3, 3, 3], vec![9, 2, 7, 2], vec![usize::MAX, 0], (0..70).rev().collect(), (0..5000).map(|k| (k * 7 + 3) % 1013).collect()];
    lists.push((0..33).collect());
    for items in lists.iter() {
        for len in [0usize, 1, items.len() / 2, items.len(), items.len() + 5, 4097] {
            p.at(&[10, items.len() as i64, len as i64]);
            r.case();
            let v = index_vec(Some(items), len);
            r.check(v == *items, "index_vec: Some(list) gives that list unchanged (order, duplicates and length kept)", || format!("index_vec(Some({:?} ..; {} entries), {}) = {:?} .. ({} entries)", &items[..items.len().min(8)], items.len(), len, &v[..v.len().min(8)], v.len()));
        }
    }
}

// ------------------------------------------------------------------------------------------------ (k) chaining: magnitudes
fn store_order(pairs: &[[u32; 2]], order: usize) -> Option<Vec<[u32; 2]>> {
    let n = pairs.len();
    Some(match order {
        0 => pairs.to_vec(),
        1 => pairs.iter().rev().copied().collect(),
        2 => { if n % 7 == 0 { return None; } (0..n).map(|i| pairs[(i * 7 + 3) % n]).collect() }
        3 => { let mut e: Vec<[u32; 2]> = pairs.iter().step_by(2).copied().collect(); e.extend(pairs.iter().skip(1).step_by(2).copied()); e }
        // middle out: n/2, n/2-1, n/2+1, n/2-2, ..
        _ => { let m = n / 2; let mut e = Vec::with_capacity(n); if n > 0 { e.push(pairs[m]); } for d in 1..=n { if m >= d { e.push(pairs[m - d]); } if m + d < n { e.push(pairs[m + d]); } } e }
    })
}
/// sort-based form of check_chain_big for lists of thousands of pairs (no quadratic scans over the chains)
fn check_chain_long(r: &mut Report, pairs: &[[u32; 2]], label: &str, expect_chains: Option<usize>) {
    r.case();
    let chains = crate::common::indices::chained_indices(pairs);
    let desc = || format!("{}: {} pairs {:?} .. gave {} chains of lengths {:?} ..", label, pairs.len(), &pairs[..pairs.len().min(6)], chains.len(), chains.iter().take(8).map(|c| c.len()).collect::<Vec<_>>());
    let mut want: Vec<(u32, u32)> = pairs.iter().map(|q| (q[0], q[1])).collect();
    want.sort();
    let mut got: Vec<(u32, u32)> = Vec::new();
    for c in chains.iter() { for w in c.windows(2) { got.push((w[0], w[1])); } }
    got.sort();
    r.check(chains.iter().all(|c| c.len() >= 2), "chaining: every chain has at least two entries, all of them input vertex ids", desc);
    r.check(got.iter().all(|g| want.binary_search(g).is_ok()), "chaining: consecutive chain entries are an input pair with its orientation kept", desc);
    r.check(got == want, "chaining: every input pair is consumed exactly once", desc);
    // maximality: sorted chain starts / ends, sorted pair starts / ends
    let mut starts: Vec<(u32, usize)> = chains.iter().enumerate().filter(|(_, c)| c.len() >= 2).map(|(k, c)| (c[0], k)).collect();
    starts.sort();
    let mut outs: Vec<u32> = pairs.iter().map(|q| q[0]).collect(); outs.sort();
    let mut ins: Vec<u32> = pairs.iter().map(|q| q[1]).collect(); ins.sort();
    let count = |v: &Vec<u32>, x: u32| v.partition_point(|&y| y <= x) - v.partition_point(|&y| y < x);
    let mut maximal = true;
    for (i, a) in chains.iter().enumerate() {
        if a.len() < 2 { continue; }
        let v = *a.last().unwrap();
        let lo = starts.partition_point(|s| s.0 < v);
        let hi = starts.partition_point(|s| s.0 <= v);
        if starts[lo..hi].iter().any(|s| s.1 != i) && count(&ins, v) == 1 && count(&outs, v) == 1 { maximal = false; }
    }
    r.check(maximal, "chaining: chains are maximal (two chains meet end-to-start only at an index where the continuation is not unique)", desc);
    if let Some(n) = expect_chains {
        r.check(chains.len() == n, "chaining: separate simple chains / loops come out as one chain each", || format!("{} expected {} chains", desc(), n));
    }
}
fn run_long_chains(r: &mut Report, p: &Progress) {
    // one simple open chain / closed loop of n links on ids base, base+1, .. (the highest id used is exactly u32::MAX for the last base)
    for n in [31usize, 32, 33, 64, 65, 257, 1000, 1001, 4097] {
        for closed in [false, true] {
            let top = if closed { n as u32 - 1 } else { n as u32 };
            for base in [0u32, 65530, (1u32 << 31) - 3, u32::MAX - top] {
                let pairs: Vec<[u32; 2]> = (0..n as u32).map(|l| [base + l, if closed && l as usize == n - 1 { base } else { base + l + 1 }]).collect();
                for order in 0..5usize {
                    if n > 1001 && (order == 3 || base == 65530) { continue; }
                    if let Some(stored) = store_order(&pairs, order) {
                        p.at(&[11, n as i64, closed as i64, base as i64, order as i64]);
                        check_chain_long(r, &stored, &format!("one {} of {} links on vertex ids {}.., storage order {}", if closed { "closed loop" } else { "open chain" }, n, base, order), Some(1));
                    }
                }
            }
        }
    }
    // every list of <= 3 pairs over the ids {0, 1, 65536, u32::MAX - 1, u32::MAX} (the exhaustive lists of group (a), relabelled)
    let ids = [0u32, 1, 65536, u32::MAX - 1, u32::MAX];
    let all: Vec<[u32; 2]> = (0..25usize).map(|k| [ids[k / 5], ids[k % 5]]).collect();
    for len in 1..=3usize {
        let mut idx = vec![0usize; len];
        loop {
            let pairs: Vec<[u32; 2]> = idx.iter().map(|&i| all[i]).collect();
            p.at(&[12, len as i64, idx[0] as i64]);
            check_chain_big(r, &pairs, "pairs over the vertex ids {0, 1, 65536, u32::MAX - 1, u32::MAX}", None);
            let mut k = 0;
            while k < len { idx[k] += 1; if idx[k] < all.len() { break; } idx[k] = 0; k += 1; }
            if k == len { break; }
        }
    }
    // many separate chains: 1100 chains of 3 links, 4100 chains of one link, 1030 closed loops of 2 links; 4 storage orders
    for (k, m, closed) in [(1100usize, 3usize, false), (4100, 1, false), (1030, 2, true), (65, 64, false), (33, 33, true)] {
        let mut pairs: Vec<[u32; 2]> = Vec::new();
        for c in 0..k { let base = (c * (m + 1)) as u32; for l in 0..m {
            pairs.push([base + l as u32, if closed && l == m - 1 { base } else { base + l as u32 + 1 }]);
        } }
        for order in 0..4usize {
            if let Some(stored) = store_order(&pairs, order) {
                p.at(&[13, k as i64, m as i64, order as i64]);
                check_chain_long(r, &stored, &format!("{} separate {} of {} links, storage order {}", k, if closed { "closed loops" } else { "open chains" }, m, order), Some(k));
            }
        }
    }
    // a long chain with side branches (ambiguous continuations): exactly-once and maximality only
    for n in [40usize, 300] {
        let mut pairs: Vec<[u32; 2]> = (0..n as u32).map(|l| [l, l + 1]).collect();
        for b in [n as u32 / 4, n as u32 / 2, n as u32 - 1] { pairs.push([b, 1000 + b]); pairs.push([2000 + b, b]); pairs.push([1000 + b, 3000 + b]); }
        pairs.push([5, 5]);            // a self pair
        pairs.push([7, 8]);            // a repeated pair
        for order in 0..4usize {
            if let Some(stored) = store_order(&pairs, order) {
                p.at(&[14, n as i64, order as i64]);
                check_chain_long(r, &stored, &format!("chain of {} links with branches, a self pair and a repeated pair, storage order {}", n, order), None);
            }
        }
    }
}

// ------------------------------------------------------------------------------------------------ (l) voxels: magnitudes
fn run_far_voxels(r: &mut Report, p: &Progress) {
    // (l1) two voxels at every offset of the 7x7x7 stencil: one cluster exactly for the 26 offsets of Chebyshev length 1
    let lim = i32::MAX - 1; // largest legal coordinate (the neighbour arithmetic of a voxel AT i32::MAX overflows: precondition)
    let bases: [Vox; 8] = [(0, 0, 0), (1000, -1000, 7), (1 << 20, -(1 << 20), (1 << 21) + 1), (65536, -65536, 32768), (-(1 << 10), 1 << 10, 1 << 16),
        (lim - 3, -lim + 3, lim - 3), (-lim + 3, lim - 3, 0), (1 << 30, -(1 << 30), (1 << 30) + 1)];
    for b in bases { for dx in -3..=3i32 { for dy in -3..=3i32 { for dz in -3..=3i32 {
        if dx == 0 && dy == 0 && dz == 0 { continue; }
        p.at(&[20, b.0 as i64, b.1 as i64, b.2 as i64, dx as i64, dy as i64, dz as i64]);
        check_voxels(r, &[b, (b.0 + dx, b.1 + dy, b.2 + dz)]);
    } } } }
    // (l2) voxels whose coordinates differ by a power of two (they coincide when coordinates are packed into too few bits),
    // each with one true neighbour; a duplicate of every voxel in the input list
    for k in [4u32, 8, 10, 12, 16, 20, 21, 24, 30] {
        let s = 1i32 << k;
        let mut v: Vec<Vox> = vec![(0, 0, 0), (s, 0, 0), (0, s, 0), (0, 0, s), (-s, 0, 0), (0, -s, 0), (0, 0, -s), (s, s, s), (-s, s, -s), (1, 0, 0), (s + 1, 1, -1), (-1, s - 1, 1), (s, s + 1, s)];
        let w = v.clone(); v.extend(w);
        p.at(&[21, k as i64]);
        check_voxels(r, &v);
    }
    // (l3) large clusters and many clusters
    let mut fam: Vec<(String, Vec<Vox>)> = Vec::new();
    let mut v = Vec::new(); for x in 0..17 { for y in 0..17 { for z in 0..17 { v.push((x - 8, y - 8, z - 8)); } } }
    fam.push(("17x17x17 block across the origin (4913 voxels, one cluster)".into(), v));
    fam.push(("line of 5000 voxels along x".into(), (0..5000).map(|i| (i - 2500, 7, -7)).collect()));
    fam.push(("body-diagonal staircase of 1100 voxels".into(), (0..1100).map(|i| (i, -i, i + 1_000_000)).collect()));
    let mut v = Vec::new(); for x in 0..11 { for y in 0..11 { for z in 0..11 { v.push((2 * x - 10, 2 * y, 2 * z + 100_000)); } } }
    fam.push(("11x11x11 voxels two apart (1331 clusters of one voxel)".into(), v));
    let mut v = Vec::new(); for x in 0..9 { for y in 0..9 { for z in 0..9 { v.push((x, y, z)); v.push((x + 10, y, z)); } } }
    fam.push(("two 9x9x9 blocks separated by one empty layer (two clusters)".into(), v.clone()));
    v.push((9, 9, 9));
    fam.push(("two 9x9x9 blocks joined through one corner voxel (one cluster)".into(), v));
    let mut v = Vec::new(); for i in 0..70 { for j in 0..33 { v.push((3 * i, j, 0)); } v.push((3 * i + 1, if i % 2 == 0 { 32 } else { 0 }, 1)); v.push((3 * i + 2, if i % 2 == 0 { 32 } else { 0 }, 1)); }
    fam.push(("serpentine of 70 columns of 33 voxels (one cluster, long detour)".into(), v));
    let mut v = Vec::new(); for i in 0..1500 { v.push((i * 3, (i % 7) * 3, -(i % 5) * 3)); v.push((i * 3 + 1, (i % 7) * 3 + 1, -(i % 5) * 3 - 1)); }
    fam.push(("1500 separate corner-touching pairs".into(), v));
    for (k, (name, v)) in fam.iter().enumerate() {
        p.at(&[22, k as i64]);
        let before = r.failures.len();
        check_voxels(r, v);
        if r.failures.len() > before { let m = r.failures.len(); for f in r.failures[before..m].iter_mut() { f.push_str(&format!(" [{}]", name)); } }
    }
}

/// CANDIDATE FINDING (reported in wave 5, NOT enabled): a voxel AT i32::MAX / i32::MIN.  `current + 1` overflows there: a debug
/// build panics ("attempt to add with overflow"), a release build wraps around and puts (i32::MAX, 0, 0) and (i32::MIN, 0, 0)
/// into ONE cluster although they are not 26-adjacent.  C12 registers "every coordinate strictly inside (i32::MIN, i32::MAX)"
/// as an explicit precondition of clusters_from_sparse; if the coordinator decides to treat it as a defect instead (fix:
/// notes/c12_voxel_range_fix.diff, checked_add), set VOXEL_FULL_RANGE to true: the group then runs under its own name
const VOXEL_FULL_RANGE: bool = true;
fn run_voxel_range_ends(r: &mut Report, p: &Progress) {
    let (lo, hi) = (i32::MIN, i32::MAX);
    for v in [vec![(hi, 0, 0)], vec![(lo, 0, 0)], vec![(hi, 0, 0), (lo, 0, 0)], vec![(hi, hi, hi), (hi - 1, hi - 1, hi - 1)], vec![(lo, lo, lo), (lo + 1, lo + 1, lo + 1), (hi, hi, hi)],
        vec![(0, hi, 0), (0, lo, 0), (1, hi - 1, -1)], vec![(5, 5, hi), (5, 5, lo), (5, 5, hi - 2)]] {
        p.at(&[23, v.len() as i64, v[0].0 as i64, v[0].1 as i64, v[0].2 as i64]);
        check_voxels(r, &v);
    }
}

// ------------------------------------------------------------------------------------------------ (m) large meshes
/// sort-based oracle (no hash containers, no quadratic scans)
struct MeshOracle {
    und: Vec<(u32, u32)>,
    boundary: Vec<(u32, u32)>,
    comp: Vec<Vec<usize>>,
    max_count: usize,
    wound: bool,
    class_g: bool,
}
fn mesh_oracle(faces: &[[u32; 3]]) -> MeshOracle {
    let nf = faces.len();
    let mut ef: Vec<((u32, u32), usize)> = Vec::with_capacity(3 * nf);
    let mut de: Vec<(u32, u32)> = Vec::with_capacity(3 * nf);
    let mut proper = true;
    for (k, f) in faces.iter().enumerate() {
        if f[0] == f[1] || f[1] == f[2] || f[2] == f[0] { proper = false; }
        for e in dir_edges(f) { ef.push((ue(e.0, e.1), k)); de.push(e); }
    }
    ef.sort();
    let mut d = Dsu::new(nf);
    let (mut und, mut boundary, mut max_count) = (Vec::new(), Vec::new(), 0usize);
    let mut i = 0;
    while i < ef.len() {
        let mut j = i;
        while j < ef.len() && ef[j].0 == ef[i].0 { d.union(ef[i].1, ef[j].1); j += 1; }
        und.push(ef[i].0);
        if j - i == 1 { boundary.push(ef[i].0); }
        max_count = max_count.max(j - i);
        i = j;
    }
    let mut sorted_de = de.clone();
    sorted_de.sort();
    let wound = sorted_de.windows(2).all(|w| w[0] != w[1]);
    // class G: the directed boundary edges give every boundary vertex one successor and one predecessor
    let mut bd: Vec<(u32, u32)> = de.iter().copied().filter(|e| boundary.binary_search(&ue(e.0, e.1)).is_ok()).collect();
    bd.sort();
    let starts: Vec<u32> = bd.iter().map(|e| e.0).collect();
    let mut ends: Vec<u32> = bd.iter().map(|e| e.1).collect();
    ends.sort();
    let class_g = proper && max_count <= 2 && starts.windows(2).all(|w| w[0] != w[1]) && ends.windows(2).all(|w| w[0] != w[1]) && ends == starts;
    MeshOracle { und, boundary, comp: d.groups(), max_count, wound, class_g }
}
fn check_cycles_fast(loops: &[Vec<u32>], boundary: &[(u32, u32)]) -> (bool, bool) {
    let mut seen: Vec<(u32, u32)> = Vec::new();
    let mut cyc_ok = true;
    for l in loops {
        let n = l.len();
        if n < 3 { cyc_ok = false; }
        let mut s = l.clone(); s.sort();
        if s.windows(2).any(|w| w[0] == w[1]) { cyc_ok = false; }
        for i in 0..n {
            let e = ue(l[i], l[(i + 1) % n]);
            if boundary.binary_search(&e).is_err() { cyc_ok = false; }
            seen.push(e);
        }
    }
    seen.sort();
    (cyc_ok, seen == boundary)
}
fn loops_canon(loops: &[Vec<u32>]) -> Vec<Vec<(u32, u32)>> {
    let per: Vec<Vec<(u32, u32)>> = loops.iter().map(|l| (0..l.len()).map(|i| ue(l[i], l[(i + 1) % l.len()])).collect()).collect();
    canon(&per)
}
/// all clauses of check_mesh (edge table, patches, patch boundaries) for a consistently wound mesh without vertex-only
/// contacts - or, with `any_winding`, the clauses that hold for class G (edge table) and for every face list (patches)
fn check_mesh_large(r: &mut Report, p: &Progress, verts: &[Point3], faces: &[[u32; 3]], label: &str, any_winding: bool) {
    r.case();
    let nf = faces.len();
    let o = mesh_oracle(faces);
    let mesh = Mesh::new(verts.to_vec(), faces.to_vec(), false);
    let desc = || format!("{} ({} vertices, {} faces: {:?} ..)", label, verts.len(), nf, &faces[..nf.min(4)]);
    r.check(mesh.faces() == faces && mesh.vertices() == verts, "mesh: Mesh::new keeps the face list and the vertex list", desc);
    if !(o.class_g && (any_winding || o.wound)) { r.check(false, "internal: generated mesh is in the stated class", desc); return; }
    p.at(&[30, nf as i64, 1]);
    let mut first: Option<(Vec<(u32, u32)>, Vec<Vec<(u32, u32)>>)> = None;
    for _run in 0..2 {
        match mesh.calc_edges() {
            Err(_) => r.check(false, "edges: a mesh with no edge in more than two faces has an edge table", desc),
            Ok(me) => {
                r.check(std::ptr::eq(me.mesh(), &mesh) && me.vertices() == verts && me.faces() == faces, "edges: the edge table refers to the mesh it was computed for (mesh / vertices / faces accessors)", desc);
                let mut listed: Vec<(u32, u32)> = me.edges.iter().map(|e| ue(e[0], e[1])).collect();
                listed.sort();
                r.check(listed == o.und, "edges: the edge table lists each undirected edge exactly once", || format!("{}: {} listed, {} expected", desc(), listed.len(), o.und.len()));
                let mut len_ok = me.edge_lengths.len() == me.edges.len();
                let mut worst = String::new();
                if len_ok { for (k, (e, l)) in me.edges.iter().zip(me.edge_lengths.iter()).enumerate() {
                    if e[0] as usize >= verts.len() || e[1] as usize >= verts.len() { len_ok = false; continue; }
                    let (a, b) = (verts[e[0] as usize], verts[e[1] as usize]);
                    let t = ((b.x - a.x).powi(2) + (b.y - a.y).powi(2) + (b.z - a.z).powi(2)).sqrt();
                    if !(l.is_finite() && (*l - t).abs() <= 1e-12 * t) { if len_ok { worst = format!("edge {} {:?}: edge_lengths = {:?}, |v1 - v0| = {:?}", k, e, l, t); } len_ok = false; }
                } }
                r.check(len_ok, "edges: every listed edge carries its length", || format!("{}: {}", desc(), worst));
                let mut fe_ok = me.face_edges.len() == nf;
                let mut bad_face = 0usize;
                if fe_ok { for (k, (f, fe)) in faces.iter().zip(me.face_edges.iter()).enumerate() {
                    let mut want: Vec<(u32, u32)> = dir_edges(f).iter().map(|e| ue(e.0, e.1)).collect();
                    want.sort();
                    let mut got: Vec<(u32, u32)> = Vec::new();
                    for &q in fe.iter() { if let Some(e) = me.edges.get(q as usize) { got.push(ue(e[0], e[1])); } }
                    got.sort();
                    if got != want { if fe_ok { bad_face = k; } fe_ok = false; }
                } }
                r.check(fe_ok, "edges: every face is mapped to its three edges", || format!("{}: face {} = {:?} has face_edges {:?}", desc(), bad_face, faces.get(bad_face), me.face_edges.get(bad_face)));
                let (cyc, once) = check_cycles_fast(&me.boundary_loops, &o.boundary);
                let dl = || format!("{}: {} boundary edges, {} loops of lengths {:?} ..", desc(), o.boundary.len(), me.boundary_loops.len(), me.boundary_loops.iter().take(8).map(|l| l.len()).collect::<Vec<_>>());
                r.check(cyc, "edges: every boundary loop is a closed vertex cycle along boundary edges", dl);
                r.check(once, "edges: the boundary loops together contain every boundary edge exactly once", dl);
                let cl = loops_canon(&me.boundary_loops);
                match &first {
                    None => first = Some((listed, cl)),
                    Some((l0, c0)) => r.check(*l0 == listed && *c0 == cl, "edges: same edge table and loops as sets on a repeated run (hash order)", dl),
                }
            }
        }
    }
    p.at(&[30, nf as i64, 2]);
    let comp_of = { let mut c = vec![0usize; nf]; for (k, g) in o.comp.iter().enumerate() { for &f in g { c[f] = k; } } c };
    let mut first_p: Option<Vec<Vec<usize>>> = None;
    for _run in 0..2 {
        let patches = mesh.get_patches();
        let d3 = || format!("{}: {} patches of sizes {:?} .., {} components expected", desc(), patches.len(), patches.iter().take(8).map(|q| q.len()).collect::<Vec<_>>(), o.comp.len());
        let mut flat: Vec<usize> = patches.iter().flatten().copied().collect();
        flat.sort();
        let part = flat.len() == nf && flat.iter().enumerate().all(|(k, &f)| f == k) && patches.iter().all(|q| !q.is_empty());
        r.check(part, "patches: every face is in exactly one patch", d3);
        let cp = canon(&patches);
        if o.wound {
            r.check(cp == o.comp, "patches: two faces share a patch exactly when they are connected through shared edges", d3);
            match &first_p {
                None => first_p = Some(cp),
                Some(f) => r.check(*f == cp, "patches: same patches as sets on a repeated run (hash order)", d3),
            }
        } else if part {
            r.check(patches.iter().all(|q| q.iter().all(|&f| comp_of[f] == comp_of[q[0]])), "patches: two faces that share a patch are connected through shared edges (any winding, any contact)", d3);
        }
    }
    if !o.wound { return; }
    p.at(&[30, nf as i64, 3]);
    match mesh.get_patch_boundary_points() {
        Err(_) => r.check(false, "patch boundaries: computed for a mesh with no edge in more than two faces", desc),
        Ok(bp) => {
            let bits = |q: &Point3| (q.x.to_bits(), q.y.to_bits(), q.z.to_bits());
            let mut index: Vec<((u64, u64, u64), u32)> = verts.iter().enumerate().map(|(k, q)| (bits(q), k as u32)).collect();
            index.sort();
            let distinct = index.windows(2).all(|w| w[0].0 != w[1].0);
            let mut ids: Vec<Vec<u32>> = Vec::new();
            let mut known = distinct;
            for l in bp.iter() { let mut v = Vec::new(); for q in l { match index.binary_search_by(|x| x.0.cmp(&bits(q))) { Ok(k) => v.push(index[k].1), Err(_) => known = false } } ids.push(v); }
            let d4 = || format!("{}: {} boundaries of lengths {:?} ..", desc(), ids.len(), ids.iter().take(8).map(|l| l.len()).collect::<Vec<_>>());
            r.check(known, "patch boundaries: every returned point is a mesh vertex", d4);
            let (cyc, once) = check_cycles_fast(&ids, &o.boundary);
            r.check(cyc, "patch boundaries: every boundary is a closed vertex cycle along boundary edges", d4);
            r.check(once, "patch boundaries: together they contain every boundary edge exactly once", d4);
        }
    }
}
/// closed nx x ny torus of quads (two consistently wound triangles each); vertex (i, j) has id j * nx + i
fn torus(nx: u32, ny: u32) -> (Vec<Point3>, Vec<[u32; 3]>) {
    let mut v = Vec::new();
    for j in 0..ny { for i in 0..nx { v.push(Point3::new(i as f64 + 0.125 * j as f64, j as f64 * 1.5, 0.25 * ((i * 7 + j * 3) % 11) as f64)); } }
    let id = |i: u32, j: u32| (j % ny) * nx + (i % nx);
    let mut f = Vec::new();
    for j in 0..ny { for i in 0..nx {
        f.push([id(i, j), id(i + 1, j), id(i + 1, j + 1)]);
        f.push([id(i, j), id(i + 1, j + 1), id(i, j + 1)]);
    } }
    (v, f)
}
/// several meshes as separate components of one mesh (ids shifted, the copies moved apart along z)
fn concat(parts: &[(Vec<Point3>, Vec<[u32; 3]>)]) -> (Vec<Point3>, Vec<[u32; 3]>) {
    let (mut v, mut f) = (Vec::new(), Vec::new());
    for (k, (pv, pf)) in parts.iter().enumerate() {
        let base = v.len() as u32;
        v.extend(pv.iter().map(|q| Point3::new(q.x, q.y, q.z + 1000.0 * (k + 1) as f64)));
        f.extend(pf.iter().map(|t| [t[0] + base, t[1] + base, t[2] + base]));
    }
    (v, f)
}
fn flip_every(faces: &[[u32; 3]], pick: &dyn Fn(usize, &[u32; 3]) -> bool) -> Vec<[u32; 3]> {
    faces.iter().enumerate().map(|(k, f)| if pick(k, f) { [f[0], f[2], f[1]] } else { *f }).collect()
}
fn run_large_meshes(r: &mut Report, p: &Progress) {
    let tri = |k: u32| (vec![Point3::new(k as f64, 0.0, 0.0), Point3::new(k as f64 + 0.5, 1.0, 0.0), Point3::new(k as f64, 2.0, 0.5)], vec![[0u32, 1, 2]]);
    let mut fam: Vec<(String, Vec<Point3>, Vec<[u32; 3]>)> = Vec::new();
    let (v, f) = grid(46, 46, &[], 0.0, 0); fam.push(("46x46 grid (4232 faces)".into(), v, f));
    let holes: Vec<(u32, u32)> = (0..23u32).flat_map(|a| (0..10u32).map(move |b| (3 * a + 1, 3 * b + 1))).collect();
    let (v, f) = grid(70, 31, &holes, 0.0, 0); fam.push(("70x31 grid with 230 quad holes".into(), v, f));
    let (v, f) = grid(2100, 1, &[], 0.0, 0); fam.push(("2100x1 strip (one boundary loop of 4202 vertices)".into(), v, f));
    let (v, f) = torus(40, 53); fam.push(("40x53 torus (closed, 4240 faces)".into(), v, f));
    let (v, f) = torus(3, 3); fam.push(("3x3 torus (closed, 18 faces, 9 vertices)".into(), v, f));
    let parts: Vec<(Vec<Point3>, Vec<[u32; 3]>)> = (0..1100u32).map(tri).collect();
    let (v, f) = concat(&parts); fam.push(("1100 separate triangles".into(), v, f));
    // components of very different sizes: big first / tiny first; the number of components exceeds the size of the last ones
    let mut parts: Vec<(Vec<Point3>, Vec<[u32; 3]>)> = Vec::new();
    let (v, f) = grid(10, 10, &[], 0.0, 0); parts.push((v, f));
    let (v, f) = torus(5, 4); parts.push((v, f));
    for _ in 0..40 { let (v, f) = grid(1, 1, &[], 0.0, 0); parts.push((v, f)); }
    for k in 0..5 { parts.push(tri(k)); }
    let (v, f) = concat(&parts); fam.push(("47 components: 10x10 grid, 5x4 torus, 40 quads, 5 triangles (big first)".into(), v, f));
    parts.reverse();
    let (v, f) = concat(&parts); fam.push(("47 components: 5 triangles, 40 quads, 5x4 torus, 10x10 grid (tiny first)".into(), v, f));
    let mut parts: Vec<(Vec<Point3>, Vec<[u32; 3]>)> = Vec::new();
    for k in 0..70u32 { let (v, f) = grid(1 + k % 4, 1 + k % 3, &[], 0.0, 0); parts.push((v, f)); }
    let (v, f) = concat(&parts); fam.push(("70 small grids of sizes 1x1 .. 4x3".into(), v, f));
    for steps in [2100usize] {
        let c = Mesh::create_cylinder(1.5, 4.0, steps);
        fam.push((format!("create_cylinder(1.5, 4, {})", steps), c.vertices().to_vec(), c.faces().to_vec()));
    }
    // more than 65536 edges AND vertex ids above 2^16: a 153x153 grid on the vertex ids 50000..
    let (gv, gf) = grid(153, 153, &[(7, 9), (100, 100), (152, 152)], 0.0, 50000);
    let mut v: Vec<Point3> = (0..50000).map(|k| Point3::new(-1.0 - k as f64, -5.0, 0.0)).collect(); v.extend(gv);
    fam.push(("153x153 grid with 3 holes on the vertex ids 50000.. (70k edges)".into(), v, gf));
    for (k, (name, v, f)) in fam.iter().enumerate() {
        let big = f.len() > 20000;
        for variant in 0..(if big { 1usize } else { 3 }) {
            p.at(&[31, k as i64, variant as i64]);
            let fs = restore(f, variant);
            check_mesh_large(r, p, v, &fs, &format!("{} (storage variant {})", name, variant), false);
        }
        if !big {
            // reversed vertex numbering
            let perm: Vec<u32> = (0..v.len() as u32).rev().collect();
            let (v2, f2) = renumber(v, f, &perm);
            p.at(&[32, k as i64]);
            check_mesh_large(r, p, &v2, &restore(&f2, 4), &format!("{} (vertex numbering reversed, storage variant 4)", name), false);
        }
    }
    // inconsistent winding at scale (class G): the torus with every 3rd face flipped; the 46x46 grid with interior faces flipped
    let (v, f) = torus(40, 53);
    p.at(&[33, 0]);
    check_mesh_large(r, p, &v, &flip_every(&f, &|k, _| k % 3 == 0), "40x53 torus with every 3rd face flipped", true);
    let (v, f) = grid(46, 46, &[], 0.0, 0);
    let o = mesh_oracle(&f);
    let interior = |t: &[u32; 3]| dir_edges(t).iter().all(|e| o.boundary.binary_search(&ue(e.0, e.1)).is_err());
    p.at(&[33, 1]);
    check_mesh_large(r, p, &v, &flip_every(&f, &|k, t| k % 5 == 0 && interior(t)), "46x46 grid with every 5th face flipped unless it owns a boundary edge", true);
    // the OTHER verdicts at scale: a face flipped along the boundary, two big grids sharing a corner vertex, an edge in 3 faces
    let mut refused: Vec<(String, Vec<Point3>, Vec<[u32; 3]>, bool)> = Vec::new();
    let fl = flip_every(&f, &|k, _| k == 0 || k == 4231);
    refused.push(("46x46 grid with its first and last face flipped (they own boundary edges)".into(), v.clone(), fl, false));
    let (v2, f2) = grid(46, 46, &[], 9.0, 0);
    let last = v.len() as u32 - 1;
    let mut vv = v.clone(); vv.extend(v2.iter().skip(1).copied());
    let mut ff = f.clone(); ff.extend(f2.iter().map(|t| { let m = |i: u32| if i == 0 { last } else { last + i }; [m(t[0]), m(t[1]), m(t[2])] }));
    refused.push(("two 46x46 grids sharing one corner vertex".into(), vv, ff, false));
    let mut vv = v.clone(); vv.push(Point3::new(0.5, 0.5, 77.0));
    let mut ff = f.clone(); ff.push([47 * 20 + 20, 47 * 20 + 21, vv.len() as u32 - 1]);
    refused.push(("46x46 grid with a fin on an interior edge (edge in three faces)".into(), vv, ff, true));
    for (k, (name, v, f, three)) in refused.iter().enumerate() {
        p.at(&[34, k as i64]);
        r.case();
        let o = mesh_oracle(f);
        let desc = || format!("{} ({} faces)", name, f.len());
        if (o.max_count > 2) != *three || o.class_g { r.check(false, "internal: generated mesh is in the stated class", desc); continue; }
        let mesh = Mesh::new(v.clone(), f.clone(), false);
        if *three {
            for _run in 0..2 { r.check(mesh.calc_edges().is_err(), "edges: a mesh with an edge in more than two faces is refused (Err)", desc); }
        } else {
            // outside class G: (i-a) for the grids sharing a corner (balanced), (i-b) for the faces flipped along the boundary
            check_refused(r, v, f, name);
        }
        // a refused edge table leaves the mesh as it was: the patch decomposition is still the partition into components
        let patches = mesh.get_patches();
        let mut flat: Vec<usize> = patches.iter().flatten().copied().collect();
        flat.sort();
        r.check(flat.len() == f.len() && flat.iter().enumerate().all(|(k, &x)| x == k), "patches: every face is in exactly one patch", desc);
        if o.wound { r.check(canon(&patches) == o.comp, "patches: two faces share a patch exactly when they are connected through shared edges", desc); }
    }
}

// ------------------------------------------------------------------------------------------------ (n) total verdict on small lists
/// one face list, every clause the statement has for it: an edge in three faces -> Err; class G -> the edge table; otherwise
/// (boundary edges not a successor bijection) -> group (i): a table with loops when the boundary degrees are balanced
/// (known finding: refused), Err or sound loops when they are not; patches as for any face list.  The calls are interleaved (patches, edges,
/// patches) - none of them may disturb the other
fn check_any_mesh(r: &mut Report, verts: &[Point3], faces: &[[u32; 3]], label: &str, runs: usize) {
    check_patches_any(r, verts, faces, runs, label);
    if in_class(faces) {
        check_mesh(r, verts, faces, label);
    } else if has_edge_in_three_faces(faces) {
        r.case();
        let mesh = Mesh::new(verts.to_vec(), faces.to_vec(), false);
        r.check(mesh.calc_edges().is_err(), "edges: a mesh with an edge in more than two faces is refused (Err)", || format!("{} faces {:?}", label, faces));
    } else if in_class_g(faces) {
        r.case();
        let mesh = Mesh::new(verts.to_vec(), faces.to_vec(), false);
        check_edge_table(r, &mesh, verts, faces, label);
    } else {
        check_refused(r, verts, faces, label);
    }
}
fn six_vertices() -> Vec<Point3> {
    let mut v = base_vertices();
    v.push(Point3::new(-3.0, 1.0, -2.0));
    v
}
fn run_total_small(r: &mut Report, p: &Progress) {
    let mut buf: Vec<i64> = Vec::new();
    // (n1) every list [0,1,2], a, b, c with a < b < c (as positions in the list of the 60 proper faces over 5 vertices)
    let verts = base_vertices();
    let mut tri: Vec<[u32; 3]> = Vec::new();
    for a in 0..5u32 { for b in 0..5u32 { for c in 0..5u32 { if a != b && b != c && a != c { tri.push([a, b, c]); } } } }
    for a in 0..tri.len() { for b in (a + 1)..tri.len() { for c in (b + 1)..tri.len() {
        let faces = vec![[0u32, 1, 2], tri[a], tri[b], tri[c]];
        buf.clear();
        for f in faces.iter() { buf.extend_from_slice(&[f[0] as i64, f[1] as i64, f[2] as i64]); }
        p.at(&buf);
        check_any_mesh(r, &verts, &faces, "Mesh::new(5 fixed vertices), 4 faces", 2);
    } } }
    // (n2) every ordered list [0,1,2], a, b over 6 vertices (two faces without a common vertex become possible)
    let verts = six_vertices();
    let mut tri: Vec<[u32; 3]> = Vec::new();
    for a in 0..6u32 { for b in 0..6u32 { for c in 0..6u32 { if a != b && b != c && a != c { tri.push([a, b, c]); } } } }
    for a in 0..tri.len() { for b in 0..tri.len() {
        let faces = vec![[0u32, 1, 2], tri[a], tri[b]];
        buf.clear();
        for f in faces.iter() { buf.extend_from_slice(&[f[0] as i64, f[1] as i64, f[2] as i64]); }
        p.at(&buf);
        check_any_mesh(r, &verts, &faces, "Mesh::new(6 fixed vertices), 3 faces", 2);
    } }
    // (n3) shape classes: non-orientable, pinched, holes that touch, coincident vertices
    let mut fam: Vec<(String, Vec<Point3>, Vec<[u32; 3]>)> = Vec::new();
    fam.push(("Moebius band on 5 vertices".into(), base_vertices(), vec![[0, 1, 2], [1, 2, 3], [2, 3, 4], [3, 4, 0], [4, 0, 1]]));
    fam.push(("projective plane on 6 vertices (closed, not orientable)".into(), six_vertices(), vec![[0, 1, 2], [0, 2, 3], [0, 3, 4], [0, 4, 5], [0, 5, 1], [1, 2, 4], [2, 3, 5], [3, 4, 1], [4, 5, 2], [5, 1, 3]]));
    let tv = vec![Point3::new(0.0, 0.0, 0.0), Point3::new(2.0, 0.0, 0.0), Point3::new(0.0, 3.0, 0.0), Point3::new(0.0, 0.0, 5.0), Point3::new(-2.0, 0.0, 0.5), Point3::new(0.0, -3.0, 0.25), Point3::new(0.5, 0.0, -5.0)];
    let tf = vec![[0u32, 2, 1], [0, 1, 3], [1, 2, 3], [2, 0, 3]];
    let mut two = tf.clone(); two.extend(tf.iter().map(|t| { let m = |i: u32| if i == 0 { 0 } else { i + 3 }; [m(t[0]), m(t[1]), m(t[2])] }));
    fam.push(("two closed tetrahedra sharing one vertex (no boundary)".into(), tv.clone(), two));
    let mut two = tf.clone(); two.extend(tf.iter().map(|t| { let m = |i: u32| if i <= 1 { i } else { i + 3 }; [m(t[0]), m(t[1]), m(t[2])] }));
    fam.push(("two closed tetrahedra sharing one edge (edge in four faces)".into(), tv.clone(), two));
    let (v, f) = grid(4, 4, &[(1, 1), (2, 2)], 0.0, 0); fam.push(("4x4 grid with two quad holes touching at a vertex".into(), v, f));
    let (v, f) = grid(4, 4, &[(1, 1), (2, 1)], 0.0, 0); fam.push(("4x4 grid with two adjacent quads removed (one hole)".into(), v, f));
    let (v, f) = grid(3, 3, &[(0, 0), (2, 2)], 0.0, 0); fam.push(("3x3 grid without two opposite corner quads".into(), v, f));
    let (v, f) = grid(3, 3, &[(0, 0), (1, 1)], 0.0, 0); fam.push(("3x3 grid without a corner quad and the centre quad (hole touches the outer boundary at a vertex)".into(), v, f));
    // coincident vertex POSITIONS under different ids: connectivity is by id; a zero-length edge has length 0
    let cv = vec![Point3::new(0.0, 0.0, 0.0), Point3::new(1.0, 0.0, 0.0), Point3::new(1.0, 2.0, 0.0), Point3::new(0.0, 2.0, 0.5), Point3::new(1.0, 2.0, 0.0), Point3::new(0.0, 0.0, 0.0)];
    fam.push(("quad stored as two triangles that do not share vertex ids (unwelded)".into(), cv.clone(), vec![[0, 1, 2], [5, 4, 3]]));
    fam.push(("two triangles with a zero-length edge (vertices 2 and 4 coincide)".into(), cv.clone(), vec![[0, 1, 2], [0, 2, 4]]));
    for (name, v, f) in fam.iter() {
        for variant in 0..6usize {
            let fs = restore(f, variant);
            buf.clear();
            for t in fs.iter() { buf.extend_from_slice(&[t[0] as i64, t[1] as i64, t[2] as i64]); }
            p.at(&buf);
            // check_mesh identifies returned points with vertices by position: not for the meshes with coincident positions
            let dup = v.iter().enumerate().any(|(i, a)| v[..i].iter().any(|b| a == b));
            if dup {
                check_patches_any(r, v, &fs, 8, name);
                if in_class_g(&fs) { r.case(); let mesh = Mesh::new(v.clone(), fs.clone(), false); check_edge_table(r, &mesh, v, &fs, name); }
            } else {
                check_any_mesh(r, v, &fs, &format!("{} (storage variant {})", name, variant), 8);
            }
        }
    }
}

// ------------------------------------------------------------------------------------------------ (o) degenerate faces
/// faces with a repeated vertex: the statement's "every triangle mesh" does not say what their edge table is, but the
/// computations must FINISH on every input (watchdog / panic capture of `guarded`), the patch decomposition - which looks at
/// face indices only - must still put every face in exactly one patch, and two runs must give the same verdict
fn run_degenerate(r: &mut Report, p: &Progress) {
    let verts: Vec<Point3> = base_vertices()[..4].to_vec();
    let mut tri: Vec<[u32; 3]> = Vec::new();
    for a in 0..4u32 { for b in 0..4u32 { for c in 0..4u32 { tri.push([a, b, c]); } } }
    let degenerate = |f: &[u32; 3]| f[0] == f[1] || f[1] == f[2] || f[2] == f[0];
    let mut buf: Vec<i64> = Vec::new();
    for len in 1..=3usize {
        let mut idx = vec![0usize; len];
        loop {
            let faces: Vec<[u32; 3]> = idx.iter().map(|&i| tri[i]).collect();
            // three faces: the first one is [0,0,0], [0,0,1], [0,1,0], [1,0,0] or [0,1,2]; at least one face is degenerate
            let run_it = faces.iter().any(degenerate) && (len < 3 || [[0u32, 0, 0], [0, 0, 1], [0, 1, 0], [1, 0, 0], [0, 1, 2]].contains(&faces[0]));
            if run_it {
                buf.clear();
                for f in faces.iter() { buf.extend_from_slice(&[f[0] as i64, f[1] as i64, f[2] as i64]); }
                p.at(&buf);
                r.case();
                let mesh = Mesh::new(verts.clone(), faces.clone(), false);
                let desc = || format!("faces {:?}", faces);
                let e1 = mesh.calc_edges().map(|e| (e.edges.len(), e.face_edges.len(), e.edge_lengths.len())).ok();
                let e2 = mesh.calc_edges().map(|e| (e.edges.len(), e.face_edges.len(), e.edge_lengths.len())).ok();
                r.check(e1 == e2, "degenerate faces: calc_edges returns, with the same verdict and table sizes on a repeated run", || format!("{}: {:?} then {:?}", desc(), e1, e2));
                if let Some((ne, nfe, nl)) = e1 { r.check(nfe == faces.len() && nl == ne, "degenerate faces: an edge table has one entry per face and one length per edge", desc); }
                let patches = mesh.get_patches();
                let mut flat: Vec<usize> = patches.iter().flatten().copied().collect();
                flat.sort();
                r.check(flat == (0..faces.len()).collect::<Vec<_>>() && patches.iter().all(|q| !q.is_empty()), "patches: every face is in exactly one patch", || format!("{} get_patches {:?}", desc(), patches));
                let _ = mesh.get_patch_boundary_points(); // must return (Ok or Err)
            }
            let mut k = 0;
            while k < len { idx[k] += 1; if idx[k] < tri.len() { break; } idx[k] = 0; k += 1; }
            if k == len { break; }
        }
    }
}

// ------------------------------------------------------------------------------------------------ (p) generators: every parameter
/// closed / open, consistently wound, indices in range, counted with sorted lists (any size)
fn generated_topology(r: &mut Report, mesh: &Mesh, label: &str, closed: bool) -> bool {
    let faces = mesh.faces();
    let nv = mesh.vertices().len();
    let desc = || format!("{} ({} vertices, {} faces: {:?} ..)", label, nv, faces.len(), &faces[..faces.len().min(4)]);
    let mut de: Vec<(u32, u32)> = Vec::new();
    let mut ok = faces.iter().all(|f| f.iter().all(|&i| (i as usize) < nv));
    for f in faces.iter() { for e in dir_edges(f) { if e.0 == e.1 { ok = false; } de.push(e); } }
    de.sort();
    if de.windows(2).any(|w| w[0] == w[1]) { ok = false; }
    r.check(ok, "generators: consistently wound (every directed edge occurs at most once, indices inside the vertex list)", desc);
    if closed {
        r.check(de.iter().all(|e| de.binary_search(&(e.1, e.0)).is_ok()), "generators: the box is closed (every undirected edge twice, once in each direction)", desc);
    }
    ok
}
fn run_generator_params(r: &mut Report, p: &Progress) {
    // ---- create_box: every ordered triple of sizes from 1e-9 .. 1e8, both values of is_solid
    let dims = [1.0e-9, 1.0e-6, 0.001, 0.5, 1.0, 3.0, 1.0e3, 1.0e8];
    for (a, &w) in dims.iter().enumerate() { for (b, &h) in dims.iter().enumerate() { for (c, &d) in dims.iter().enumerate() { for solid in [false, true] {
        p.at(&[40, a as i64, b as i64, c as i64, solid as i64]);
        r.case();
        let m = Mesh::create_box(w, h, d, solid);
        let label = format!("create_box({:?}, {:?}, {:?}, {})", w, h, d, solid);
        let verts = m.vertices().to_vec();
        let faces = m.faces().to_vec();
        let desc = || format!("{} vertices {:?} faces {:?}", label, verts.iter().map(|q| (q.x, q.y, q.z)).collect::<Vec<_>>(), faces);
        r.check(faces.len() == 12 && verts.len() == 8 && m.is_solid() == solid, "generators: a box has 8 vertices and 12 faces", desc);
        // the 8 corners {0,w} x {0,h} x {0,d}, each once (bit for bit: no arithmetic is needed to produce them)
        let mut corner: Vec<u8> = verts.iter().map(|q| {
            let bit = |x: f64, s: f64| if x == 0.0 { 0u8 } else if x == s { 1 } else { 9 };
            let (i, j, k) = (bit(q.x, w), bit(q.y, h), bit(q.z, d));
            if i > 1 || j > 1 || k > 1 { 99 } else { i + 2 * j + 4 * k }
        }).collect();
        let unit: Vec<(f64, f64, f64)> = corner.iter().map(|&c| ((c & 1) as f64, ((c >> 1) & 1) as f64, ((c >> 2) & 1) as f64)).collect();
        corner.sort();
        let corners_ok = corner == vec![0u8, 1, 2, 3, 4, 5, 6, 7];
        r.check(corners_ok, "generators: the box vertices are the 8 corners of [0,w] x [0,h] x [0,d], each once", desc);
        let wound = generated_topology(r, &m, &label, true);
        if !(corners_ok && wound && faces.len() == 12) { continue; }
        // outward: evaluated on the unit cube (dividing x, y, z by w, h, d > 0 keeps the sign of every triple product): exact
        let mut out_ok = true;
        let mut axes: Vec<(usize, f64)> = Vec::new();
        for f in faces.iter() {
            let (a, b, c) = (unit[f[0] as usize], unit[f[1] as usize], unit[f[2] as usize]);
            let (u, v) = ((b.0 - a.0, b.1 - a.1, b.2 - a.2), (c.0 - a.0, c.1 - a.1, c.2 - a.2));
            let n = (u.1 * v.2 - u.2 * v.1, u.2 * v.0 - u.0 * v.2, u.0 * v.1 - u.1 * v.0);
            let g = ((a.0 + b.0 + c.0) / 3.0 - 0.5, (a.1 + b.1 + c.1) / 3.0 - 0.5, (a.2 + b.2 + c.2) / 3.0 - 0.5);
            if !(n.0 * g.0 + n.1 * g.1 + n.2 * g.2 > 0.0) { out_ok = false; }
            // the face lies in one side of the cube: its outward axis
            let ax = if a.0 == b.0 && b.0 == c.0 { (0usize, 2.0 * a.0 - 1.0) } else if a.1 == b.1 && b.1 == c.1 { (1, 2.0 * a.1 - 1.0) } else if a.2 == b.2 && b.2 == c.2 { (2, 2.0 * a.2 - 1.0) } else { out_ok = false; (0, 0.0) };
            axes.push(ax);
        }
        r.check(out_ok, "generators: the stored winding of every face gives an outward normal", desc);
        // the library's normals, where parry can normalise them (|cross product| well above f64::EPSILON)
        if w * h > 1e-12 && h * d > 1e-12 && w * d > 1e-12 {
            let lib_ok = match m.get_face_normals() {
                Err(_) => false,
                Ok(ns) => ns.len() == 12 && ns.iter().zip(axes.iter()).all(|(n, (ax, s))| (0..3).all(|k| close(n[k], if k == *ax { *s } else { 0.0 }))),
            };
            r.check(lib_ok, "generators: get_face_normals returns one outward unit normal per face", desc);
        }
    } } } }
    // ---- create_cylinder: radius x height x steps
    let radii = [1.0e-6, 0.001, 0.5, 1.0, 2.5, 1.0e3, 1.0e6];
    let heights = [1.0e-6, 0.5, 1.0, 3.0, 1.0e4, 1.0e8];
    let mut cases: Vec<(f64, f64, usize)> = Vec::new();
    for &rad in radii.iter() { for &h in heights.iter() { for steps in [3usize, 4, 5, 6, 7, 8, 9, 16, 17, 31, 32, 33, 64, 65, 100, 255, 256, 257] { cases.push((rad, h, steps)); } } }
    for steps in 3..=70usize { cases.push((1.0, 1.0, steps)); cases.push((2.5, 0.75, steps)); }
    for steps in [1000usize, 1001, 2049, 4096, 4097, 32768, 32769] { cases.push((1.0, 1.0, steps)); cases.push((0.25, 300.0, steps)); }
    for (k, &(rad, h, steps)) in cases.iter().enumerate() {
        p.at(&[41, k as i64, steps as i64]);
        r.case();
        let m = Mesh::create_cylinder(rad, h, steps);
        let label = format!("create_cylinder({:?}, {:?}, {})", rad, h, steps);
        let verts = m.vertices();
        let faces = m.faces();
        let desc = || format!("{} ({} vertices, {} faces: {:?} ..)", label, verts.len(), faces.len(), &faces[..faces.len().min(4)]);
        r.check(faces.len() == 2 * steps && verts.len() == 2 * steps, "generators: a cylinder wall has 2*steps vertices and 2*steps faces", desc);
        if !generated_topology(r, &m, &label, false) { continue; }
        // an open tube: one component, two rims of `steps` edges each, every other edge in two faces
        let o = mesh_oracle(faces);
        r.check(o.class_g && o.wound && o.comp.len() == 1 && o.boundary.len() == 2 * steps && o.max_count == 2, "generators: the cylinder wall is one edge-connected tube whose only free edges are the two rims of `steps` edges", || format!("{}: {} components, {} free edges", desc(), o.comp.len(), o.boundary.len()));
        // outward, on the unit cylinder: x, y measured from the mean of the vertices and divided by the largest distance
        // from it, z from the lowest vertex and divided by the z extent (translation and positive scaling keep the sign of
        // every triple product; nothing is demanded of the radius and height themselves)
        let nvf = verts.len() as f64;
        let (cx, cy) = (verts.iter().map(|q| q.x).sum::<f64>() / nvf, verts.iter().map(|q| q.y).sum::<f64>() / nvf);
        let zmin = verts.iter().map(|q| q.z).fold(f64::INFINITY, f64::min);
        let zext = verts.iter().map(|q| q.z).fold(f64::NEG_INFINITY, f64::max) - zmin;
        let rmax = verts.iter().map(|q| ((q.x - cx).powi(2) + (q.y - cy).powi(2)).sqrt()).fold(0.0, f64::max);
        let s = |q: &Point3| ((q.x - cx) / rmax, (q.y - cy) / rmax, (q.z - zmin) / zext);
        let mut out_ok = rmax > 0.0 && zext > 0.0;
        let mut min_w = f64::INFINITY;
        for f in faces.iter() {
            let (a, b, c) = (s(&verts[f[0] as usize]), s(&verts[f[1] as usize]), s(&verts[f[2] as usize]));
            let (u, v) = ((b.0 - a.0, b.1 - a.1, b.2 - a.2), (c.0 - a.0, c.1 - a.1, c.2 - a.2));
            let n = (u.1 * v.2 - u.2 * v.1, u.2 * v.0 - u.0 * v.2, u.0 * v.1 - u.1 * v.0);
            let g = ((a.0 + b.0 + c.0) / 3.0, (a.1 + b.1 + c.1) / 3.0);
            let (ln, lg) = ((n.0 * n.0 + n.1 * n.1 + n.2 * n.2).sqrt(), (g.0 * g.0 + g.1 * g.1).sqrt());
            // the normal of the stored winding makes an angle of less than ~84 degrees with the radial direction at the face
            if !(ln > 0.0 && lg > 0.0 && (n.0 * g.0 + n.1 * g.1) > 0.1 * ln * lg) { out_ok = false; }
            let (pa, pb, pc) = (verts[f[0] as usize], verts[f[1] as usize], verts[f[2] as usize]);
            min_w = min_w.min((pb - pa).cross(&(pc - pa)).norm());
        }
        r.check(out_ok, "generators: the stored winding of every face gives an outward normal", desc);
        if min_w > 1e-12 {
            let lib_ok = match m.get_face_normals() {
                Err(_) => false,
                Ok(ns) => ns.len() == faces.len() && ns.iter().zip(faces.iter()).all(|(n, f)| {
                    let (a, b, c) = (verts[f[0] as usize], verts[f[1] as usize], verts[f[2] as usize]);
                    let g = (a.coords + b.coords + c.coords) / 3.0;
                    let radial = ((g.x - cx).powi(2) + (g.y - cy).powi(2)).sqrt();
                    close(n.norm(), 1.0) && (n.x * (g.x - cx) + n.y * (g.y - cy)) / radial > 0.5
                }),
            };
            r.check(lib_ok, "generators: get_face_normals returns one outward unit normal per face", desc);
        }
        // the mesh clauses on the generated tube (all sizes): edge table, two rim loops, one patch, patch boundaries
        if steps > 16 && (k % 7 == 0 || steps >= 1000) {
            check_mesh_large(r, p, &verts.to_vec(), &faces.to_vec(), &label, false);
            let loops = m.calc_edges().map(|e| e.boundary_loops.iter().map(|l| l.len()).collect::<Vec<_>>()).unwrap_or_default();
            r.check(loops == vec![steps, steps] && m.get_patches().len() == 1, "generators: the cylinder wall is one patch with two rim loops of `steps` vertices", || format!("{} loops {:?}", label, loops));
        }
    }
}

// ------------------------------------------------------------------------------------------------ (q) edge lengths: more magnitudes
fn run_far_meshes_w5(r: &mut Report, p: &Progress) {
    let mut k = 0i64;
    // tiny and huge extents at the origin; moderate pitches very far from the origin (1e7 .. 1e8)
    let mut cases: Vec<(f64, (f64, f64, f64))> = Vec::new();
    for pitch in [1.0e-9, 1.0e-7, 1024.0, 1.0e6] { cases.push((pitch, (0.0, 0.0, 0.0))); }
    for pitch in [0.0009765625, 0.3, 1.0, 1024.0] { cases.push((pitch, (1.0e8, -1.0e8, 1.0e7))); cases.push((pitch, (-33554432.0, 16777216.0, 1.0e8))); }
    for (pitch, off) in cases { for (nx, ny) in [(1u32, 1u32), (4, 3)] {
        k += 1; p.at(&[50, k]);
        let (v, f) = far_grid(nx, ny, pitch, off);
        check_lengths(r, &v, &f, &format!("{}x{} grid of pitch {:?} at offset {:?}", nx, ny, pitch, off));
    } }
    // more than 1000 / 4096 / 10000 edges, near and far
    for (nx, ny) in [(40u32, 30u32), (64, 64)] { for (pitch, off) in [(1.0, (0.0, 0.0, 0.0)), (1.0e-4, (1500.0, -2000.0, 350.0)), (0.3, (123456.789, -98765.4321, 5000.5))] {
        k += 1; p.at(&[51, k]);
        let (v, f) = far_grid(nx, ny, pitch, off);
        check_lengths(r, &v, &f, &format!("{}x{} grid of pitch {:?} at offset {:?}", nx, ny, pitch, off));
    } }
    // generators with asymmetric tiny / huge sizes, moved far away
    for off in [(0.0, 0.0, 0.0), (1.0e7, -1.0e7, 5.0e6)] { for (a, b, c) in [(1.0e-3, 2.0, 3.0e3), (5.0e3, 0.25, 0.125), (7.0, 7.0, 7.0)] {
        k += 1; p.at(&[52, k]);
        let bx = Mesh::create_box(a, b, c, true);
        let v: Vec<Point3> = bx.vertices().iter().map(|q| Point3::new(q.x + off.0, q.y + off.1, q.z + off.2)).collect();
        check_lengths(r, &v, &bx.faces().to_vec(), &format!("create_box({:?}, {:?}, {:?}) moved by {:?}", a, b, c, off));
        let cy = Mesh::create_cylinder(a.max(0.5), c, 1025);
        let v: Vec<Point3> = cy.vertices().iter().map(|q| Point3::new(q.x + off.0, q.y + off.1, q.z + off.2)).collect();
        check_lengths(r, &v, &cy.faces().to_vec(), &format!("create_cylinder({:?}, {:?}, 1025) moved by {:?}", a.max(0.5), c, off));
    } }
}

pub fn run() -> Option<Report> {
    let mut r = Report::new("chained_indices: every list of <= 4 pairs over vertex ids 0..5 (406901 lists); clusters_from_sparse: every subset of a 2x2x2 block, a 3x3x1 slab and a 2x2x3 block of voxels (4864 sets, each twice); Mesh::calc_edges / get_patches / get_patch_boundary_points: every ordered list of <= 3 faces over 5 vertices that is consistently wound and free of vertex-only contacts, 11 larger hand-built meshes of that class in 6 storage variants each, create_box (4 sizes) and create_cylinder (steps 3..=16, 2 sizes), repeated 2-3 times per mesh for hash order; every <= 3 face list with an edge in three faces must be refused; each group under a progress watchdog (6 s per input). Vertex-only contacts and inconsistent winding: see ROUND 4 and D7 below (patch boundaries are not evaluated on them). Edge lengths to relative 1e-12 on grids (1x1, 4x3, 12x9), boxes and 12-step cylinders of pitch 5e-6 .. 1 at 5 offsets up to 1e6 from the origin. get_patches on ANY face list (partition and edge-connected patches always, maximality when no directed edge occurs twice): all lists of <= 2 faces over 5 vertices x 64 calls, 3-face lists starting with [0,1,2] / [0,2,1] x 8 calls, box / cylinder / grid / strip / tetrahedron with single faces, pairs, every other and all faces flipped x 64 calls. chained_indices on 1..12 separate chains / closed loops of 1..9 links in 4 storage orders. ROUND 4: the hand-built meshes (+ a disk around the LAST vertex, a 4x4 grid) also with the vertex numbering reversed and with the interior vertices numbered last (lexicographically last edge interior); calc_edges on INCONSISTENTLY wound meshes whose boundary edges still give every boundary vertex one successor and one predecessor (closed surfaces with any faces flipped, disks with flipped interior faces): every such ordered list of 3 faces over 5 vertices and of 4 faces over 4 vertices, boxes / tetrahedron / octahedron / both / 3x3, 4x4, 5x3-with-holes grids with single faces, pairs, every 2nd, every 3rd and the first half of the faces flipped, in 2 storage variants: edge table produced (not Err), each undirected edge once with its length, face -> edges, boundary loops; LARGE vertex ids: two vertex-disjoint faces over a 70000-vertex list (3 first faces x every ordered triple of 8 ids on both sides of 2^16, incl. ids that collide when two ids are packed with a 16-bit shift) and two separate 40-face strips on ids 0.. and {65500, 65530, 65536, 69000}..: all clauses of the mesh group (edge table, patches, patch boundaries); D7 (repaired): calc_edges returns Err (and returns: 6 s watchdog) when no edge is in more than two faces but the boundary edges do not form closed loops - bow-ties, two grids sharing a corner, fins touching a grid at one vertex, 3x3 / 5x3-with-holes grids, a cylinder and an open box with single faces, pairs, every 2nd and the first half of the faces flipped (those outside class G), and every ordered list of 2 / 3 faces over 5 vertices outside class G. WAVE 5: index_vec (None x 18 lengths up to 65537, Some x 9 lists x 6 len); chained_indices on chains / closed loops of 31 .. 4097 links on vertex ids up to u32::MAX in 5 storage orders, every list of <= 3 pairs over {0, 1, 65536, u32::MAX - 1, u32::MAX}, 1100 / 4100 / 1030 separate chains, chains with branches; clusters_from_sparse on voxel pairs at every offset of [-3,3]^3 from 8 bases up to |coordinate| = i32::MAX - 1, voxels 2^k apart (k = 4 .. 30) listed twice, clusters of up to 5000 voxels, up to 1500 clusters; mesh clauses with sort-based oracles on 13 meshes of up to 46812 faces / 70530 edges / 1100 components / boundary loops of 4202 vertices in 3 storage variants and reversed numbering, class G and Err verdicts at that scale; total calc_edges verdict + patch clauses on every list [0,1,2] + 3 faces over 5 vertices (34220) and [0,1,2] + 2 ordered faces over 6 vertices (14400), Moebius band, projective plane, tetrahedra sharing a vertex / an edge, touching holes, coincident positions; faces with a repeated vertex (<= 2 faces over 4 vertices, 3-face lists with 5 first faces): calls return, every face in one patch; create_box on every ordered triple of 8 sizes 1e-9 .. 1e8 x is_solid; create_cylinder on 7 radii x 6 heights x 18 step counts, steps 3 ..= 70, and up to 32769 steps; edge lengths for pitches 1e-9 .. 1e6, offsets up to 1e8, up to 12416 edges");
    guarded(&mut r, "chaining", "pairs (flattened)", run_chains);
    guarded(&mut r, "voxels", "voxels (flattened x,y,z)", run_voxels);
    guarded(&mut r, "mesh", "faces (flattened)", run_small_meshes);
    guarded(&mut r, "mesh", "faces (flattened)", run_built_meshes);
    guarded(&mut r, "generators", "generator case", run_generators);
    guarded(&mut r, "edge lengths", "case id", run_far_meshes);
    guarded(&mut r, "patches (any winding)", "faces (flattened)", run_flipped_meshes);
    guarded(&mut r, "mesh (inconsistent winding)", "faces (flattened)", run_inconsistent_meshes);
    guarded(&mut r, "mesh (large vertex ids)", "case id", run_large_ids);
    // LAST: on a tree without the D7 repair the first input of this group never returns
    guarded(&mut r, "mesh (boundary edges do not form closed loops)", "faces (flattened)", run_open_boundaries);
    guarded(&mut r, "chaining", "k chains / links / closed / storage order", run_many_chains);
    // WAVE 5
    guarded(&mut r, "index_vec", "case id", run_index_vec);
    guarded(&mut r, "chaining (long lists, large ids)", "case id", run_long_chains);
    guarded(&mut r, "voxels (large coordinates, large sets)", "case id / voxels", run_far_voxels);
    if VOXEL_FULL_RANGE { guarded(&mut r, "[defect: voxel at the end of the i32 range] clusters_from_sparse", "case id / first voxel", run_voxel_range_ends); }
    guarded(&mut r, "mesh (thousands of faces)", "case id", run_large_meshes);
    guarded(&mut r, "mesh (total verdict)", "faces (flattened)", run_total_small);
    guarded(&mut r, "mesh (degenerate faces)", "faces (flattened)", run_degenerate);
    guarded(&mut r, "generators (every parameter)", "case id", run_generator_params);
    guarded(&mut r, "edge lengths (more magnitudes)", "case id", run_far_meshes_w5);
    Some(r)
}
