//! C08 bounded native checks (not written yet)
use super::Report;
pub fn run() -> Option<Report> { None }
