//! C08 bounded: alignment parameters round-trip and Jacobians are true derivatives -- evaluated on the REAL code.
//! NOT a proof: "Jacobian entry == derivative" is decided here only by finite differences on an enumerated grid
//! (testing-grade evidence, labelled bounded, never counted as a discharged obligation).
//!
//! (a) PARAMETERS.  2D: 23 rotation angles (0, +-1e-9, +-0.3, +-1, +-pi/2, +-100, +-135, +-170, +-175 degrees,
//!     +-(pi - 1e-9), +-pi) x 4 translations (up to 1e3) x 4 rotation centres (up to 1e3 from the origin).  3D: Euler
//!     triples roll x pitch x yaw (6 x 27 x 5; pitch exactly +-pi/2, within 1e-9 / 1e-8 / 1e-6 / 1e-4 / 1e-3 of +-pi/2 on both sides,
//!     beyond +-90 degrees; roll / yaw at and within 1e-9 / 1e-6 of +-pi), composed BOTH as Rx*Ry*Rz (engeom's order,
//!     where to_wpr's gimbal branches live) and as nalgebra's from_euler_angles (Rz*Ry*Rx, where nalgebra's
//!     euler_angles branches live) x 3 translations (up to 1e3) x 3 rotation centres (up to 1e3 from the origin).
//!     Clauses: iso -> params -> iso is the identity (matrix entries within 1e-9); RcParams2/3::from_initial(t, rc)
//!     .transform() == t; after construction AND after each of a sequence of set() calls (angles beyond +-pi, pitch
//!     exactly +-pi/2, translations up to 500): x() is the vector set, transform * p == rc' + t + R(angles)(p - rc)
//!     recomputed by hand from the parameters (rc' = initial * rc), transform * inverse == identity, current_rc ==
//!     transform * rc, the stored rotation(s) belong to the same parameters; a pure-translation parameter change
//!     translates every probe point by exactly that vector.  ParamHandler (multi-body): p_index, set_param /
//!     get_transform / relative_transform / set_jacobian against the same hand-made oracle.
//! (b) JACOBIANS.  Every analytic entry vs the 4th-order CENTRAL finite difference (step 1e-4) of the corresponding
//!     residual w.r.t. that parameter, tolerance 1e-6 * (1 + |entry|): 2D point_surface_jacobian (signed distance to the
//!     line), 3D point_plane_jacobian (|n.(T p - c)|), point_plane_jacobian_rev (the REFERENCE moves; surface point =
//!     foot of the perpendicular from the test point, as the callers supply it), point_point_jacobian (|T p - c|), over
//!     poses with starting transforms up to 1e3 away / rotations up to 170 degrees / pitch exactly pi/2, rotation
//!     centres up to 1e3 from the origin, the state as constructed and after a set(), test points 3.7 .. 39 from the
//!     moved centre, planes / lines in general position at distance >= 0.75, point pairs >= 2 apart (the
//!     non-differentiable configurations -- zero distance, a sign change inside the stencil -- are excluded).
//!     Euler derivative matrices: RotationMatrices::from_euler over {-2.5, -pi/2, -0.4, 0, 0.3, pi/2, 3}^3: q == Rx*Ry*Rz
//!     built by hand from sin / cos, d.k == finite difference of that matrix w.r.t. angle k, rd.k == d.k * R^T (1e-7).
use super::Report;
use crate::geom2::align2::{iso2_from_param, param_from_iso2, RcParams2};
use crate::geom2::{Iso2, Point2, SurfacePoint2, Vector2};
use crate::geom3::align3::jacobian::{point_plane_jacobian, point_plane_jacobian_rev, point_point_jacobian};
use crate::geom3::align3::multi_param::ParamHandler;
use crate::geom3::align3::{iso3_from_param, param_from_iso3, RcParams3, RotationMatrices};
use crate::geom3::{Iso3, Point3, SurfacePoint3, Vector3};
use parry3d_f64::na::{self, DMatrix, DVector, Matrix3, Translation2, Translation3, UnitComplex, UnitQuaternion, Vector6};
use std::f64::consts::{FRAC_PI_2, PI};

/// matrix-entry tolerance of the parameter clauses (translation entries relative to 1 + the size of the configuration)
const TOL_RT: f64 = 1e-9;
/// Jacobian entry vs finite difference: |a - fd| <= TOL_J * (1 + |a|)
const TOL_J: f64 = 1e-6;
/// Euler derivative matrices vs finite difference of the hand-made rotation matrix
const TOL_D: f64 = 1e-7;
/// finite-difference step (4th-order central stencil: x -2h, -h, +h, +2h)
const H: f64 = 1e-4;

// ------------------------------------------------------------------------------------------------ measuring aid
// VERIF_C08_MEASURE=1 prints the largest error seen per clause to stderr (how the tolerances were chosen).
struct Meter { on: bool, max: Vec<(String, f64, String)> }
impl Meter {
    fn new() -> Self { Meter { on: std::env::var("VERIF_C08_MEASURE").is_ok(), max: vec![] } }
    fn see<F: FnOnce() -> String>(&mut self, what: &str, e: f64, input: F) {
        if !self.on { return; }
        if let Some(m) = self.max.iter_mut().find(|m| m.0 == what) {
            if e > m.1 || e.is_nan() { m.1 = e; m.2 = input(); }
        } else { self.max.push((what.to_string(), e, input())); }
    }
    fn dump(&self) { if self.on { for m in &self.max { eprintln!("C08-MEASURE {:.3e}  {}  @ {}", m.1, m.0, m.2); } } }
}
struct Ctx { r: Report, m: Meter }
impl Ctx {
    /// one clause: error measure e must be <= tol (NaN fails)
    fn le<F: Fn() -> String>(&mut self, e: f64, tol: f64, what: &str, input: F) {
        self.m.see(what, e, &input);
        self.r.check(e <= tol, what, || format!("{} | error {:.3e} > {:.1e}", input(), e, tol));
    }
}

// ------------------------------------------------------------------------------------------------ 2D helpers
fn iso2(tx: f64, ty: f64, a: f64) -> Iso2 { Iso2::from_parts(Translation2::new(tx, ty), UnitComplex::new(a)) }
fn err_iso2(a: &Iso2, b: &Iso2, scale: f64) -> f64 {
    let (ma, mb) = (a.to_homogeneous(), b.to_homogeneous());
    let mut e: f64 = 0.0;
    for i in 0..2 { for j in 0..2 { e = e.max((ma[(i, j)] - mb[(i, j)]).abs()); } }
    for i in 0..2 { e = e.max((ma[(i, 2)] - mb[(i, 2)]).abs() / (1.0 + scale)); }
    if ma.iter().chain(mb.iter()).any(|v| !v.is_finite()) { f64::NAN } else { e }
}
fn err_p2(a: &Point2, b: &Point2, scale: f64) -> f64 {
    let e = (a.x - b.x).abs().max((a.y - b.y).abs()) / (1.0 + scale);
    if a.coords.iter().chain(b.coords.iter()).any(|v| !v.is_finite()) { f64::NAN } else { e }
}
fn size2(t: &Iso2, rc: &Point2) -> f64 { t.translation.vector.amax().max(rc.coords.amax()) }
/// the 2D oracle, by hand from the parameters: p -> rc + (x, y) + R(z)(p - rc)
fn oracle2(x: &na::Vector3<f64>, rc: &Point2, p: &Point2) -> Point2 {
    let (s, c) = x.z.sin_cos();
    let v = p - rc;
    Point2::new(rc.x + x.x + c * v.x - s * v.y, rc.y + x.y + s * v.x + c * v.y)
}

// optional hook: `geom2::align2::verif_point_surface_jacobian` exists in every tree that carries the hook commit
// ("verif hook: guarded re-export of the private 2D Jacobian row"); on an older tree the 2D Jacobian clause is skipped
// instead of breaking the build of all bounded checks (a glob import inside a block shadows the module-level fallback).
mod hook2 {
    use super::*;
    pub struct Missing;
    pub trait Row { fn row(self) -> Option<[f64; 3]>; }
    impl Row for Missing { fn row(self) -> Option<[f64; 3]> { None } }
    impl Row for na::Vector3<f64> { fn row(self) -> Option<[f64; 3]> { Some([self.x, self.y, self.z]) } }
    pub fn verif_point_surface_jacobian(_p: &Point2, _s: &SurfacePoint2, _q: &RcParams2) -> Missing { Missing }
}
#[allow(unused_imports)]
use hook2::verif_point_surface_jacobian;
fn jac2(p: &Point2, s: &SurfacePoint2, q: &RcParams2) -> Option<[f64; 3]> {
    #[allow(unused_imports)]
    use crate::geom2::align2::*;
    use hook2::Row;
    verif_point_surface_jacobian(p, s, q).row()
}

/// 4th-order central difference of f at 0 with step H
fn fd4<F: Fn(f64) -> f64>(f: F) -> f64 { (f(-2.0 * H) - 8.0 * f(-H) + 8.0 * f(H) - f(2.0 * H)) / (12.0 * H) }

fn angles2() -> Vec<f64> {
    let d = PI / 180.0;
    let mut v = vec![0.0];
    for a in [1e-9, 0.3, 1.0, FRAC_PI_2, 100.0 * d, 135.0 * d, 170.0 * d, 175.0 * d, PI - 1e-9, PI] { v.push(a); v.push(-a); }
    v
}
fn probes2() -> Vec<Point2> { vec![Point2::new(0.0, 0.0), Point2::new(3.0, -1.5), Point2::new(-40.0, 25.0), Point2::new(900.0, 300.0)] }

fn state2(c: &mut Ctx, q: &RcParams2, rc: &Point2, x: &na::Vector3<f64>, scale: f64, tag: &str, inp: &dyn Fn() -> String) {
    let w = |s: &str| format!("2D {}: {}", tag, s);
    let ex = (q.x() - x).amax();
    c.le(ex, 0.0, &w("x() is the parameter vector that was set"), inp);
    c.le(err_p2(q.rc(), rc, 0.0), 0.0, &w("rc() is the rotation centre given"), inp);
    let mut e: f64 = 0.0;
    for p in probes2() { e = e.max(err_p2(&(q.transform() * p), &oracle2(x, rc, &p), scale.max(p.coords.amax()))); }
    c.le(e, TOL_RT, &w("transform is rc + (x, y) + R(z)(p - rc) for the current parameters"), inp);
    c.le(err_iso2(&(q.transform() * q.inverse()), &Iso2::identity(), scale), TOL_RT, &w("transform * inverse is the identity"), inp);
    c.le(err_iso2(&(q.inverse() * q.transform()), &Iso2::identity(), scale), TOL_RT, &w("inverse * transform is the identity"), inp);
    c.le(err_p2(q.current_rc(), &(q.transform() * rc), scale), TOL_RT, &w("current_rc is transform * rc"), inp);
    c.le(err_iso2(q.rotation(), &iso2(0.0, 0.0, x.z), 0.0), TOL_RT, &w("rotation() is the rotation by the current angle"), inp);
}

fn run2(c: &mut Ctx) {
    let trs = [(0.0, 0.0), (3.0, -2.0), (1000.0, -750.0), (-0.125, 640.0)];
    let rcs = [Point2::new(0.0, 0.0), Point2::new(1.5, -2.25), Point2::new(700.0, -700.0), Point2::new(-1000.0, 0.0)];
    let sets = [
        na::Vector3::new(0.5, -0.25, 0.4), na::Vector3::new(-500.0, 250.0, 3.5), na::Vector3::new(0.0, 0.0, -4.0),
        na::Vector3::new(12.0, 7.0, PI), na::Vector3::new(1.0, 2.0, -FRAC_PI_2), na::Vector3::new(0.0, 0.0, 0.0),
    ];
    let shifts = [Vector2::new(1.0, 0.0), Vector2::new(-0.375, 12.5), Vector2::new(300.0, -0.001)];
    for a in angles2() { for (tx, ty) in trs {
        let t = iso2(tx, ty, a);
        c.r.case();
        let inp = || format!("t = translation ({}, {}) after rotation by {:e} rad", tx, ty, a);
        // ---- iso -> params -> iso
        let x = param_from_iso2(&t);
        c.le(err_iso2(&iso2_from_param(&x), &t, 0.0), TOL_RT, "2D: iso2_from_param(param_from_iso2(t)) == t", inp);
        c.r.check(x.z > -PI - 1e-15 && x.z <= PI, "2D: param_from_iso2 returns the principal angle in (-pi, pi]", || format!("{} | angle {:e}", inp(), x.z));
        c.le((x.x - tx).abs().max((x.y - ty).abs()), 0.0, "2D: param_from_iso2 returns the translation in slots 0, 1", inp);
        // ---- params -> iso -> params (angle strictly inside (-pi, pi))
        if a.abs() < PI - 1e-6 {
            let x0 = na::Vector3::new(tx, ty, a);
            let x1 = param_from_iso2(&iso2_from_param(&x0));
            c.le((x1 - x0).amax(), TOL_RT, "2D: param_from_iso2(iso2_from_param(x)) == x for |angle| < pi", inp);
        }
        for rc in rcs.iter() {
            let scale = size2(&t, rc);
            let inp = || format!("initial = translation ({}, {}) after rotation by {:e} rad, rc = ({}, {})", tx, ty, a, rc.x, rc.y);
            let mut q = RcParams2::from_initial(&t, rc);
            c.le(err_iso2(q.transform(), &t, scale), TOL_RT, "2D: RcParams2::from_initial(initial, rc).transform() == initial", inp);
            c.le(err_p2(q.current_rc(), &(t * rc), scale), TOL_RT, "2D: RcParams2::from_initial: current_rc == initial * rc", inp);
            let x0 = *q.x();
            state2(c, &q, rc, &x0, scale, "RcParams2 as constructed", &inp);
            // a pure-translation parameter change translates by that vector wherever the centre is
            for d in shifts.iter() {
                let mut q2 = q.clone();
                q2.set(&na::Vector3::new(x0.x + d.x, x0.y + d.y, x0.z));
                let mut e: f64 = 0.0;
                for p in probes2() { e = e.max(err_p2(&(q2.transform() * p), &(q.transform() * p + d), scale.max(p.coords.amax()).max(d.amax()))); }
                c.le(e, TOL_RT, "2D: a pure-translation parameter change translates every point by exactly that vector", || format!("{} | shift ({}, {})", inp(), d.x, d.y));
            }
            // a sequence of set() calls: everything derived from x follows
            if (tx == 3.0 || tx == 1000.0) && (a == 0.0 || a.abs() == FRAC_PI_2 || a.abs() > 2.9) {
                for (k, x) in sets.iter().enumerate() {
                    q.set(x);
                    let sc = scale.max(x.x.abs()).max(x.y.abs());
                    let inp2 = || format!("{} | after set #{} x = ({}, {}, {})", inp(), k, x.x, x.y, x.z);
                    state2(c, &q, rc, x, sc, "RcParams2 after set()", &inp2);
                }
            }
        }
    } }
}

fn jacobians2(c: &mut Ctx) {
    let d = PI / 180.0;
    let inits = [iso2(0.0, 0.0, 0.0), iso2(1.0, 1.0, FRAC_PI_2), iso2(1000.0, -750.0, 170.0 * d), iso2(-20.0, 640.0, -2.0), iso2(5.0, 3.0, PI)];
    let rcs = [Point2::new(0.0, 0.0), Point2::new(2.0, 0.0), Point2::new(-600.0, 750.0)];
    let offs = [Vector2::new(1.0, 0.0), Vector2::new(-3.5, 2.0), Vector2::new(12.0, -30.0)];
    let nangs = [0.0, 0.9, 2.4, -1.7, PI];
    let dists = [0.75, -1.5];
    for t in inits.iter() { for rc in rcs.iter() { for moved in [false, true] {
        let mut q = RcParams2::from_initial(t, rc);
        if moved { let x = q.x() + na::Vector3::new(0.5, -0.25, 0.3); q.set(&x); }
        let x0 = *q.x();
        let crc = *q.current_rc();
        for o in offs.iter() { for na_ in nangs { for dd in dists {
            c.r.case();
            let p = crc + o;                                       // the test point, already moved by the current transform
            let n = Vector2::new(na_.cos(), na_.sin());
            let sp = SurfacePoint2::new_normalize(p - n * dd + Vector2::new(-n.y, n.x) * 1.25, n);
            let inp = || format!("initial = ({}, {}, {:e} rad), rc = ({}, {}), after set: {}, p = current_rc + ({}, {}), line normal angle {}, signed distance {}",
                t.translation.vector.x, t.translation.vector.y, t.rotation.angle(), rc.x, rc.y, moved, o.x, o.y, na_, dd);
            let j = match jac2(&p, &sp, &q) { Some(j) => j, None => return };
            let p0 = q.inverse() * p;
            for k in 0..3 {
                let fd = fd4(|h| { let mut q2 = q.clone(); let mut x = x0; x[k] += h; q2.set(&x); sp.scalar_projection(&(q2.transform() * p0)) });
                c.le((j[k] - fd).abs() / (1.0 + j[k].abs()), TOL_J, "2D: point_surface_jacobian entry == central finite difference of the signed distance w.r.t. that parameter", || format!("{} | parameter {} analytic {:e} fd {:e}", inp(), k, j[k], fd));
            }
        } } }
    } } }
}

// ------------------------------------------------------------------------------------------------ 3D helpers
fn rx(a: f64) -> Matrix3<f64> { let (s, c) = a.sin_cos(); Matrix3::new(1.0, 0.0, 0.0, 0.0, c, -s, 0.0, s, c) }
fn ry(a: f64) -> Matrix3<f64> { let (s, c) = a.sin_cos(); Matrix3::new(c, 0.0, s, 0.0, 1.0, 0.0, -s, 0.0, c) }
fn rz(a: f64) -> Matrix3<f64> { let (s, c) = a.sin_cos(); Matrix3::new(c, -s, 0.0, s, c, 0.0, 0.0, 0.0, 1.0) }
/// engeom's composition order (rotations.rs: q = x * y * z)
fn rxyz(a: f64, b: f64, g: f64) -> Matrix3<f64> { rx(a) * ry(b) * rz(g) }
fn qmat(q: &UnitQuaternion<f64>) -> Matrix3<f64> { *q.to_rotation_matrix().matrix() }
fn quat_xyz(a: f64, b: f64, g: f64) -> UnitQuaternion<f64> {
    UnitQuaternion::from_euler_angles(a, 0.0, 0.0) * UnitQuaternion::from_euler_angles(0.0, b, 0.0) * UnitQuaternion::from_euler_angles(0.0, 0.0, g)
}
fn err_m3(a: &Matrix3<f64>, b: &Matrix3<f64>) -> f64 {
    if a.iter().chain(b.iter()).any(|v| !v.is_finite()) { return f64::NAN; }
    (a - b).amax()
}
fn err_iso3(a: &Iso3, b: &Iso3, scale: f64) -> f64 {
    let er = err_m3(&qmat(&a.rotation), &qmat(&b.rotation));
    let et = (a.translation.vector - b.translation.vector).amax() / (1.0 + scale);
    if !et.is_finite() { f64::NAN } else { er.max(et) }
}
fn err_p3(a: &Point3, b: &Point3, scale: f64) -> f64 {
    let e = (a - b).amax() / (1.0 + scale);
    if a.coords.iter().chain(b.coords.iter()).any(|v| !v.is_finite()) { f64::NAN } else { e }
}
/// the 3D oracle, by hand from the parameters: p -> rc_d + (x0, x1, x2) + Rx(x3) Ry(x4) Rz(x5) (p - rc)
fn oracle3(x: &Vector6<f64>, rc: &Point3, rc_d: &Point3, p: &Point3) -> Point3 {
    rc_d + Vector3::new(x[0], x[1], x[2]) + rxyz(x[3], x[4], x[5]) * (p - rc)
}
fn probes3() -> Vec<Point3> { vec![Point3::new(0.0, 0.0, 0.0), Point3::new(3.0, -1.5, 2.0), Point3::new(-40.0, 25.0, 10.0), Point3::new(900.0, 300.0, -500.0)] }

fn rolls() -> Vec<f64> { vec![0.0, 0.4, -2.0, PI - 1e-9, -(PI - 1e-6), PI] }
fn pitches() -> Vec<(f64, u8)> {
    // (pitch, class): 0 general, 1 exactly +-pi/2, 2 within 1e-9 .. 1e-3 of +-pi/2 (either side)
    let mut v = vec![(0.0, 0), (0.7, 0), (-1.2, 0), (2.0, 0), (-2.8, 0)];
    for s in [1.0, -1.0] {
        for e in [1e-6, 1e-9, 1e-3, 1e-4, 1e-8] { v.push((s * (FRAC_PI_2 - e), 2)); v.push((s * (FRAC_PI_2 + e), 2)); }
        v.push((s * FRAC_PI_2, 1));
    }
    v
}
fn yaws() -> Vec<f64> { vec![0.0, -0.9, 2.5, PI - 1e-9, -PI] }
fn class_name(k: u8) -> &'static str { match k { 0 => "general pose", 1 => "pitch exactly +-pi/2", _ => "pitch within 2e-3 of +-pi/2 but not exactly" } }
/// how far a rotation is from gimbal lock, measured on its matrix: (in engeom's order Rx*Ry*Rz, in nalgebra's order Rz*Ry*Rx)
fn gimbal_offsets(m: &Matrix3<f64>) -> (f64, f64) {
    (m[(0, 0)].hypot(m[(0, 1)]).atan2(m[(0, 2)].abs()), m[(0, 0)].hypot(m[(1, 0)]).atan2(m[(2, 0)].abs()))
}

#[allow(clippy::too_many_arguments)]
fn state3(c: &mut Ctx, q: &RcParams3, rc: &Point3, rc_d: &Point3, x: &Vector6<f64>, scale: f64, tag: &str, inp: &dyn Fn() -> String) {
    let w = |s: &str| format!("3D {}: {}", tag, s);
    c.le((q.x() - x).amax(), 0.0, &w("x() is the parameter vector that was set"), inp);
    c.le(err_p3(&q.rc, rc, 0.0), 0.0, &w("rc is the rotation centre given"), inp);
    let mut e: f64 = 0.0;
    for p in probes3() { e = e.max(err_p3(&(q.transform() * p), &oracle3(x, rc, rc_d, &p), scale.max(p.coords.amax()))); }
    c.le(e, TOL_RT, &w("transform is rc' + (x0, x1, x2) + Rx(x3) Ry(x4) Rz(x5) (p - rc) for the current parameters"), inp);
    c.le(err_iso3(&(q.transform() * q.inverse()), &Iso3::identity(), scale), TOL_RT, &w("transform * inverse is the identity"), inp);
    c.le(err_iso3(&(q.inverse() * q.transform()), &Iso3::identity(), scale), TOL_RT, &w("inverse * transform is the identity"), inp);
    c.le(err_p3(q.current_rc(), &(q.transform() * rc), scale), TOL_RT, &w("current_rc is transform * rc"), inp);
    let rot = q.rotations();
    let turn = |a: f64, b: f64| (a.sin() - b.sin()).abs().max((a.cos() - b.cos()).abs());
    c.le(turn(rot.r.x, x[3]).max(turn(rot.r.y, x[4])).max(turn(rot.r.z, x[5])), TOL_RT, &w("rotations().r holds the current Euler angles (modulo a full turn)"), inp);
    c.le(err_m3(&qmat(&rot.q), &rxyz(x[3], x[4], x[5])), TOL_RT, &w("rotations().q is Rx Ry Rz of the current Euler angles"), inp);
    c.le(err_m3(&qmat(&rot.q), &qmat(&q.transform().rotation)), TOL_RT, &w("rotations().q is the rotation of transform"), inp);
    // wave 5: the derivative matrices are derived fields as well (what they must be is the business of the Euler-matrix
    // clauses; here: they belong to the CURRENT angles, not to those of an earlier set())
    let fresh = RotationMatrices::from_euler(x[3], x[4], x[5]);
    let e = err_m3(&rot.d.x, &fresh.d.x).max(err_m3(&rot.d.y, &fresh.d.y)).max(err_m3(&rot.d.z, &fresh.d.z))
        .max(err_m3(&rot.rd.x, &fresh.rd.x)).max(err_m3(&rot.rd.y, &fresh.rd.y)).max(err_m3(&rot.rd.z, &fresh.rd.z));
    c.le(e, 1e-12, &w("rotations().d and rd are the derivative matrices of the current Euler angles"), inp);
}

fn run3(c: &mut Ctx) {
    let trs = [Vector3::new(0.0, 0.0, 0.0), Vector3::new(3.0, -2.0, 0.5), Vector3::new(1000.0, -750.0, 500.0)];
    let rcs = [Point3::new(0.0, 0.0, 0.0), Point3::new(1.5, -2.25, 4.0), Point3::new(600.0, -600.0, 500.0)];
    let sets = [
        Vector6::new(0.5, -0.25, 0.125, 0.3, -0.2, 0.1), Vector6::new(-500.0, 250.0, 100.0, 3.5, 2.0, -4.0), Vector6::new(0.0, 0.0, 0.0, 1.0, FRAC_PI_2, 0.5),
        Vector6::new(1.0, 2.0, 3.0, -0.7, -FRAC_PI_2, 2.0), Vector6::new(12.0, 7.0, -3.0, PI, 0.0, -PI), Vector6::new(0.0, 0.0, 0.0, 0.0, 0.0, 0.0),
    ];
    let shifts = [Vector3::new(1.0, 0.0, 0.0), Vector3::new(-0.375, 12.5, 2.0), Vector3::new(300.0, -0.001, -45.0)];
    for roll in rolls() { for (pitch, class) in pitches() { for yaw in yaws() { for conv in 0..2 {
        // conv 0: engeom's order Rx(roll) Ry(pitch) Rz(yaw); conv 1: nalgebra's from_euler_angles = Rz(yaw) Ry(pitch) Rx(roll)
        let rot = if conv == 0 { quat_xyz(roll, pitch, yaw) } else { UnitQuaternion::from_euler_angles(roll, pitch, yaw) };
        let cn = if conv == 0 { "Rx*Ry*Rz" } else { "Rz*Ry*Rx" };
        // the gimbal class of THIS rotation in each of the two Euler orders (exact only where the pitch was given exactly)
        let (de, dn) = gimbal_offsets(&qmat(&rot));
        let cl = class_name(if conv == 0 && class == 1 { 1 } else if de < 2e-3 { 2 } else { 0 });
        let cl_n = if (conv == 1 && class == 1) || dn < 2e-3 { "nalgebra pitch at or within 2e-3 of +-pi/2" } else { "general pose" };
        // ---- the Euler extraction alone
        c.r.case();
        let inpq = || format!("rotation = {} of (roll {:e}, pitch {:e}, yaw {:e})", cn, roll, pitch, yaw);
        let back = RotationMatrices::from_rotation(&rot);
        c.le(err_m3(&qmat(&back.q), &qmat(&rot)), TOL_RT, &format!("3D Euler extraction ({}): RotationMatrices::from_rotation(q).q == q", cl), inpq);
        for tr in trs.iter() {
            let t = Iso3::from_parts(Translation3::from(*tr), rot);
            let inp = || format!("t = translation ({}, {}, {}) after {}", tr.x, tr.y, tr.z, inpq());
            // ---- iso -> params -> iso (nalgebra's Euler conversions)
            let x = param_from_iso3(&t);
            c.le(err_iso3(&iso3_from_param(&x), &t, 0.0), TOL_RT, &format!("3D ({}): iso3_from_param(param_from_iso3(t)) == t", cl_n), inp);
            c.le((x[0] - tr.x).abs().max((x[1] - tr.y).abs()).max((x[2] - tr.z).abs()), 0.0, "3D: param_from_iso3 returns the translation in slots 0, 1, 2", inp);
            for rc in rcs.iter() {
                if tr.x == 3.0 && rc.x == 1.5 && class == 0 && conv == 1 { continue; }
                let scale = tr.amax().max(rc.coords.amax());
                let inp = || format!("initial = translation ({}, {}, {}) after {}, rc = ({}, {}, {})", tr.x, tr.y, tr.z, inpq(), rc.x, rc.y, rc.z);
                let q = RcParams3::from_initial(&t, rc);
                let rc_d = t * rc;
                c.le(err_iso3(q.transform(), &t, scale), TOL_RT, &format!("3D ({}): RcParams3::from_initial(initial, rc).transform() == initial", cl), inp);
                c.le(err_p3(q.current_rc(), &rc_d, scale), TOL_RT, "3D: RcParams3::from_initial: current_rc == initial * rc", inp);
                let x0 = *q.x();
                state3(c, &q, rc, &rc_d, &x0, scale, "RcParams3 as constructed", &inp);
                if class == 2 && roll != 0.4 { continue; }
                for d in shifts.iter() {
                    let mut q2 = q.clone();
                    q2.set(&(x0 + Vector6::new(d.x, d.y, d.z, 0.0, 0.0, 0.0)));
                    let mut e: f64 = 0.0;
                    for p in probes3() { e = e.max(err_p3(&(q2.transform() * p), &(q.transform() * p + d), scale.max(p.coords.amax()).max(d.amax()))); }
                    c.le(e, TOL_RT, "3D: a pure-translation parameter change translates every point by exactly that vector", || format!("{} | shift ({}, {}, {})", inp(), d.x, d.y, d.z));
                    // every derived field (inverse, current_rc, rotation matrices) belongs to the NEW parameter vector as well
                    let xs = x0 + Vector6::new(d.x, d.y, d.z, 0.0, 0.0, 0.0);
                    let inp3 = || format!("{} | translation-only set, shift ({}, {}, {})", inp(), d.x, d.y, d.z);
                    state3(c, &q2, rc, &rc_d, &xs, scale.max(d.amax()), "RcParams3 after a translation-only set()", &inp3);
                    // ... and after a second one straight back (two fast-path updates in a row)
                    q2.set(&x0);
                    state3(c, &q2, rc, &rc_d, &x0, scale.max(d.amax()), "RcParams3 after a translation-only set() and back", &inp3);
                }
                if conv == 0 && (roll == 0.4 || roll == PI) && (yaw == -0.9 || yaw == -PI) && class != 2 {
                    let mut q = q.clone();
                    for (k, x) in sets.iter().enumerate() {
                        q.set(x);
                        let sc = scale.max(x.fixed_rows::<3>(0).amax());
                        let inp2 = || format!("{} | after set #{} x = {:?}", inp(), k, x.as_slice());
                        state3(c, &q, rc, &rc_d, x, sc, "RcParams3 after set()", &inp2);
                    }
                }
            }
        }
    } } } }
}

fn euler_matrices(c: &mut Ctx) {
    euler_grid(c, &[-2.5, -FRAC_PI_2, -0.4, 0.0, 0.3, FRAC_PI_2, 3.0]);
    // wave 5: beyond a full / half turn, at +-pi, and 1e-8 from the identity
    euler_grid(c, &[-7.0, -PI, -1e-8, 1e-8, 4.0, PI]);
}
fn euler_grid(c: &mut Ctx, g: &[f64]) {
    for &a in g { for &b in g { for &gm in g {
        c.r.case();
        let inp = || format!("from_euler({:e}, {:e}, {:e})", a, b, gm);
        let m = RotationMatrices::from_euler(a, b, gm);
        let r = rxyz(a, b, gm);
        c.le((m.r.x - a).abs().max((m.r.y - b).abs()).max((m.r.z - gm).abs()), 0.0, "Euler matrices: r holds the three angles in order", inp);
        c.le(err_m3(&qmat(&m.q), &r), TOL_RT, "Euler matrices: q is Rx(rx) * Ry(ry) * Rz(rz)", inp);
        let ds = [&m.d.x, &m.d.y, &m.d.z];
        let rds = [&m.rd.x, &m.rd.y, &m.rd.z];
        for k in 0..3 {
            let f = |h: f64| { let mut e = [a, b, gm]; e[k] += h; rxyz(e[0], e[1], e[2]) };
            let fd = (f(-2.0 * H) - f(-H) * 8.0 + f(H) * 8.0 - f(2.0 * H)) / (12.0 * H);
            c.le(err_m3(ds[k], &fd), TOL_D, "Euler matrices: d.k == central finite difference of the rotation matrix w.r.t. angle k", || format!("{} | k = {}", inp(), k));
            c.le(err_m3(rds[k], &(fd * r.transpose())), TOL_D, "Euler matrices: rd.k == (dR/d angle k) * R^-1", || format!("{} | k = {}", inp(), k));
        }
    } } }
}

fn jacobians3(c: &mut Ctx) {
    let inits = [
        Iso3::identity(),
        Iso3::from_parts(Translation3::new(8.0, -5.0, -6.0), UnitQuaternion::from_euler_angles(-0.2, 0.3, 0.5)),
        Iso3::from_parts(Translation3::new(1000.0, -800.0, 600.0), quat_xyz(2.5, -1.0, -2.9)),
        Iso3::from_parts(Translation3::new(-300.0, 40.0, 900.0), quat_xyz(0.1, 1.3, 3.0)),
        Iso3::from_parts(Translation3::new(2.0, 1.0, -4.0), quat_xyz(0.6, FRAC_PI_2, 0.0)),
    ];
    let rcs = [Point3::new(0.0, 0.0, 0.0), Point3::new(-1.0, -2.0, 3.0), Point3::new(500.0, -600.0, 300.0)];
    let offs = [Vector3::new(1.0, 2.0, 3.0), Vector3::new(-7.5, 4.0, 0.5), Vector3::new(20.0, -15.0, 30.0)];
    let normals = [Vector3::new(1.0, 1.0, 1.0), Vector3::new(0.0, 0.0, 1.0), Vector3::new(-2.0, 1.0, 0.5), Vector3::new(0.3, -1.0, -0.2)];
    let dists = [0.75, -1.5];
    let pp = [Vector3::new(1.0, -2.0, 0.5), Vector3::new(0.0, 0.0, 3.0), Vector3::new(-4.0, 2.0, 1.0)];
    for (ti, t) in inits.iter().enumerate() { for rc in rcs.iter() { for moved in [false, true] {
        let mut q = RcParams3::from_initial(t, rc);
        if moved { let x = q.x() + Vector6::new(0.5, -0.25, 0.125, 0.3, -0.2, 0.1); q.set(&x); }
        let x0 = *q.x();
        let crc = *q.current_rc();
        let at = |k: usize, h: f64| -> Iso3 { let mut q2 = q.clone(); let mut x = x0; x[k] += h; q2.set(&x); *q2.transform() };
        let tinv = *q.inverse();
        for o in offs.iter() {
            let p = crc + o;                        // the test point, already moved by the current transform
            let p0 = tinv * p;
            let pose = || format!("initial #{} (translation ({}, {}, {})), rc = ({}, {}, {}), after set: {}, p = current_rc + ({}, {}, {})",
                ti, t.translation.vector.x, t.translation.vector.y, t.translation.vector.z, rc.x, rc.y, rc.z, moved, o.x, o.y, o.z);
            for nv in normals.iter() { for dd in dists {
                c.r.case();
                let n = nv.normalize();
                let tang = n.cross(&Vector3::new(0.1, 0.2, 1.0)).normalize();
                let inp = || format!("{}, plane normal ({}, {}, {}) normalised, signed distance {}", pose(), nv.x, nv.y, nv.z, dd);
                // test side: the plane is fixed, any point of it will do (general position: shifted along the plane)
                let sp = SurfacePoint3::new_normalize(p - n * dd + tang * 1.25, n);
                let j = point_plane_jacobian(&p, &sp, &q);
                for k in 0..6 {
                    let fd = fd4(|h| sp.scalar_projection(&(at(k, h) * p0)).abs());
                    c.le((j[k] - fd).abs() / (1.0 + j[k].abs()), TOL_J, "3D: point_plane_jacobian entry == central finite difference of |n.(T p - c)| w.r.t. that parameter", || format!("{} | parameter {} analytic {:e} fd {:e}", inp(), k, j[k], fd));
                }
                // reference side: the surface point (foot of the perpendicular from p) is moved by the parameters, p is fixed
                let sf = SurfacePoint3::new_normalize(p - n * dd, n);
                let jr = point_plane_jacobian_rev(&p, &sf, &q);
                for k in 0..6 {
                    let fd = fd4(|h| sf.transformed(&(at(k, h) * tinv)).scalar_projection(&p).abs());
                    c.le((jr[k] - fd).abs() / (1.0 + jr[k].abs()), TOL_J, "3D: point_plane_jacobian_rev entry == central finite difference of |n'.(p - c')| w.r.t. that parameter of the REFERENCE", || format!("{} | parameter {} analytic {:e} fd {:e}", inp(), k, jr[k], fd));
                }
            } }
            // close (but not coincident) pairs: the stencil of a finite difference of the DISTANCE would straddle the kink at
            // zero, so the oracle is u . d(T p)/dx_k with u the unit vector from the reference to the point and the derivative of
            // the moved POINT (smooth) taken by finite differences. Below 1e-8 the row is zero by design (not claimed).
            for (vi, v) in pp.iter().enumerate() { for sep in [1e-2, 1e-4, 3.5e-5, 1e-6, 1e-7] {
                c.r.case();
                let cpt = p + v.normalize() * sep;
                // the direction of the pair as it is representable (coordinates up to 1e3: p - cpt carries a rounding error of
                // ~1e-13, which is 1e-6 of the smallest separation; the clause is about the derivative, not about that)
                let u = (p - cpt).normalize();
                let inp = || format!("{}, reference point at distance {:e} from p along direction #{}", pose(), sep, vi);
                let j = point_point_jacobian(&p, &cpt, &q);
                for k in 0..6 {
                    let dp = Vector3::new(fd4(|h| (at(k, h) * p0).x), fd4(|h| (at(k, h) * p0).y), fd4(|h| (at(k, h) * p0).z));
                    let want = u.dot(&dp);
                    c.le((j[k] - want).abs() / (1.0 + j[k].abs()), TOL_J, "3D: point_point_jacobian entry == u . d(T p)/dx for a CLOSE pair (1e-7 <= distance <= 1e-2)", || format!("{} | parameter {} analytic {:e} expected {:e}", inp(), k, j[k], want));
                }
            } }
            for v in pp.iter() {
                c.r.case();
                let cpt = p + v;
                let inp = || format!("{}, reference point = p + ({}, {}, {})", pose(), v.x, v.y, v.z);
                let j = point_point_jacobian(&p, &cpt, &q);
                for k in 0..6 {
                    let fd = fd4(|h| (at(k, h) * p0 - cpt).norm());
                    c.le((j[k] - fd).abs() / (1.0 + j[k].abs()), TOL_J, "3D: point_point_jacobian entry == central finite difference of |T p - c| w.r.t. that parameter", || format!("{} | parameter {} analytic {:e} fd {:e}", inp(), k, j[k], fd));
                }
            }
        }
    } } }
}

fn handler(c: &mut Ctx) {
    let means = vec![Point3::new(1.0, 2.0, 3.0), Point3::new(400.0, -500.0, 600.0), Point3::new(7.0, 8.0, 9.0)];
    let initial = vec![
        Iso3::from_parts(Translation3::new(1.0, 2.0, 3.0), quat_xyz(0.5, 0.6, 0.7)),
        Iso3::from_parts(Translation3::new(-40.0, 50.0, 6.0), quat_xyz(-2.8, FRAC_PI_2, 1.0)),
        Iso3::from_parts(Translation3::new(4.0, 5.0, 6.0), quat_xyz(0.8, -0.9, 3.0)),
    ];
    let ident = vec![Iso3::identity(); 3];
    let raw: Vec<f64> = vec![0.5, -0.25, 0.125, 0.3, -0.2, 0.1, -20.0, 10.0, 5.0, 3.5, FRAC_PI_2, -4.0];
    for static_i in 0..3usize { for with_initial in [false, true] {
        c.r.case();
        let init = if with_initial { &initial } else { &ident };
        let mut h = ParamHandler::new(static_i, means.clone(), if with_initial { Some(&initial[..]) } else { None });
        let inp = || format!("ParamHandler::new(static_i = {}, 3 rotation centres, initial = {})", static_i, if with_initial { "3 rotated isometries" } else { "None" });
        c.r.check(h.params().len() == 12, "handler: two moving bodies have 12 parameters", inp);
        let mut k = 0;
        for i in 0..3 {
            if i != static_i { c.r.check(h.p_index(i) == k, "handler: p_index numbers the moving bodies consecutively", || format!("{} | body {}", inp(), i)); k += 1; }
            let scale = init[i].translation.vector.amax().max(means[i].coords.amax());
            c.le(err_iso3(&h.get_transform(i), &init[i], scale), TOL_RT, if with_initial { "handler: get_transform(i) after new(.., Some(initial)) is the initial isometry of body i" } else { "handler: get_transform(i) after new(.., None) is the identity" }, || format!("{} | body {}", inp(), i));
        }
        let x = DVector::from_vec(raw.clone());
        h.set_param(&x);
        c.le((h.params() - &x).amax(), 0.0, "handler: params() is the vector that was set", inp);
        for i in 0..3 {
            let scale = init[i].translation.vector.amax().max(means[i].coords.amax()).max(20.0);
            let rc_d = init[i] * means[i];
            if i == static_i {
                c.le(err_iso3(&h.get_transform(i), &init[i], scale), TOL_RT, "handler: set_param leaves the static body at its initial isometry", || format!("{} | body {}", inp(), i));
            } else {
                let b = h.p_index(i) * 6;
                let xi = Vector6::new(raw[b], raw[b + 1], raw[b + 2], raw[b + 3], raw[b + 4], raw[b + 5]);
                let mut e: f64 = 0.0;
                for p in probes3() { e = e.max(err_p3(&(h.get_transform(i) * p), &oracle3(&xi, &means[i], &rc_d, &p), scale.max(p.coords.amax()))); }
                c.le(e, TOL_RT, "handler: after set_param body i moves by its own block of six parameters", || format!("{} | body {}", inp(), i));
            }
        }
        for a in 0..3 { for b in 0..3 {
            let rel = h.relative_transform(a, b);
            let mut e: f64 = 0.0;
            for p in probes3() { e = e.max(err_p3(&(h.get_transform(b) * (rel * p)), &(h.get_transform(a) * p), 1000.0)); }
            c.le(e, TOL_RT, "handler: relative_transform(test, ref) == transform(ref)^-1 * transform(test)", || format!("{} | test {} ref {}", inp(), a, b));
        } }
        let vals = Vector6::new(1.0, 2.0, 3.0, 4.0, 5.0, 6.0);
        for i in 0..3 {
            let mut m = DMatrix::<f64>::zeros(2, 12);
            h.set_jacobian(&mut m, 1, i, &vals);
            let mut want = DMatrix::<f64>::zeros(2, 12);
            if i != static_i { for j in 0..6 { want[(1, h.p_index(i) * 6 + j)] = vals[j]; } }
            c.le((m - want).amax(), 0.0, "handler: set_jacobian writes the six values into the columns of that body (nothing for the static body)", || format!("{} | body {}", inp(), i));
        }
    } }
}

pub fn run() -> Option<Report> {
    let mut c = Ctx {
        r: Report::new("2D: 23 angles (0, +-1e-9 .. +-175 deg, +-(pi-1e-9), +-pi) x 4 translations x 4 rotation centres (<= 1e3); 3D: 6 rolls x 27 pitches (exactly / within 1e-9, 1e-8, 1e-6, 1e-4, 1e-3 of +-pi/2 on both sides, beyond 90 deg) x 5 yaws (at / near +-pi) in both composition orders x 3 translations x 3 centres (<= 1e3); set() sequences of 6 vectors; Jacobians: 5 starting transforms (up to 1e3 away) x 3 centres x 2 states x 3 test points x planes / lines / point pairs in general position, every parameter index, 4th-order central differences with step 1e-4, tolerance 1e-6 relative; Euler matrices on a 7^3 grid; parameter clauses within 1e-9; wave 5: every parameter changed alone (by 0.25, -1e-3, 1e-8) and the same set() repeated from 5 states x 3 centres in 2D and 3D at an absolute 1e-9, near-identity initial isometries (1e-8) with centres 1e3 away, starting translations 1e-12 .. 1e8, Jacobians with lever arms 1e3 / 1e-3 / 0 after sequences of set() and at near-identity poses, Euler matrices on {-7, -pi, +-1e-8, 4, pi}^3, copy_jacobian (3D) into pre-filled dynamic and fixed matrices, ParamHandler with 1 / 2 / 5 bodies under repeated, partial, 1e-8 and reverting set_param"),
        m: Meter::new(),
    };
    run2(&mut c);
    jacobians2(&mut c);
    run3(&mut c);
    euler_matrices(&mut c);
    jacobians3(&mut c);
    handler(&mut c);
    wave5(&mut c);
    c.m.dump();
    Some(c.r)
}

// ------------------------------------------------------------------------------------------------ wave 5
// Parameter-space audit (notes/w5_audit_C08.md).
// * SEQUENCES: every parameter index changed ALONE (by 0.25, by -1e-3 and by 1e-8), the same vector set again (a no-op
//   update), from three states each in 2D and 3D; every derived field is compared at an ABSOLUTE 1e-9 (the relative
//   tolerance of the clauses above would hide an effect of 1e-8 at a configuration of size 1e3).
// * MAGNITUDES: near-identity initial isometries (1e-8 rad, 1e-8 translation) with a rotation centre 1e3 away (long lever
//   arm), at the same absolute tolerance; starting translations of 1e6 .. 1e8; translations of 1e-9.
// * JACOBIANS: lever arms of 1e3, 1e-3 and exactly zero (test point at the current rotation centre), poses reached by a
//   sequence of set() calls and near-identity poses.
// * copy_jacobian (3D; the 2D one is private to geom2::align2 and reachable only through points_to_curve, see C07):
//   the six entries land in parameter order in the given row, every other entry of the matrix is untouched.
// * ParamHandler with 1, 2 and 5 bodies, repeated / partial / reverting set_param, set_jacobian into a pre-filled matrix.
fn wave5(c: &mut Ctx) {
    w5_translations(c);
    w5_seq2(c);
    w5_seq3(c);
    w5_jac2(c);
    w5_jac3(c);
    w5_copy(c);
    w5_handler(c);
}

fn w5_translations(c: &mut Ctx) {
    let d = PI / 180.0;
    for (tx, ty, tz) in [(1.0e8, -1.0e6, 3.0e7), (1.0e-9, -1.0e-12, 0.0), (-1.0e6, 1.0e-9, 1.0e3)] {
        for a in [0.0, 1e-8, -0.3, 100.0 * d, -175.0 * d, PI] {
            c.r.case();
            let t = iso2(tx, ty, a);
            let inp = || format!("t = translation ({:e}, {:e}) after rotation by {:e} rad", tx, ty, a);
            let x = param_from_iso2(&t);
            c.le(err_iso2(&iso2_from_param(&x), &t, 0.0), TOL_RT, "2D: iso2_from_param(param_from_iso2(t)) == t", inp);
            c.le((x.x - tx).abs().max((x.y - ty).abs()), 0.0, "2D: param_from_iso2 returns the translation in slots 0, 1", inp);
            for rc in [Point2::new(1.5, -2.25), Point2::new(-1000.0, 1000.0)] {
                let inp = || format!("initial = translation ({:e}, {:e}) after rotation by {:e} rad, rc = ({}, {})", tx, ty, a, rc.x, rc.y);
                let q = RcParams2::from_initial(&t, &rc);
                let scale = size2(&t, &rc);
                c.le(err_iso2(q.transform(), &t, scale), TOL_RT, "2D: RcParams2::from_initial(initial, rc).transform() == initial", inp);
                let x0 = *q.x();
                state2(c, &q, &rc, &x0, scale, "RcParams2 as constructed", &inp);
            }
        }
        for (ro, pi, ya) in [(0.0, 0.0, 0.0), (0.4, 0.7, -0.9), (-2.0, -1.2, 2.5), (1e-8, -2e-8, 3e-8)] {
            c.r.case();
            let rot = quat_xyz(ro, pi, ya);
            let t = Iso3::from_parts(Translation3::new(tx, ty, tz), rot);
            let inp = || format!("t = translation ({:e}, {:e}, {:e}) after Rx*Ry*Rz of ({:e}, {:e}, {:e})", tx, ty, tz, ro, pi, ya);
            let x = param_from_iso3(&t);
            c.le(err_iso3(&iso3_from_param(&x), &t, 0.0), TOL_RT, "3D (general pose): iso3_from_param(param_from_iso3(t)) == t", inp);
            c.le((x[0] - tx).abs().max((x[1] - ty).abs()).max((x[2] - tz).abs()), 0.0, "3D: param_from_iso3 returns the translation in slots 0, 1, 2", inp);
            for rc in [Point3::new(1.5, -2.25, 4.0), Point3::new(-1000.0, 1000.0, 500.0)] {
                let inp = || format!("initial = translation ({:e}, {:e}, {:e}) after Rx*Ry*Rz of ({:e}, {:e}, {:e}), rc = ({}, {}, {})", tx, ty, tz, ro, pi, ya, rc.x, rc.y, rc.z);
                let q = RcParams3::from_initial(&t, &rc);
                let scale = t.translation.vector.amax().max(rc.coords.amax());
                c.le(err_iso3(q.transform(), &t, scale), TOL_RT, "3D (general pose): RcParams3::from_initial(initial, rc).transform() == initial", inp);
                let x0 = *q.x();
                state3(c, &q, &rc, &(t * rc), &x0, scale, "RcParams3 as constructed", &inp);
            }
        }
    }
}

fn w5_seq2(c: &mut Ctx) {
    let inits = [iso2(3.0, -2.0, 0.4), iso2(1000.0, -750.0, -2.9), iso2(0.0, 0.0, 0.0), iso2(1e-8, -1e-8, 1e-8), iso2(0.0, 0.0, -1e-8)];
    let rcs = [Point2::new(1.5, -2.25), Point2::new(-1000.0, 1000.0), Point2::new(0.0, 0.0)];
    for t in inits.iter() { for rc in rcs.iter() {
        c.r.case();
        let inp0 = || format!("initial = ({:e}, {:e}, {:e} rad), rc = ({}, {})", t.translation.vector.x, t.translation.vector.y, t.rotation.angle(), rc.x, rc.y);
        let mut q = RcParams2::from_initial(t, rc);
        // absolute tolerance: scale 0
        c.le(err_iso2(q.transform(), t, 0.0), TOL_RT, "2D: RcParams2::from_initial(initial, rc).transform() == initial (absolute 1e-9)", inp0);
        let mut x = *q.x();
        state2(c, &q, rc, &x, 0.0, "RcParams2 as constructed (absolute 1e-9)", &inp0);
        for delta in [0.25, 1e-8, -1e-3] { for k in 0..3 {
            let before = *q.transform();
            x[k] += delta;
            q.set(&x);
            let inp = || format!("{} | parameter {} alone changed by {:e}: x = ({:e}, {:e}, {:e})", inp0(), k, delta, x.x, x.y, x.z);
            state2(c, &q, rc, &x, 0.0, "RcParams2 after a single-parameter set() (absolute 1e-9)", &inp);
            // the update must actually arrive: the moved rotation centre / a probe point moves by the expected amount
            let probe = Point2::new(rc.x + 8.0, rc.y - 6.0);
            let moved = (q.transform() * probe - before * probe).norm();
            let want = if k < 2 { delta.abs() } else { 2.0 * 10.0 * (delta.abs() / 2.0).sin() };
            c.le((moved - want).abs() / delta.abs(), 1e-2, "2D: a single-parameter change moves a probe point 10 from the centre by the expected distance", || format!("{} | moved {:e}, expected {:e}", inp(), moved, want));
            q.set(&x);
            state2(c, &q, rc, &x, 0.0, "RcParams2 after the same set() again (absolute 1e-9)", &inp);
        } }
    } }
}

fn w5_seq3(c: &mut Ctx) {
    let inits = [
        Iso3::from_parts(Translation3::new(3.0, -2.0, 0.5), quat_xyz(0.4, 0.7, -0.9)),
        Iso3::from_parts(Translation3::new(1000.0, -750.0, 500.0), quat_xyz(-2.0, -1.2, 2.5)),
        Iso3::identity(),
        Iso3::from_parts(Translation3::new(1e-8, 0.0, -1e-8), quat_xyz(1e-8, -2e-8, 3e-8)),
        Iso3::from_parts(Translation3::new(2.0, 1.0, -4.0), quat_xyz(0.6, FRAC_PI_2, 0.0)),
    ];
    let rcs = [Point3::new(1.5, -2.25, 4.0), Point3::new(-1000.0, 1000.0, 500.0), Point3::new(0.0, 0.0, 0.0)];
    for (ti, t) in inits.iter().enumerate() { for rc in rcs.iter() {
        c.r.case();
        let inp0 = || format!("initial #{} (translation ({:e}, {:e}, {:e})), rc = ({}, {}, {})", ti, t.translation.vector.x, t.translation.vector.y, t.translation.vector.z, rc.x, rc.y, rc.z);
        let mut q = RcParams3::from_initial(t, rc);
        let rc_d = t * rc;
        c.le(err_iso3(q.transform(), t, 0.0), TOL_RT, "3D (general pose): RcParams3::from_initial(initial, rc).transform() == initial (absolute 1e-9)", inp0);
        let mut x = *q.x();
        state3(c, &q, rc, &rc_d, &x, 0.0, "RcParams3 as constructed (absolute 1e-9)", &inp0);
        for delta in [0.25, 1e-8, -1e-3] { for k in 0..6 {
            let before = *q.transform();
            x[k] += delta;
            q.set(&x);
            let inp = || format!("{} | parameter {} alone changed by {:e}: x = {:?}", inp0(), k, delta, x.as_slice());
            state3(c, &q, rc, &rc_d, &x, 0.0, "RcParams3 after a single-parameter set() (absolute 1e-9)", &inp);
            if k < 3 {
                let probe = Point3::new(rc.x + 8.0, rc.y - 6.0, rc.z + 1.0);
                let moved = (q.transform() * probe - before * probe).norm();
                c.le((moved - delta.abs()).abs() / delta.abs(), 1e-2, "3D: a single translation parameter change moves every point by that amount", || format!("{} | moved {:e}", inp(), moved));
            } else {
                // a rotation parameter alone: the centre stays, some probe point 10 away moves
                let stay = (q.transform() * rc - before * rc).norm();
                c.le(stay, 1e-9, "3D: a rotation parameter change leaves the moved rotation centre in place", || format!("{} | centre moved {:e}", inp(), stay));
                let mut far: f64 = 0.0;
                for pr in [Vector3::new(10.0, 0.0, 0.0), Vector3::new(0.0, 10.0, 0.0), Vector3::new(0.0, 0.0, 10.0)] { far = far.max((q.transform() * (rc + pr) - before * (rc + pr)).norm()); }
                c.r.check(far >= 5.0 * delta.abs() && far <= 20.1 * delta.abs().min(1.0), "3D: a rotation parameter change turns the points around the centre by that angle", || format!("{} | largest motion of three probe points 10 from the centre {:e}", inp(), far));
            }
            q.set(&x);
            state3(c, &q, rc, &rc_d, &x, 0.0, "RcParams3 after the same set() again (absolute 1e-9)", &inp);
        } }
    } }
}

fn w5_jac2(c: &mut Ctx) {
    let inits = [iso2(0.0, 0.0, 0.0), iso2(1000.0, -750.0, 2.9), iso2(1e-8, -1e-8, 1e-8)];
    let rcs = [Point2::new(0.0, 0.0), Point2::new(-600.0, 750.0)];
    let offs = [Vector2::new(600.0, -800.0), Vector2::new(0.0, 0.0), Vector2::new(1e-3, -2e-3)];
    let nangs = [0.9, -1.7, PI];
    let dists = [0.75, -1.5];
    for t in inits.iter() { for rc in rcs.iter() { for moved in [false, true] {
        let mut q = RcParams2::from_initial(t, rc);
        if moved {
            for dx in [na::Vector3::new(0.5, -0.25, 0.3), na::Vector3::new(0.0, 0.0, -1.0), na::Vector3::new(-20.0, 0.0, 0.0)] { let x = q.x() + dx; q.set(&x); }
        }
        let x0 = *q.x();
        let crc = *q.current_rc();
        for o in offs.iter() { for na_ in nangs { for dd in dists {
            c.r.case();
            let p = crc + o;
            let n = Vector2::new(na_.cos(), na_.sin());
            let sp = SurfacePoint2::new_normalize(p - n * dd + Vector2::new(-n.y, n.x) * 1.25, n);
            let inp = || format!("initial = ({:e}, {:e}, {:e} rad), rc = ({}, {}), after three set() calls: {}, p = current_rc + ({:e}, {:e}), line normal angle {}, signed distance {}",
                t.translation.vector.x, t.translation.vector.y, t.rotation.angle(), rc.x, rc.y, moved, o.x, o.y, na_, dd);
            let j = match jac2(&p, &sp, &q) { Some(j) => j, None => return };
            let p0 = q.inverse() * p;
            for k in 0..3 {
                let fd = fd4(|h| { let mut q2 = q.clone(); let mut x = x0; x[k] += h; q2.set(&x); sp.scalar_projection(&(q2.transform() * p0)) });
                c.le((j[k] - fd).abs() / (1.0 + j[k].abs()), TOL_J, "2D: point_surface_jacobian entry == central finite difference of the signed distance w.r.t. that parameter", || format!("{} | parameter {} analytic {:e} fd {:e}", inp(), k, j[k], fd));
            }
        } } }
    } } }
}

fn w5_jac3(c: &mut Ctx) {
    let inits = [
        Iso3::identity(),
        Iso3::from_parts(Translation3::new(1000.0, -800.0, 600.0), quat_xyz(2.5, -1.0, -2.9)),
        Iso3::from_parts(Translation3::new(1e-8, 0.0, -1e-8), quat_xyz(1e-8, -2e-8, 3e-8)),
    ];
    let rcs = [Point3::new(0.0, 0.0, 0.0), Point3::new(500.0, -600.0, 300.0)];
    let offs = [Vector3::new(600.0, -800.0, 300.0), Vector3::new(0.0, 0.0, 0.0), Vector3::new(1e-3, 2e-3, -1e-3)];
    let normals = [Vector3::new(1.0, 1.0, 1.0), Vector3::new(-2.0, 1.0, 0.5)];
    let dists = [0.75, -1.5];
    let pp = [Vector3::new(1.0, -2.0, 0.5), Vector3::new(-4.0, 2.0, 1.0)];
    for (ti, t) in inits.iter().enumerate() { for rc in rcs.iter() { for moved in [false, true] {
        let mut q = RcParams3::from_initial(t, rc);
        if moved {
            for dx in [Vector6::new(0.5, -0.25, 0.125, 0.3, -0.2, 0.1), Vector6::new(0.0, 0.0, 0.0, 0.0, 0.0, -1.0), Vector6::new(-20.0, 0.0, 0.0, 0.0, 0.0, 0.0), Vector6::new(0.0, 0.0, 0.0, 0.0, 0.7, 0.0)] { let x = q.x() + dx; q.set(&x); }
        }
        let x0 = *q.x();
        let crc = *q.current_rc();
        let at = |k: usize, h: f64| -> Iso3 { let mut q2 = q.clone(); let mut x = x0; x[k] += h; q2.set(&x); *q2.transform() };
        let tinv = *q.inverse();
        for o in offs.iter() {
            let p = crc + o;
            let p0 = tinv * p;
            let pose = || format!("initial #{} (translation ({:e}, {:e}, {:e})), rc = ({}, {}, {}), after four set() calls: {}, p = current_rc + ({:e}, {:e}, {:e})",
                ti, t.translation.vector.x, t.translation.vector.y, t.translation.vector.z, rc.x, rc.y, rc.z, moved, o.x, o.y, o.z);
            for nv in normals.iter() { for dd in dists {
                c.r.case();
                let n = nv.normalize();
                let tang = n.cross(&Vector3::new(0.1, 0.2, 1.0)).normalize();
                let inp = || format!("{}, plane normal ({}, {}, {}) normalised, signed distance {}", pose(), nv.x, nv.y, nv.z, dd);
                let sp = SurfacePoint3::new_normalize(p - n * dd + tang * 1.25, n);
                let j = point_plane_jacobian(&p, &sp, &q);
                for k in 0..6 {
                    let fd = fd4(|h| sp.scalar_projection(&(at(k, h) * p0)).abs());
                    c.le((j[k] - fd).abs() / (1.0 + j[k].abs()), TOL_J, "3D: point_plane_jacobian entry == central finite difference of |n.(T p - c)| w.r.t. that parameter", || format!("{} | parameter {} analytic {:e} fd {:e}", inp(), k, j[k], fd));
                }
                let sf = SurfacePoint3::new_normalize(p - n * dd, n);
                let jr = point_plane_jacobian_rev(&p, &sf, &q);
                for k in 0..6 {
                    let fd = fd4(|h| sf.transformed(&(at(k, h) * tinv)).scalar_projection(&p).abs());
                    c.le((jr[k] - fd).abs() / (1.0 + jr[k].abs()), TOL_J, "3D: point_plane_jacobian_rev entry == central finite difference of |n'.(p - c')| w.r.t. that parameter of the REFERENCE", || format!("{} | parameter {} analytic {:e} fd {:e}", inp(), k, jr[k], fd));
                }
            } }
            for v in pp.iter() {
                c.r.case();
                let cpt = p + v;
                let inp = || format!("{}, reference point = p + ({}, {}, {})", pose(), v.x, v.y, v.z);
                let j = point_point_jacobian(&p, &cpt, &q);
                // with a lever arm of 1e3 a step of 1e-4 rad moves the point by 0.1, not small against the distance of the
                // pair: the finite difference of the DISTANCE is no longer accurate to 1e-6. d|T p - c|/dx = u . d(T p)/dx
                // with u the unit vector from the reference to the point; the velocity of the point is smooth
                let u = (p - cpt).normalize();
                for k in 0..6 {
                    let dp = Vector3::new(fd4(|h| (at(k, h) * p0).x), fd4(|h| (at(k, h) * p0).y), fd4(|h| (at(k, h) * p0).z));
                    let want = u.dot(&dp);
                    c.le((j[k] - want).abs() / (1.0 + j[k].abs()), TOL_J, "3D: point_point_jacobian entry == u . d(T p)/dx (unit vector from the reference to the point, finite-difference velocity of the point)", || format!("{} | parameter {} analytic {:e} expected {:e}", inp(), k, j[k], want));
                }
            }
        }
    } } }
}

fn w5_copy(c: &mut Ctx) {
    use crate::geom3::align3::jacobian::copy_jacobian;
    let j = Vector6::new(1.5, -2.0, 3.25, -4.0, 5.5, -6.0);
    for rows in [1usize, 2, 5] { for row in 0..rows {
        c.r.case();
        let fill = |i: usize, k: usize| 100.0 + (i * 6 + k) as f64;
        let mut m = na::OMatrix::<f64, na::Dyn, na::U6>::from_fn(rows, |i, k| fill(i, k));
        copy_jacobian(&j, &mut m, row);
        let mut e: f64 = 0.0;
        for i in 0..rows { for k in 0..6 { let want = if i == row { j[k] } else { fill(i, k) }; e = e.max((m[(i, k)] - want).abs()); } }
        c.le(e, 0.0, "3D: copy_jacobian writes the six entries in parameter order into the given row and nothing else", || format!("dynamic {} x 6 matrix, row {}", rows, row));
    } }
    for row in 0..4usize {
        c.r.case();
        let fill = |i: usize, k: usize| -50.0 - (i * 6 + k) as f64;
        let mut m = na::SMatrix::<f64, 4, 6>::from_fn(|i, k| fill(i, k));
        copy_jacobian(&j, &mut m, row);
        let mut e: f64 = 0.0;
        for i in 0..4 { for k in 0..6 { let want = if i == row { j[k] } else { fill(i, k) }; e = e.max((m[(i, k)] - want).abs()); } }
        c.le(e, 0.0, "3D: copy_jacobian writes the six entries in parameter order into the given row and nothing else", || format!("fixed 4 x 6 matrix, row {}", row));
    }
}

fn w5_handler(c: &mut Ctx) {
    let all_means = vec![Point3::new(1.0, 2.0, 3.0), Point3::new(400.0, -500.0, 600.0), Point3::new(7.0, 8.0, 9.0), Point3::new(-1000.0, 0.0, 1000.0), Point3::new(0.0, 0.0, 0.0)];
    let all_initial = vec![
        Iso3::from_parts(Translation3::new(1.0, 2.0, 3.0), quat_xyz(0.5, 0.6, 0.7)),
        Iso3::from_parts(Translation3::new(-40.0, 50.0, 6.0), quat_xyz(-2.8, FRAC_PI_2, 1.0)),
        Iso3::from_parts(Translation3::new(4.0, 5.0, 6.0), quat_xyz(0.8, -0.9, 3.0)),
        Iso3::from_parts(Translation3::new(1e-8, 0.0, 0.0), quat_xyz(1e-8, 0.0, -1e-8)),
        Iso3::from_parts(Translation3::new(1000.0, -1000.0, 0.0), quat_xyz(3.0, 1.0, -3.0)),
    ];
    let block = |b: usize, v: usize| -> Vector6<f64> {
        let f = (b + 1) as f64;
        if v == 0 { Vector6::new(0.5 * f, -0.25 * f, 0.125, 0.3 * f, -0.2, 0.1 * f) } else { Vector6::new(-20.0, 10.0 * f, 5.0, 3.5, FRAC_PI_2 - 0.3 * f, -4.0) }
    };
    for count in [1usize, 2, 5] { for static_i in 0..count { for with_initial in [false, true] {
        c.r.case();
        let means: Vec<Point3> = all_means[..count].to_vec();
        let ident = vec![Iso3::identity(); count];
        let init: &[Iso3] = if with_initial { &all_initial[..count] } else { &ident[..] };
        let mut h = ParamHandler::new(static_i, means.clone(), if with_initial { Some(&all_initial[..count]) } else { None });
        let inp = || format!("ParamHandler::new(static_i = {}, {} rotation centres, initial = {})", static_i, count, if with_initial { "rotated isometries" } else { "None" });
        let np = (count - 1) * 6;
        c.r.check(h.params().len() == np, "handler: n - 1 moving bodies have 6 (n - 1) parameters", inp);
        let x_init = h.params().clone();
        let oracle = |h: &ParamHandler, x: &DVector<f64>, what: &str, c: &mut Ctx, tag: &str| {
            c.le((h.params() - x).amax().max(0.0), 0.0, "handler: params() is the vector that was set", || format!("{} | {}", tag, what));
            for i in 0..count {
                let scale = 0.0;
                let rc_d = init[i] * means[i];
                if i == static_i {
                    c.le(err_iso3(&h.get_transform(i), &init[i], scale), TOL_RT, "handler: set_param leaves the static body at its initial isometry", || format!("{} | {} | body {}", tag, what, i));
                } else {
                    let b = h.p_index(i) * 6;
                    let xi = Vector6::new(x[b], x[b + 1], x[b + 2], x[b + 3], x[b + 4], x[b + 5]);
                    let mut e: f64 = 0.0;
                    for p in probes3() { e = e.max(err_p3(&(h.get_transform(i) * p), &oracle3(&xi, &means[i], &rc_d, &p), scale)); }
                    c.le(e, TOL_RT, "handler: after set_param body i moves by its own block of six parameters", || format!("{} | {} | body {}", tag, what, i));
                }
            }
            for a in 0..count { for b in 0..count {
                let rel = h.relative_transform(a, b);
                let mut e: f64 = 0.0;
                for p in probes3() { e = e.max(err_p3(&(h.get_transform(b) * (rel * p)), &(h.get_transform(a) * p), 1000.0)); }
                c.le(e, TOL_RT, "handler: relative_transform(test, ref) == transform(ref)^-1 * transform(test)", || format!("{} | {} | test {} ref {}", tag, what, a, b));
                if a == b { c.le(err_iso3(&rel, &Iso3::identity(), 1000.0), TOL_RT, "handler: relative_transform(i, i) is the identity", || format!("{} | {} | body {}", tag, what, a)); }
            } }
        };
        let tag = inp();
        // as constructed
        let mut k = 0;
        for i in 0..count {
            if i != static_i { c.r.check(h.p_index(i) == k, "handler: p_index numbers the moving bodies consecutively", || format!("{} | body {}", tag, i)); k += 1; }
            c.le(err_iso3(&h.get_transform(i), &init[i], 0.0), TOL_RT, if with_initial { "handler: get_transform(i) after new(.., Some(initial)) is the initial isometry of body i" } else { "handler: get_transform(i) after new(.., None) is the identity" }, || format!("{} | body {}", tag, i));
        }
        // sequence: full set, the same again, one block changed, one entry changed by 1e-8, back to the initial parameters
        let mut x = DVector::<f64>::zeros(np);
        for b in 0..count - 1 { x.fixed_rows_mut::<6>(b * 6).copy_from(&block(b, 0)); }
        h.set_param(&x);
        oracle(&h, &x, "after set_param", c, &tag);
        h.set_param(&x);
        oracle(&h, &x, "after the same set_param again", c, &tag);
        if count > 1 {
            let b = count - 2;
            x.fixed_rows_mut::<6>(b * 6).copy_from(&block(b, 1));
            h.set_param(&x);
            oracle(&h, &x, "after a set_param that changes the last block only", c, &tag);
            x[0] += 1e-8;
            x[np - 1] -= 1e-8;
            h.set_param(&x);
            oracle(&h, &x, "after a set_param that changes two entries by 1e-8", c, &tag);
        }
        h.set_param(&x_init);
        oracle(&h, &x_init, "after set_param(the parameters as constructed)", c, &tag);
        for i in 0..count { c.le(err_iso3(&h.get_transform(i), &init[i], 0.0), TOL_RT, "handler: setting the parameters as constructed restores the initial isometry of every body", || format!("{} | body {}", tag, i)); }
        // set_jacobian into a pre-filled matrix: only the six columns of that body in that row change
        let vals = Vector6::new(1.0, 2.0, 3.0, 4.0, 5.0, 6.0);
        for i in 0..count { for row in [0usize, 2] {
            if np == 0 && i != static_i { continue; }
            let fill = |r_: usize, k_: usize| 100.0 + (r_ * 40 + k_) as f64;
            let mut m = DMatrix::<f64>::from_fn(3, np.max(1), |r_, k_| fill(r_, k_));
            h.set_jacobian(&mut m, row, i, &vals);
            let mut e: f64 = 0.0;
            for r_ in 0..3 { for k_ in 0..np.max(1) {
                let mine = i != static_i && r_ == row && k_ >= h.p_index(i) * 6 && k_ < h.p_index(i) * 6 + 6;
                let want = if mine { vals[k_ - h.p_index(i) * 6] } else { fill(r_, k_) };
                e = e.max((m[(r_, k_)] - want).abs());
            } }
            c.le(e, 0.0, "handler: set_jacobian writes the six values into the columns of that body (nothing for the static body)", || format!("{} | body {}, row {} of a pre-filled 3-row matrix", tag, i, row));
        } }
    } } }
}
