//! C04 bounded: curve portions, splits, trims and reversal on the REAL code over an enumerated input space.
//!
//! Curves: the 2D families of bounded/c05.rs (straight with uneven vertex density, L-shape, stair, Pythagorean zig-zag,
//! 3-4-5 triangle naturally closed, unit square open / force-closed, dense octagon ring closed / force-closed, nearly
//! closed "C", bumpy line) at three power-of-two scales, curve tolerance 2^-16 * scale.
//! Requests: every ordered pair (l0, l1) from the probe set {0, L, every vertex length, every vertex length -2tol,
//! -tol/4, +tol/2, +3tol, edge mid points, edge quarter points of the first three and the last edge, -2tol, L+2tol,
//! -1, 2L}; (a, b, control) over a reduced probe set; split / trim at every probe; reversal at every probe; a second
//! portioning step applied to every 5th extracted portion.
//! Wave 5 (parameter-space audit, notes/w5_audit_C04.md): curves CLOSED WITHIN TOLERANCE (last vertex != first, gap tol/2,
//! 0.9 tol diagonal, exactly tol) and just not closed (gap 1.5 tol, 1.0000001 tol); asymmetric non-convex closed hexagon
//! (edges 7,1,6,4,1,5: closed / force-closed / seam inside a straight run / clockwise); hairpin, figure eight, a single
//! segment (open and force-closed); tol = 0, 0.3 (above the densest vertex spacing), 1e-12; the same shapes 1e3 / 1e6 /
//! 1e8 away from the origin and scaled by 2^-30 / 2^20; LONG curves (70, 131, 1030, 4200 vertices open; 83 / 1043 / 4163
//! closed, force-closed) probed around the vertex indices 1, 32, 64, 128, 1024, 4096, n/2, n-1; TIE probes (one ulp either
//! side of stored vertex lengths incl. -5e-324 and L + 1 ulp, -0.0, +-sqrt(tol)); control positions -tol/2, -5e-324,
//! L + 1 ulp, L + tol/2; SEQUENCES: six scripts of up to six portioning steps (between_lengths / trim_front / trim_back /
//! split pieces / portion of the reversed curve reversed) checked against the ORIGINAL curve; reversal commuting with
//! portioning for every pair of a reduced probe set; the consumers airfoil::helpers::{extract_edge_sub_curve,
//! extract_curve_beyond_station}: whatever they return is a portion between their two cut stations.
//! The oracle works on [f64; 3] copies of the vertices (helpers of bounded/c05.rs): brute force, dimension-free.
use super::c05::{at, base_shapes, cum, d, dog, extent, guarded, p2, poly_dist, to2, P};
use super::Report;
use crate::geom2::{Curve2, Point2};

fn pts_of(c: &Curve2) -> Vec<P> { c.points().iter().map(p2).collect() }

struct Src<'a> { c: &'a Curve2, v: Vec<P>, cu: Vec<f64>, total: f64, eps: f64, tol: f64, gap: f64, desc: String }
impl<'a> Src<'a> {
    fn new(c: &'a Curve2, desc: String) -> Self {
        let v = pts_of(c);
        let cu = cum(&v);
        let total = *cu.last().unwrap();
        // rounding allowance: 1e-9 of the curve's own size (bounding box / total length) plus 1e-12 of the coordinate
        // magnitude (curves far from the origin: coordinates carry an absolute rounding error of magnitude * 2^-53)
        let mut lo = [f64::INFINITY; 2]; let mut hi = [f64::NEG_INFINITY; 2];
        for q in v.iter() { for k in 0..2 { lo[k] = lo[k].min(q[k]); hi[k] = hi[k].max(q[k]); } }
        let size = (hi[0] - lo[0]).max(hi[1] - lo[1]).max(total);
        let eps = 1e-9 * size + 1e-12 * extent(&v);
        // closed within tolerance: the seam is a physical gap of up to tol between the last and the first vertex
        let gap = if c.is_closed() { d(&v[0], &v[v.len() - 1]) } else { 0.0 };
        Src { c, v, cu, total, eps, tol: c.tol(), gap, desc }
    }
    fn p(&self, l: f64) -> P { at(&self.v, &self.cu, l) }
    fn in_range(&self, l: f64) -> bool { l >= 0.0 && l <= self.c.length() }
    /// a request at least this long must succeed: 4 tol, and above rounding (curves with tol == 0)
    fn min_len(&self) -> f64 { 4.0 * self.tol + self.eps }
    /// arc length travelled from l0 to l1 (through the seam when closed and l1 < l0)
    fn travel(&self, l0: f64, l1: f64) -> Option<f64> {
        if !self.in_range(l0) || !self.in_range(l1) { return None; }
        if l1 >= l0 { Some(l1 - l0) } else if self.c.is_closed() { Some(self.total - l0 + l1) } else { None }
    }
    /// the vertices a portion l0 -> l1 may consist of, in source order: P(l0), the source vertices strictly between, P(l1)
    fn expected(&self, l0: f64, l1: f64) -> Vec<P> {
        let n = self.v.len();
        let mut e = vec![self.p(l0)];
        if l1 >= l0 {
            for i in 0..n { if self.cu[i] > l0 && self.cu[i] < l1 { e.push(self.v[i]); } }
        } else {
            for i in 0..n { if self.cu[i] > l0 { e.push(self.v[i]); } }
            for i in 0..n { if self.cu[i] < l1 { e.push(self.v[i]); } }
        }
        e.push(self.p(l1));
        e
    }
}

/// `piece` is, in order, a sub-list of `exp` (every vertex of the piece is matched by a later and later expected vertex)
fn in_order(piece: &[P], exp: &[P], eps: f64) -> bool {
    let mut j = 0;
    for p in piece {
        while j < exp.len() && d(&exp[j], p) > eps { j += 1; }
        if j == exp.len() { return false; }
        // the same expected vertex may not be used twice, except that P(l0)/P(l1) may coincide with a source vertex
        j += 1;
    }
    true
}

/// all clauses of "the portion from l0 to l1" on a returned piece; `what` prefixes the clause names of derived operations
fn check_piece(r: &mut Report, s: &Src, piece: &Curve2, l0: f64, l1: f64, what: &str, call: &dyn Fn() -> String) {
    let v = pts_of(piece);
    let n = v.len();
    let travel = match s.travel(l0, l1) { Some(t) => t, None => { r.check(false, &format!("{}: an ill-posed request yields nothing", what), call); return; } };
    let slack = s.eps + 4.0 * s.tol;
    r.check(d(&v[0], &s.p(l0)) <= s.eps, &format!("{}: the portion starts at the point at the first length", what), || format!("{} -> first vertex {:?}, P(l0) = {:?}", call(), v[0], s.p(l0)));
    r.check(d(&v[n - 1], &s.p(l1)) <= s.eps + s.tol, &format!("{}: the portion ends at the point at the second length (within tol)", what), || format!("{} -> last vertex {:?}, P(l1) = {:?}", call(), v[n - 1], s.p(l1)));
    // (curves of more than 200 vertices: membership is decided by the in-order clause below, which is linear)
    if s.v.len() <= 200 {
        let worst = v.iter().map(|p| poly_dist(&s.v, p)).fold(0.0, f64::max);
        r.check(worst <= s.eps, &format!("{}: every vertex of the portion lies on the source curve", what), || format!("{} -> {:?} away", call(), worst));
    }
    r.check(in_order(&v, &s.expected(l0, l1), s.eps), &format!("{}: vertices are P(l0), source vertices in source order, P(l1)", what), || format!("{} -> {:?}", call(), v));
    r.check((piece.length() - travel).abs() <= slack, &format!("{}: length equals the arc-length difference (through the seam when closed and l1 < l0)", what), || format!("{} -> length {:?}, expected {:?}", call(), piece.length(), travel));
    r.check(piece.tol() == s.tol, &format!("{}: the portion keeps the curve tolerance", what), call);
}

/// between_lengths(l0, l1) against the statement; returns the piece for a second portioning step
fn check_between(r: &mut Report, s: &Src, l0: f64, l1: f64) -> Option<Curve2> {
    r.case();
    let call = || format!("{} .between_lengths({:?}, {:?})  [L = {:?}, tol = {:?}]", s.desc, l0, l1, s.total, s.tol);
    dog::call(0, l0, l1, f64::NAN);
    let res = match guarded(|| s.c.between_lengths(l0, l1)) { Ok(x) => x, Err(why) => { r.check(false, "between_lengths does not panic", || format!("{} -> {}", call(), why)); return None; } };
    let travel = s.travel(l0, l1);
    // (through the seam of a curve that is closed within tolerance the piece also bridges the gap between the last and the first vertex)
    let ill = match travel { None => true, Some(t) => (l1 - l0).abs() < s.tol || t + (if l1 < l0 { s.gap } else { 0.0 }) < s.tol };
    if ill {
        r.check(res.is_none(), "between_lengths: an ill-posed request (out of range, reversed on an open curve, shorter than tol) yields None", || format!("{} -> Some(curve of length {:?})", call(), res.as_ref().map(|c| c.length())));
        return None;
    }
    let t = travel.unwrap();
    match res {
        None => {
            // pieces only a few tolerances long may degenerate under de-duplication: no demand
            if t >= s.min_len() { r.check(false, "between_lengths: a well-posed request (in range, at least 4 tol long) yields a portion", call); }
            None
        }
        Some(piece) => { check_piece(r, s, &piece, l0, l1, "between_lengths", &call); Some(piece) }
    }
}

fn ulp_up(x: f64) -> f64 { if x == 0.0 { f64::from_bits(1) } else if x > 0.0 { f64::from_bits(x.to_bits() + 1) } else { f64::from_bits(x.to_bits() - 1) } }
fn ulp_dn(x: f64) -> f64 { if x == 0.0 { -f64::from_bits(1) } else if x > 0.0 { f64::from_bits(x.to_bits() - 1) } else { f64::from_bits(x.to_bits() + 1) } }

/// `ties`: additionally one ulp either side of stored vertex lengths (0 and L included: -5e-324 and L + 1 ulp are out of
/// range), -0.0, and sqrt(tol) either side of them (all vertices of short curves; the first two, the middle and the last
/// two of longer ones)
fn probes(s: &Src, full: bool, ties: bool) -> Vec<f64> {
    let n = s.v.len();
    let tol = s.tol;
    let mut p = vec![0.0, s.c.length()];
    for i in 0..n {
        let l = s.c.lengths()[i];
        p.push(l);
        if full { for o in [-2.0 * tol, -0.25 * tol, 0.5 * tol, 3.0 * tol] { p.push(l + o); } }
        if ties && (n <= 8 || i < 2 || i + 2 >= n || i == n / 2) {
            p.push(ulp_up(l)); p.push(ulp_dn(l));
            let q = tol.sqrt();
            if q > 0.0 && q < s.total * 0.25 { p.push(l + q); p.push(l - q); }
        }
    }
    if ties { p.push(-0.0); }
    for i in 0..n - 1 {
        let (a, b) = (s.c.lengths()[i], s.c.lengths()[i + 1]);
        p.push(a + (b - a) * 0.5);
        if full && (i < 3 || i == n - 2) { p.push(a + (b - a) * 0.25); p.push(a + (b - a) * 0.75); }
    }
    if full { p.extend_from_slice(&[-1.0 * s.total, 2.0 * s.total]); }
    p.sort_by(|a, b| a.partial_cmp(b).unwrap());
    p.dedup_by(|a, b| a.to_bits() == b.to_bits());
    p
}

/// curves of more than 40 vertices: 0, L, the vertices around the indices 1, 32, 64, 128, 1024, 4096, n/2 and the last
/// three, each also -2tol / +tol/2 / +3tol, and the mid points of the edges that follow them
fn probes_long(s: &Src) -> Vec<f64> {
    let n = s.v.len();
    let ls = s.c.lengths();
    let mut idx: Vec<usize> = vec![0, 1, 2, n / 2, n - 3, n - 2, n - 1];
    for k in [32usize, 64, 128, 1024, 4096] { for j in [k - 1, k, k + 1] { if j < n { idx.push(j); } } }
    idx.sort(); idx.dedup();
    let mut p = vec![0.0, s.c.length(), -1.0 * s.total, ulp_up(s.c.length())];
    for (k, &i) in idx.iter().enumerate() {
        p.push(ls[i]);
        if k % 3 == 1 { for o in [-2.0 * s.tol, 0.5 * s.tol, 3.0 * s.tol] { p.push(ls[i] + o); } }
        if i + 1 < n && k % 2 == 0 { p.push(ls[i] + (ls[i + 1] - ls[i]) * 0.5); }
    }
    p.sort_by(|a, b| a.partial_cmp(b).unwrap());
    p.dedup();
    p
}

/// the reduced probe set of the second portioning step: ends, up to four interior vertex lengths, a value about tol
/// after the first vertex, the mid points of the first and the last edge, one value out of range
fn probes2(s: &Src) -> Vec<f64> {
    let n = s.v.len();
    let ls = s.c.lengths();
    let mut p = vec![0.0, s.c.length(), ls[1] * 0.5, (ls[n - 2] + ls[n - 1]) * 0.5, ls[1] + 3.0 * s.tol, s.total * 1.25];
    let step = ((n - 1) / 4).max(1);
    let mut i = 1;
    while i < n - 1 { p.push(ls[i]); i += step; }
    p.sort_by(|a, b| a.partial_cmp(b).unwrap());
    p.dedup();
    p
}

/// depth 0: the full probe set (`ties`: plus the tie probes); depth 1, 2: the reduced probe set on an extracted portion;
/// curves of more than 40 vertices: the probe set of probes_long for every operation
fn check_curve(r: &mut Report, c: &Curve2, desc: String, depth: usize, ties: bool) {
    let s = Src::new(c, desc);
    dog::subject(&s.desc);
    let long = c.count() > 40;
    let full = depth == 0 && !long;
    let pr = if long { probes_long(&s) } else if full { probes(&s, true, ties) } else { probes2(&s) };
    // ---- between_lengths over every ordered pair; a second portioning step on every 5th portion
    let mut k = 0usize;
    for &l0 in pr.iter() { for &l1 in pr.iter() {
        if let Some(piece) = check_between(r, &s, l0, l1) {
            k += 1;
            // second step on every 5th portion (longer sequences: check_chains)
            if depth == 0 && k % 5 == 0 && piece.count() <= 12 {
                let d2 = format!("{} .between_lengths({:?}, {:?}).unwrap()", s.desc, l0, l1);
                check_curve(r, &piece, d2, depth + 1, false);
                dog::subject(&s.desc);
                // the second-step portions lie on the ORIGINAL curve as well
                let s2 = Src::new(&piece, String::new());
                let mid = s2.total * 0.5;
                if let Some(pp) = piece.between_lengths(mid * 0.5, mid * 1.5) {
                    let worst = pts_of(&pp).iter().map(|p| poly_dist(&s.v, p)).fold(0.0, f64::max);
                    r.check(worst <= s.eps + s.tol, "a portion of a portion lies on the original curve (within tol)", || format!("{} .between_lengths({:?}, {:?}).unwrap().between_lengths({:?}, {:?}) -> {:?} away", s.desc, l0, l1, mid * 0.5, mid * 1.5, worst));
                    r.check((pp.length() - mid).abs() <= s.eps + 8.0 * s.tol, "a portion of a portion has the requested length", || format!("{} .between_lengths({:?}, {:?}).unwrap().between_lengths({:?}, {:?}) -> {:?}", s.desc, l0, l1, mid * 0.5, mid * 1.5, pp.length()));
                }
            }
        }
    } }
    let slack = s.eps + 4.0 * s.tol;
    // ---- trims
    for &x in pr.iter() {
        r.case();
        let call_f = || format!("{} .trim_front({:?})  [L = {:?}, tol = {:?}]", s.desc, x, s.total, s.tol);
        let call_b = || format!("{} .trim_back({:?})  [L = {:?}, tol = {:?}]", s.desc, x, s.total, s.tol);
        let well = x >= 0.0 && x <= s.total - s.min_len();
        let ill = !(x >= 0.0 && x <= s.total - s.tol);
        // (a negative length too small to change L - length is not distinguishable from 0 for trim_back)
        let ill_b = !((x >= 0.0 || s.c.length() - x == s.c.length()) && x <= s.total - s.tol);
        dog::call(1, x, f64::NAN, f64::NAN);
        match guarded(|| s.c.trim_front(x)) {
            Err(why) => r.check(false, "trim_front does not panic", || format!("{} -> {}", call_f(), why)),
            Ok(None) => { if well { r.check(false, "trim_front: a well-posed request yields a curve", call_f); } }
            Ok(Some(t)) => {
                if ill { r.check(false, "trim_front: an ill-posed request (negative, or leaving less than tol) yields None", call_f); }
                else {
                    r.check((t.length() - (s.total - x)).abs() <= slack, "trim_front removes exactly the requested length", || format!("{} -> length {:?}", call_f(), t.length()));
                    let v = pts_of(&t);
                    r.check(d(&v[0], &s.p(x)) <= s.eps, "trim_front: the result starts at the point at the trimmed length", || format!("{} -> {:?}", call_f(), v[0]));
                    r.check(d(&v[v.len() - 1], &s.v[s.v.len() - 1]) <= s.eps + s.tol, "trim_front keeps the back end", || format!("{} -> {:?}", call_f(), v[v.len() - 1]));
                    check_piece(r, &s, &t, x, s.c.length(), "trim_front", &call_f);
                }
            }
        }
        dog::call(2, x, f64::NAN, f64::NAN);
        match guarded(|| s.c.trim_back(x)) {
            Err(why) => r.check(false, "trim_back does not panic", || format!("{} -> {}", call_b(), why)),
            Ok(None) => { if well { r.check(false, "trim_back: a well-posed request yields a curve", call_b); } }
            Ok(Some(t)) => {
                if ill_b { r.check(false, "trim_back: an ill-posed request (negative, or leaving less than tol) yields None", call_b); }
                else {
                    r.check((t.length() - (s.total - x)).abs() <= slack, "trim_back removes exactly the requested length", || format!("{} -> length {:?}", call_b(), t.length()));
                    let v = pts_of(&t);
                    r.check(d(&v[0], &s.v[0]) <= s.eps, "trim_back keeps the front end", || format!("{} -> {:?}", call_b(), v[0]));
                    r.check(d(&v[v.len() - 1], &s.p(s.total - x)) <= s.eps + s.tol, "trim_back: the result ends at the point at L - trimmed length", || format!("{} -> {:?}", call_b(), v[v.len() - 1]));
                }
            }
        }
    }
    // ---- splits
    if !c.is_closed() {
        for &x in pr.iter() {
            r.case();
            let call = || format!("{} .split_open_at_length({:?})  [L = {:?}, tol = {:?}]", s.desc, x, s.total, s.tol);
            let well = x >= s.min_len() && x <= s.total - s.min_len();
            let ill = !(x >= s.tol && x <= s.total - s.tol);
            dog::call(3, x, f64::NAN, f64::NAN);
            match guarded(|| s.c.split_open_at_length(x).ok()) {
                Err(why) => r.check(false, "split_open_at_length does not panic", || format!("{} -> {}", call(), why)),
                Ok(None) => { if well { r.check(false, "split_open_at_length: a well-posed split yields two pieces", call); } }
                Ok(Some((a, b))) => {
                    if ill { r.check(false, "split_open_at_length: an ill-posed split (a piece shorter than tol, out of range) yields an error", call); continue; }
                    r.check((a.length() + b.length() - s.total).abs() <= 2.0 * slack, "split_open_at_length: the pieces' lengths sum to the whole", || format!("{} -> {:?} + {:?}", call(), a.length(), b.length()));
                    let (va, vb) = (pts_of(&a), pts_of(&b));
                    r.check(d(&va[va.len() - 1], &vb[0]) <= s.eps + s.tol && d(&vb[0], &s.p(x)) <= s.eps, "split_open_at_length: the pieces meet at the split point", || format!("{} -> {:?} / {:?}", call(), va[va.len() - 1], vb[0]));
                    r.check(d(&va[0], &s.v[0]) <= s.eps && d(&vb[vb.len() - 1], &s.v[s.v.len() - 1]) <= s.eps + s.tol, "split_open_at_length: the pieces keep the outer ends", call);
                    check_piece(r, &s, &a, 0.0, x, "split_open_at_length (first piece)", &call);
                    check_piece(r, &s, &b, x, s.c.length(), "split_open_at_length (second piece)", &call);
                }
            }
        }
        r.check(guarded(|| c.split_closed_at_lengths(s.total * 0.25, s.total * 0.5).is_err()).unwrap_or(false), "split_closed_at_lengths on an open curve is an error", || s.desc.clone());
    } else {
        let small = if long { pr.clone() } else if full { probes(&s, false, ties) } else { probes2(&s) };
        for &x in small.iter() { for &y in small.iter() {
            r.case();
            let call = || format!("{} .split_closed_at_lengths({:?}, {:?})  [L = {:?}, tol = {:?}]", s.desc, x, y, s.total, s.tol);
            let (t0, t1) = (s.travel(x, y).unwrap_or(0.0), s.travel(y, x).unwrap_or(0.0));
            let well = t0 >= s.min_len() && t1 >= s.min_len() && (x - y).abs() >= s.min_len();
            dog::call(4, x, y, f64::NAN);
            match guarded(|| s.c.split_closed_at_lengths(x, y).ok()) {
                Err(why) => r.check(false, "split_closed_at_lengths does not panic", || format!("{} -> {}", call(), why)),
                Ok(None) => { if well { r.check(false, "split_closed_at_lengths: a well-posed split yields two pieces", call); } }
                Ok(Some((a, b))) => {
                    if (x - y).abs() < s.tol { r.check(false, "split_closed_at_lengths: an ill-posed split yields an error", call); continue; }
                    r.check((a.length() + b.length() - s.total).abs() <= 2.0 * slack, "split_closed_at_lengths: the pieces' lengths sum to the whole", || format!("{} -> {:?} + {:?}", call(), a.length(), b.length()));
                    let (va, vb) = (pts_of(&a), pts_of(&b));
                    r.check(d(&va[va.len() - 1], &vb[0]) <= s.eps + s.tol && d(&vb[vb.len() - 1], &va[0]) <= s.eps + s.tol, "split_closed_at_lengths: the pieces meet at both split points", call);
                    check_piece(r, &s, &a, x, y, "split_closed_at_lengths (first piece)", &call);
                    check_piece(r, &s, &b, y, x, "split_closed_at_lengths (second piece)", &call);
                }
            }
        } }
        r.check(guarded(|| c.split_open_at_length(s.total * 0.5).is_err()).unwrap_or(false), "split_open_at_length on a closed curve is an error", || s.desc.clone());
    }
    // ---- control-point variant
    let small: Vec<f64> = if long { pr.iter().cloned().step_by(5).collect() } else if full { probes(&s, false, false) } else { let q = probes2(&s); q.iter().cloned().step_by(2).collect() };
    let mut ctrl = small.clone();
    if full { ctrl.extend_from_slice(&[-0.5 * s.total, -2.0 * s.tol, s.total + 2.0 * s.tol, -0.5 * s.tol, -f64::from_bits(1), ulp_up(s.c.length()), s.total + 0.5 * s.tol]); }
    for &a in small.iter() { for &b in small.iter() { for &ct in ctrl.iter() {
        r.case();
        let call = || format!("{} .between_lengths_by_control({:?}, {:?}, {:?})  [L = {:?}, tol = {:?}, closed = {}]", s.desc, a, b, ct, s.total, s.tol, c.is_closed());
        dog::call(5, a, b, ct);
        let res = match guarded(|| s.c.between_lengths_by_control(a, b, ct)) { Ok(x) => x, Err(why) => { r.check(false, "between_lengths_by_control does not panic", || format!("{} -> {}", call(), why)); continue; } };
        let (lo, hi) = (a.min(b), a.max(b));
        let inside = lo < ct && ct < hi;
        let outside = (ct < lo || ct > hi) && s.in_range(ct);
        // the piece that contains the control: lo -> hi when the control lies between, hi -> lo (through the seam) otherwise
        let want = if inside { Some((lo, hi)) } else if outside && c.is_closed() { Some((hi, lo)) } else { None };
        match (res, want) {
            (Some(p), None) => {
                if !s.in_range(ct) { r.check(false, "between_lengths_by_control: a control position outside [0, L] yields None", call); }
                else if outside { r.check(false, "between_lengths_by_control: on an open curve a control outside [a, b] yields None (no piece between a and b contains it)", call); }
                else {
                    // control == a or b: both pieces contain it; whichever is returned must be one of them
                    let ok = [(lo, hi), (hi, lo)].iter().any(|&(x, y)| s.travel(x, y).map_or(false, |t| (p.length() - t).abs() <= s.eps + 4.0 * s.tol));
                    r.check(ok, "between_lengths_by_control: control on an end: the result is one of the two pieces", call);
                }
            }
            (None, Some((x, y))) => {
                let t = s.travel(x, y).unwrap_or(0.0);
                if t >= s.min_len() && (x - y).abs() >= s.min_len() { r.check(false, "between_lengths_by_control: a well-posed request yields the piece containing the control", call); }
            }
            (Some(p), Some((x, y))) => {
                if s.travel(x, y).is_some() && (x - y).abs() >= s.tol {
                    check_piece(r, &s, &p, x, y, "between_lengths_by_control", &call);
                    let pc = s.p(ct);
                    let dist = poly_dist(&pts_of(&p), &pc);
                    r.check(dist <= s.eps + s.tol, "between_lengths_by_control: the returned piece contains the control position", || format!("{} -> P(control) is {:?} away", call(), dist));
                } else { r.check(false, "between_lengths_by_control: an ill-posed request yields None", call); }
            }
            (None, None) => {}
        }
    } } }
    // ---- reversal
    r.case();
    dog::call(6, f64::NAN, f64::NAN, f64::NAN);
    match guarded(|| c.reversed()) {
        Err(why) => r.check(false, "reversed does not panic", || format!("{} .reversed() -> {}", s.desc, why)),
        Ok(rv) => {
            r.check((rv.length() - s.total).abs() <= s.eps, "reversed preserves the length", || format!("{} .reversed() -> {:?}", s.desc, rv.length()));
            r.check(rv.is_closed() == c.is_closed() && rv.tol() == c.tol() && rv.count() == c.count(), "reversed keeps closedness, tolerance and vertex count", || format!("{} .reversed()", s.desc));
            for &l in pr.iter() {
                if !s.in_range(l) { continue; }
                let call = || format!("{} .reversed().at_length({:?})", s.desc, l);
                match rv.at_length(l.min(rv.length())) {
                    None => r.check(false, "reversed: the point at l exists for 0 <= l <= L", call),
                    Some(st) => { let q = p2(&st.point()); let w = s.p(s.total - l); r.check(d(&q, &w) <= s.eps, "reversed maps the point at l to the point at L - l", || format!("{} -> {:?}, P(L-l) = {:?}", call(), q, w)); }
                }
            }
            // reversing twice gives the vertices back
            if let Ok(rr) = guarded(|| rv.reversed()) { r.check(pts_of(&rr) == s.v, "reversed twice is the original vertex list", || format!("{} .reversed().reversed()", s.desc)); }
            // portion of the reversed curve == reversed portion (second step on a derived curve)
            if full && s.total > 0.0 {
                let (l0, l1) = (s.total * 0.125, s.total * 0.625);
                if let (Some(a), Some(b)) = (rv.between_lengths(l0, l1), c.between_lengths(s.total - l1, s.total - l0)) {
                    let (va, mut vb) = (pts_of(&a), pts_of(&b));
                    vb.reverse();
                    let same = va.len() == vb.len() && va.iter().zip(vb.iter()).all(|(x, y)| d(x, y) <= s.eps);
                    r.check(same, "a portion of the reversed curve is the reversed portion of the curve", || format!("{} .reversed().between_lengths({:?}, {:?})", s.desc, l0, l1));
                }
            }
        }
    }
}

// ================================================================ wave 5: shape classes, magnitudes, parameter relations, sequences
/// (name, vertices, tol, force_closed, tie probes)
fn extra_families() -> Vec<(String, Vec<(f64, f64)>, f64, bool, bool)> {
    let mut f: Vec<(String, Vec<(f64, f64)>, f64, bool, bool)> = vec![];
    let t10 = 1.0 / 1024.0;
    // CLOSED WITHIN TOLERANCE: the last vertex is not the first one but within tol of it (asymmetric quadrilateral 8, 6, 5, sqrt(125))
    for (k, g) in [(0.0, 0.5 * t10), (0.75 * t10, 0.5 * t10), (0.0, t10), (-0.5 * t10, -0.25 * t10)].iter().enumerate() {
        f.push((format!("quad-closed-within-tol-{}", k), vec![(0.0, 0.0), (8.0, 0.0), (8.0, 6.0), (5.0, 10.0), (g.0, g.1)], t10, false, k == 0));
    }
    // just NOT closed: the gap is 1.5 tol and 1.0000001 tol
    f.push(("quad-gap-1.5-tol".to_string(), vec![(0.0, 0.0), (8.0, 0.0), (8.0, 6.0), (5.0, 10.0), (0.0, 1.5 * t10)], t10, false, false));
    f.push(("quad-gap-just-above-tol".to_string(), vec![(0.0, 0.0), (8.0, 0.0), (8.0, 6.0), (5.0, 10.0), (0.0, t10 * 1.0000001)], t10, false, false));
    // ASYMMETRIC CLOSED, non-convex: L-shaped hexagon with edges 7, 1, 6, 4, 1, 5; closed / force-closed / seam inside a straight run
    let hex = vec![(0.0, 0.0), (7.0, 0.0), (7.0, 1.0), (1.0, 1.0), (1.0, 5.0), (0.0, 5.0)];
    let mut hc = hex.clone(); hc.push((0.0, 0.0));
    f.push(("L-hexagon-closed".to_string(), hc.clone(), t10 / 64.0, false, true));
    f.push(("L-hexagon-force-closed".to_string(), hex.clone(), t10 / 64.0, true, false));
    f.push(("L-hexagon-seam-mid-edge".to_string(), vec![(3.0, 0.0), (7.0, 0.0), (7.0, 1.0), (1.0, 1.0), (1.0, 5.0), (0.0, 5.0), (0.0, 0.0), (3.0, 0.0)], t10 / 64.0, false, false));
    f.push(("L-hexagon-clockwise".to_string(), hc.iter().rev().cloned().collect(), t10 / 64.0, false, false));
    // HAIRPIN (open, runs back next to itself) and a self-crossing closed figure eight
    f.push(("hairpin-open".to_string(), vec![(0.0, 0.0), (8.0, 0.0), (8.0, 0.25), (0.5, 0.25), (0.5, 0.5), (8.0, 0.5)], t10 / 64.0, false, false));
    f.push(("figure-eight-closed".to_string(), vec![(0.0, 0.0), (4.0, 3.0), (4.0, 0.0), (0.0, 3.0), (0.0, 0.0)], t10 / 64.0, false, false));
    // two vertices only; two vertices force-closed (out and back)
    f.push(("segment".to_string(), vec![(1.0, 1.0), (4.0, 5.0)], t10 / 64.0, false, true));
    f.push(("segment-force-closed".to_string(), vec![(1.0, 1.0), (4.0, 5.0)], t10 / 64.0, true, true));
    // PARAMETER RELATIONS: tolerance 0; tolerance larger than the densest vertex spacing; tolerance 1e-12
    let stair = vec![(0.0, 0.0), (1.0, 0.0), (1.0, 1.0), (1.25, 1.0), (1.5, 1.0), (1.75, 1.0), (2.0, 1.0), (2.0, 3.0), (8.0, 3.0)];
    f.push(("stair-tol-0".to_string(), stair.clone(), 0.0, false, true));
    f.push(("stair-tol-0.3".to_string(), stair.clone(), 0.3, false, false));
    f.push(("stair-tol-1e-12".to_string(), stair.clone(), 1e-12, false, false));
    f.push(("L-hexagon-closed-tol-0".to_string(), hc.clone(), 0.0, false, false));
    f.push(("L-hexagon-force-closed-tol-0.3".to_string(), hex.clone(), 0.3, true, false));
    // MAGNITUDES: far from the origin (unit-size geometry, offsets 1e3 .. 1e8) and tiny / huge extents
    for (ox, oy, tol) in [(1.0e3, 1.0e3, t10 / 64.0), (1.0e6, -3.0e5, t10 / 64.0), (-1.0e8, 1.0e8, t10)] {
        f.push((format!("L-hexagon-closed at ({:?},{:?})", ox, oy), hc.iter().map(|q| (q.0 + ox, q.1 + oy)).collect(), tol, false, false));
        f.push((format!("stair at ({:?},{:?})", ox, oy), stair.iter().map(|q| (q.0 + ox, q.1 + oy)).collect(), tol, false, false));
    }
    for k in [-30i32, 20] {
        let m = 2f64.powi(k);
        f.push((format!("L-hexagon-force-closed x 2^{}", k), hex.iter().map(|q| (q.0 * m, q.1 * m)).collect(), m / 65536.0, true, false));
        f.push((format!("stair x 2^{}", k), stair.iter().map(|q| (q.0 * m, q.1 * m)).collect(), m / 65536.0, false, false));
    }
    f
}

/// curves with more vertices than 64 / 128 / 1024 / 4096: an open stair with edge lengths cycling through seven values,
/// and a closed comb (teeth of four different heights, return path below), exactly closed and force-closed
fn long_families() -> Vec<(String, Vec<(f64, f64)>, f64, bool)> {
    let mut f = vec![];
    let cyc = [1.0, 0.5, 2.0, 0.25, 3.0, 0.75, 1.5];
    let sizes = [70usize, 131, 1030, 4200];
    for &n in sizes.iter() {
        let (mut x, mut y) = (0.0f64, 0.0f64);
        let mut v = vec![(x, y)];
        for i in 0..n - 1 { if i % 2 == 0 { x += cyc[i % 7]; } else { y += cyc[i % 7]; } v.push((x, y)); }
        f.push((format!("stair-long-{}", n), v, 1.0 / 65536.0, false));
    }
    let hs = [1.0, 2.0, 0.5, 3.0];
    let teeth = [20usize, 260, 1040];
    for (j, &m) in teeth.iter().enumerate() {
        let mut v = vec![];
        for k in 0..m { let x = 2.0 * k as f64; let h = hs[k % 4]; v.extend_from_slice(&[(x, 0.0), (x, h), (x + 1.0, h), (x + 1.0, 0.0)]); }
        v.extend_from_slice(&[(2.0 * m as f64, 0.0), (2.0 * m as f64, -1.0), (0.0, -1.0)]);
        if j == 0 { f.push((format!("comb-force-closed-{}-teeth", m), v.clone(), 1.0 / 65536.0, true)); }
        v.push((0.0, 0.0));
        f.push((format!("comb-closed-{}-teeth", m), v, 1.0 / 65536.0, false));
    }
    f
}

fn describe(name: &str, v: &[Point2], tol: f64, fc: bool) -> String {
    if v.len() > 40 {
        let ps: Vec<String> = v[..6].iter().map(|p| format!("({:?},{:?})", p.x, p.y)).collect();
        format!("Curve2::from_points([{}, ... {} vertices as built by long_families() in bounded/c04.rs], tol={:?}, force_closed={}) [{}]", ps.join(","), v.len(), tol, fc, name)
    } else {
        let ps: Vec<String> = v.iter().map(|p| format!("({:?},{:?})", p.x, p.y)).collect();
        format!("Curve2::from_points([{}], tol={:?}, force_closed={}) [{}]", ps.join(","), tol, fc, name)
    }
}

/// SEQUENCES of portioning steps applied to earlier portions: every step is checked against the ORIGINAL curve through
/// the accumulated arc-length window [a, a + len] (through the seam when a + len > L); the allowance grows by 2 tol per
/// step (each step may move the end point by tol and lose up to tol of length at either end to de-duplication)
fn check_chains(r: &mut Report, c: &Curve2, desc: &str) {
    let s = Src::new(c, desc.to_string());
    dog::subject(&s.desc);
    if s.total <= 64.0 * s.tol { return; }
    // (fraction of the current piece where the next one starts, where it ends); op: 0 between_lengths, 1 trim_front, 2 trim_back,
    // 3 split_open first piece, 4 split_open second piece, 5 reversed twice around a portion of the reversed curve
    let scripts: [&[(usize, f64, f64)]; 6] = [
        &[(0, 0.125, 0.875), (0, 0.0, 0.75), (0, 0.25, 1.0), (0, 0.125, 0.875), (0, 0.5, 1.0), (0, 0.0, 0.5)],
        &[(1, 0.125, 1.0), (2, 0.0, 0.875), (1, 0.25, 1.0), (2, 0.0, 0.5), (1, 0.5, 1.0)],
        &[(3, 0.0, 0.75), (4, 0.25, 1.0), (3, 0.0, 0.5), (4, 0.5, 1.0)],
        &[(5, 0.25, 0.875), (0, 0.125, 1.0), (5, 0.0, 0.5), (0, 0.25, 0.75)],
        &[(0, 0.0, 1.0), (1, 0.0, 1.0), (2, 0.0, 1.0), (0, 0.03125, 0.96875), (5, 0.0, 1.0)],
        &[(0, 0.625, 0.375), (0, 0.25, 0.75), (1, 0.5, 1.0)],
    ];
    for (si, script) in scripts.iter().enumerate() {
        let mut cur: Curve2 = c.clone();
        let (mut a, mut len) = (0.0f64, s.total);   // window of the original covered by `cur`
        let mut hist = s.desc.clone();
        for (step, &(op, f0, f1)) in script.iter().enumerate() {
            r.case();
            let lc = cur.length();
            let (x0, x1) = (lc * f0, if f1 == 1.0 { lc } else { lc * f1 });
            let wrap = x1 < x0;
            if wrap && !(step == 0 && c.is_closed()) { break; }
            dog::call(0, x0, x1, f64::NAN);
            let (next, text): (Option<Curve2>, String) = match op {
                0 => (guarded(|| cur.between_lengths(x0, x1)).ok().flatten(), format!(".between_lengths({:?}, {:?})", x0, x1)),
                1 => (guarded(|| cur.trim_front(x0)).ok().flatten(), format!(".trim_front({:?})", x0)),
                2 => (guarded(|| cur.trim_back(lc - x1)).ok().flatten(), format!(".trim_back({:?})", lc - x1)),
                3 => { if cur.is_closed() { break; } (guarded(|| cur.split_open_at_length(x1).ok().map(|q| q.0)).ok().flatten(), format!(".split_open_at_length({:?}).0", x1)) }
                4 => { if cur.is_closed() { break; } (guarded(|| cur.split_open_at_length(x0).ok().map(|q| q.1)).ok().flatten(), format!(".split_open_at_length({:?}).1", x0)) }
                _ => {
                    // lengths measured on the reversed curve itself (its total may differ from lc in the last bit)
                    let (m0, m1) = match guarded(|| cur.reversed().length()) { Ok(lr) => (if f1 == 1.0 { 0.0 } else { lr - x1 }, if f0 == 0.0 { lr } else { lr - x0 }), Err(_) => (0.0, 0.0) };
                    (guarded(|| cur.reversed().between_lengths(m0, m1).map(|q| q.reversed())).ok().flatten(), format!(".reversed().between_lengths({:?}, {:?}).reversed()", m0, m1))
                }
            };
            hist = format!("{}{}", hist, text);
            let want = if wrap { lc - x0 + x1 } else { x1 - x0 };
            let allow = s.eps + 2.0 * (step as f64 + 1.0) * s.tol + 2.0 * s.tol;
            let piece = match next {
                Some(p) => p,
                None => { r.check(want < s.min_len() + allow, "a sequence of portioning steps: every well-posed step yields a portion", || format!("{}  [script {}, step {}]", hist, si, step)); break; }
            };
            a = a + x0; if a >= s.total { a -= s.total; }
            len = want.min(len);
            let b = if a + len > s.total { a + len - s.total } else { a + len };
            let v = pts_of(&piece);
            r.check((piece.length() - want).abs() <= allow, "a sequence of portioning steps: each piece has the requested length", || format!("{} -> length {:?}, expected {:?}", hist, piece.length(), want));
            r.check(d(&v[0], &s.p(a)) <= allow && d(&v[v.len() - 1], &s.p(b)) <= allow, "a sequence of portioning steps: each piece starts and ends at the points of the ORIGINAL curve at the accumulated lengths", || format!("{} -> {:?} .. {:?}, expected {:?} .. {:?} (original lengths {:?} -> {:?})", hist, v[0], v[v.len() - 1], s.p(a), s.p(b), a, b));
            let worst = v.iter().map(|p| poly_dist(&s.v, p)).fold(0.0, f64::max);
            r.check(worst <= allow, "a sequence of portioning steps: every vertex of each piece lies on the ORIGINAL curve", || format!("{} -> {:?} away", hist, worst));
            r.check(piece.tol() == s.tol, "a sequence of portioning steps: each piece keeps the curve tolerance", || hist.clone());
            // the interior source vertices of the window all appear (none lost): compare the lengths of the vertex chains
            cur = piece;
        }
    }
}

/// the reversal commutes with portioning for EVERY pair of a reduced probe set (the fixed pair of check_curve generalised),
/// and reversal on closed-within-tolerance / force-closed curves keeps the closing behaviour (a portion through the seam exists)
fn check_reversal_pairs(r: &mut Report, c: &Curve2, desc: &str) {
    let s = Src::new(c, desc.to_string());
    dog::subject(&s.desc);
    let rv = match guarded(|| c.reversed()) { Ok(x) => x, Err(_) => return };
    let pr = probes2(&s);
    for &l0 in pr.iter() { for &l1 in pr.iter() {
        if !s.in_range(l0) || !s.in_range(l1) { continue; }
        r.case();
        let (m0, m1) = (s.total - l1, s.total - l0);
        let call = || format!("{} .reversed().between_lengths({:?}, {:?})  vs  .between_lengths({:?}, {:?}) reversed  [L = {:?}, tol = {:?}]", s.desc, m0, m1, l0, l1, s.total, s.tol);
        let t = match s.travel(l0, l1) { Some(t) => t, None => continue };
        if t < s.min_len() || (l1 - l0).abs() < s.min_len() || m0 < 0.0 || m1 < 0.0 { continue; }
        dog::call(0, m0, m1, f64::NAN);
        match guarded(|| rv.between_lengths(m0, m1)) {
            Ok(Some(a)) => {
                // the reversed portion runs from P(l1) back to P(l0) along the source
                let va = pts_of(&a);
                let mut exp = s.expected(l0, l1); exp.reverse();
                r.check(d(&va[0], &s.p(l1)) <= s.eps + s.tol && d(&va[va.len() - 1], &s.p(l0)) <= s.eps + 2.0 * s.tol, "a portion of the reversed curve starts at P(l1) and ends at P(l0) of the source", || format!("{} -> {:?} .. {:?}", call(), va[0], va[va.len() - 1]));
                r.check((a.length() - t).abs() <= s.eps + 4.0 * s.tol, "a portion of the reversed curve has the length of the corresponding source portion", || format!("{} -> {:?}, expected {:?}", call(), a.length(), t));
                let inner: Vec<P> = if va.len() > 2 { va[1..va.len() - 1].to_vec() } else { vec![] };
                r.check(in_order(&inner, &exp, s.eps), "a portion of the reversed curve visits the source vertices in reverse source order", || format!("{} -> {:?}", call(), va));
            }
            Ok(None) => r.check(false, "a well-posed portion of the reversed curve exists (through the seam when the source is closed)", call),
            Err(why) => r.check(false, "between_lengths does not panic", || format!("{} -> {}", call(), why)),
        }
    } }
}

/// the consumers in airfoil/helpers.rs: whatever piece they select, it IS a portion of the section between the two
/// stations they cut at (starts at one, ends at the other, on the section, in order, arc-length difference)
fn check_consumers(r: &mut Report, c: &Curve2, desc: &str) {
    use crate::airfoil::helpers::{extract_curve_beyond_station, extract_edge_sub_curve};
    use crate::airfoil::InscribedCircle;
    use crate::geom2::polyline2::SpanningRay;
    use crate::geom2::UnitVec2;
    use crate::geom2::Vector2;
    use crate::Circle2;
    let s = Src::new(c, desc.to_string());
    dog::subject(&s.desc);
    let n = s.v.len();
    // cut positions: edge mid points and interior vertices (never the seam / the ends: the closest station is ambiguous there)
    let mut cuts = vec![];
    for i in 0..n - 1 { cuts.push(0.5 * (s.cu[i] + s.cu[i + 1])); if i > 0 { cuts.push(s.cu[i]); } }
    if cuts.len() > 14 { cuts = cuts.iter().cloned().step_by(cuts.len() / 12).collect(); }
    for &la in cuts.iter() { for &lb in cuts.iter() {
        if (la - lb).abs() < 64.0 * s.tol + 1e-6 * s.total { continue; }
        let (pa, pb) = (s.p(la), s.p(lb));
        // both cut points must be unambiguous: no other part of the curve within 1e-3 L of them (hairpins, crossings)
        if (0..n - 1).any(|i| { let mid = 0.5 * (s.cu[i] + s.cu[i + 1]); [la, lb].iter().any(|&l| (mid - l).abs() > 0.02 * s.total && (s.total - (mid - l).abs()) > 0.02 * s.total && super::c05::seg_dist(&s.v[i], &s.v[i + 1], &s.p(l)) < 1e-3 * s.total) }) { continue; }
        let ctr = [(pa[0] + pb[0]) * 0.5, (pa[1] + pb[1]) * 0.5, 0.0];
        let st = InscribedCircle::new(SpanningRay::new(to2(&pa), to2(&pb)), to2(&pa), to2(&pb), Circle2::new(ctr[0], ctr[1], 0.5 * d(&pa, &pb)));
        for which in 0..4 {
            r.case();
            let (res, text) = match which {
                0 => (guarded(|| extract_edge_sub_curve(c, &st, None)), "extract_edge_sub_curve(section, station, None)".to_string()),
                1 => (guarded(|| extract_edge_sub_curve(c, &st, Some(0.75))), "extract_edge_sub_curve(section, station, Some(0.75))".to_string()),
                2 => (guarded(|| extract_curve_beyond_station(c, &st, &UnitVec2::new_normalize(Vector2::new(1.0, 0.25)))), "extract_curve_beyond_station(section, station, (1, 0.25))".to_string()),
                _ => (guarded(|| extract_curve_beyond_station(c, &st, &UnitVec2::new_normalize(Vector2::new(-0.5, -1.0)))), "extract_curve_beyond_station(section, station, (-0.5, -1))".to_string()),
            };
            let call = || format!("{} with section = {}, station cut at the section's points at lengths {:?} and {:?} ({:?}, {:?})", text, s.desc, la, lb, pa, pb);
            match res {
                Err(why) => r.check(false, "airfoil helpers: extracting a sub-curve does not panic", || format!("{} -> {}", call(), why)),
                Ok(None) => {}
                Ok(Some(piece)) => {
                    let v = pts_of(&piece);
                    let (x, y) = if d(&v[0], &pa) <= d(&v[0], &pb) { (la, lb) } else { (lb, la) };
                    if s.travel(x, y).is_none() { r.check(false, "airfoil helpers: the extracted sub-curve is a portion of the section between the two cut stations", call); continue; }
                    check_piece(r, &s, &piece, x, y, "airfoil helpers (extract_edge_sub_curve / extract_curve_beyond_station)", &call);
                }
            }
        }
    } }
}

const OPS: [&str; 7] = [".between_lengths", ".trim_front", ".trim_back", ".split_open_at_length", ".split_closed_at_lengths", ".between_lengths_by_control", ".reversed"];
const BOUND: &str = "Curve2: 11 families with small integer/dyadic vertices (open, naturally closed, force-closed, uneven vertex density) x scales 2^-9, 1, 2^6, tol = 2^-16*scale; between_lengths over every ordered pair of probes {0, L, vertex lengths, vertex lengths -2tol/-tol/4/+tol/2/+3tol, edge mid and quarter points, -L, 2L}; trims and splits at every probe; between_lengths_by_control over (a, b, control) from {0, L, vertex lengths, edge mid points} (+ controls out of range); reversal at every probe; the same checks (reduced probe set) on every 5th extracted portion as a second portioning step; PLUS (wave 5) 29 more families: closed within tolerance (gap tol/2 .. tol) / gap just above tol, asymmetric non-convex closed hexagon (closed, force-closed, seam mid-edge, clockwise), hairpin, figure eight, single segment, tol in {0, 0.3, 1e-12}, offsets 1e3 / 1e6 / 1e8 from the origin, scales 2^-30 / 2^20, with tie probes (vertex lengths +-1 ulp, -5e-324, L + 1 ulp, -0.0, +-sqrt(tol)); long curves of 70 .. 4200 vertices (open stair, closed / force-closed comb) probed around vertex indices 1, 32, 64, 128, 1024, 4096, n/2, n-1; six scripts of up to six successive portioning steps checked against the original curve; reversal vs portioning for every pair of a reduced probe set; airfoil::helpers::{extract_edge_sub_curve, extract_curve_beyond_station} on every pair of cut points (edge mid points and interior vertices)";
pub fn run() -> Option<Report> { Some(dog::run(BOUND, &OPS, run_inner)) }

fn run_inner() -> Report {
    let mut r = Report::new(BOUND);
    for (name, dim, pts, fc, _) in base_shapes() {
        if dim != 2 { continue; }
        for k in [-9i32, 0, 6] {
            let f = 2f64.powi(k);
            let v: Vec<Point2> = pts.iter().map(|q| to2(&[q[0] * f, q[1] * f, 0.0])).collect();
            let tol = f / 65536.0;
            let c = match Curve2::from_points(&v, tol, fc) { Ok(c) => c, Err(_) => continue };
            let ps: Vec<String> = v.iter().map(|p| format!("({:?},{:?})", p.x, p.y)).collect();
            let desc = format!("Curve2::from_points([{}], tol={:?}, force_closed={}) [{} x 2^{}]", ps.join(","), tol, fc, name, k);
            check_curve(&mut r, &c, desc.clone(), 0, k == 0);
            check_chains(&mut r, &c, &desc);
            if k == 0 { check_reversal_pairs(&mut r, &c, &desc); check_consumers(&mut r, &c, &desc); }
        }
    }
    // wave 5 families
    for (name, pts, tol, fc, ties) in extra_families() {
        let v: Vec<Point2> = pts.iter().map(|q| Point2::new(q.0, q.1)).collect();
        let desc = describe(&name, &v, tol, fc);
        let c = match Curve2::from_points(&v, tol, fc) { Ok(c) => c, Err(_) => { r.check(false, "the curve of the enumerated family can be built", || desc.clone()); continue } };
        if name.contains("closed") && !name.contains("gap") { r.check(c.is_closed(), "a curve whose end points are within tol of each other (or force-closed) is closed", || desc.clone()); }
        if name.contains("gap") || name.contains("open") || name == "segment" { r.check(!c.is_closed(), "a curve whose end points are farther apart than tol is open", || desc.clone()); }
        check_curve(&mut r, &c, desc.clone(), 0, ties);
        check_chains(&mut r, &c, &desc);
        check_reversal_pairs(&mut r, &c, &desc);
        if tol < 0.1 { check_consumers(&mut r, &c, &desc); }
    }
    for (name, pts, tol, fc) in long_families() {
        let v: Vec<Point2> = pts.iter().map(|q| Point2::new(q.0, q.1)).collect();
        let desc = describe(&name, &v, tol, fc);
        let c = match Curve2::from_points(&v, tol, fc) { Ok(c) => c, Err(_) => { r.check(false, "the curve of the enumerated family can be built", || desc.clone()); continue } };
        r.check(c.count() == v.len() + if fc { 1 } else { 0 }, "a long curve keeps all its vertices", || desc.clone());
        check_curve(&mut r, &c, desc.clone(), 0, false);
        if c.count() <= 200 { check_chains(&mut r, &c, &desc); check_reversal_pairs(&mut r, &c, &desc); }
    }
    r
}
