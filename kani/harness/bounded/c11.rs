//! C11 bounded: circle / arc / tangent constructions against their defining constraints.
//! Circle pairs over a grid of centres (integer offsets with integer centre distances 0, 3, 4, 5, 10, 13 and a few
//! irrational ones) and radii; external points at distance ratios d/r from 1+1e-9 to 1e3 in 6 directions; segments
//! (long chords, exactly tangent ones, partially inside, outside) and closed polylines against circles; all ordered
//! triples of the 12 integer points of the radius-5 circle (3 centres); arcs over a grid of centres, radii, start
//! angles and signed sweeps up to +-2pi. Every returned coordinate must be finite.
//! Cached boxes of circles: a circle obtained from EVERY public producer (new, from_point, clone, from_3_points,
//! fitting_circle with initial guesses different from the answer, ransac, the `circle` field of every arc constructor)
//! must carry the box [cx - r, cx + r] x [cy - r, cy + r] of the centre and radius it reports.
use super::Report;
use crate::common::Intersection;
use crate::geom2::{Arc2, Circle2, Curve2, HasBounds2, Point2, Segment2};
use std::f64::consts::PI;

const T: f64 = 1e-9;
fn p(x: f64, y: f64) -> Point2 { Point2::new(x, y) }
fn d2(a: &Point2, b: &Point2) -> f64 { ((a.x - b.x).powi(2) + (a.y - b.y).powi(2)).sqrt() }
fn fin(q: &Point2) -> bool { q.x.is_finite() && q.y.is_finite() }
fn on_circle(q: &Point2, c: &Circle2) -> bool { fin(q) && (d2(q, &c.center) - c.r()).abs() <= T * (1.0 + c.r() + c.center.x.abs() + c.center.y.abs()) }
fn near(a: &Point2, b: &Point2, scale: f64) -> bool { fin(a) && fin(b) && d2(a, b) <= T * (1.0 + scale) }
fn cs(c: &Circle2) -> (f64, f64, f64) { (c.x(), c.y(), c.r()) }
fn ps(v: &[Point2]) -> Vec<(f64, f64)> { v.iter().map(|q| (q.x, q.y)).collect() }

// ---------------------------------------------------------------- circle x circle
fn check_circle_pairs(r: &mut Report) {
    let centres0 = [(0.0, 0.0), (1.5, -2.0), (-100.0, 40.0)];
    let offsets = [(0.0, 0.0), (3.0, 0.0), (0.0, -4.0), (3.0, 4.0), (-5.0, 12.0), (6.0, -8.0), (1.0, 1.0), (0.5, 0.0), (-2.0, 0.25), (0.0, 1.0), (8.0, 0.0), (2.0, 0.0)];
    let radii = [0.5, 1.0, 2.0, 3.0, 4.0, 5.0, 8.0, 9.0];
    for c0 in centres0 { for off in offsets { for r0 in radii { for r1 in radii {
        let a = Circle2::new(c0.0, c0.1, r0);
        let b = Circle2::new(c0.0 + off.0, c0.1 + off.1, r1);
        let d = (off.0 * off.0 + off.1 * off.1 as f64).sqrt(); // exact for the pythagorean / axis offsets
        let (rs, rd) = (r0 + r1, (r0 - r1).abs());
        // expected count; configurations within 1e-6 of (but not exactly at) tangency are not part of the input space
        let expected = if d == 0.0 { 0 } else if d == rs || d == rd { 1 } else if (d - rs).abs() < 1e-6 || (d - rd).abs() < 1e-6 { continue } else if d > rs || d < rd { 0 } else { 2 };
        r.case();
        let got = a.intersections_with(&b);
        let desc = || format!("circle {:?} x circle {:?} (centre distance {:?}, r0+r1 {:?}, |r0-r1| {:?}) -> {:?}", cs(&a), cs(&b), d, rs, rd, ps(&got));
        r.check(got.iter().all(fin), "circle-circle intersection: no non-finite coordinate", desc);
        r.check(got.len() == expected, "circle-circle intersection: count matches the configuration (0 separate / nested / concentric, 1 tangent, 2 crossing)", || format!("{} expected {}", desc(), expected));
        r.check(got.iter().all(|q| on_circle(q, &a) && on_circle(q, &b)), "circle-circle intersection: every returned point lies on both circles", desc);
        if got.len() == 2 { r.check(d2(&got[0], &got[1]) > 1e-7, "circle-circle intersection: two crossing points are distinct", desc); }
        let iv = a.intersection_interval(b);
        r.check(iv.is_some() == (expected > 0), "intersection_interval is produced exactly when the circles meet", desc);
    } } } }
}

// ---------------------------------------------------------------- tangents from a point
fn check_tangent_points(r: &mut Report) {
    let circles = [(0.0, 0.0, 1.0), (3.0, -2.0, 5.0), (-40.0, 25.0, 0.125), (7.0, 7.0, 1000.0)];
    let dirs = [(1.0, 0.0), (0.0, 1.0), (0.6, 0.8), (-5.0 / 13.0, 12.0 / 13.0), (-0.6, -0.8), (0.0, -1.0)];
    let ratios = [1.0 + 1e-9, 1.0 + 1e-6, 1.001, 1.1, std::f64::consts::SQRT_2, 2.0, 3.0, 10.0, 1000.0];
    for (cx, cy, rad) in circles { let c = Circle2::new(cx, cy, rad); for (ux, uy) in dirs {
        for ratio in ratios {
            let q = p(cx + ux * rad * ratio, cy + uy * rad * ratio);
            if d2(&q, &c.center) <= rad { continue; }
            r.case();
            let got = c.tangent_points_to(&q);
            let desc = || format!("circle {:?}.tangent_points_to({:?}) (d/r = {:?}) -> {:?}", cs(&c), (q.x, q.y), d2(&q, &c.center) / rad, got.map(|(a, b)| ((a.x, a.y), (b.x, b.y))));
            match got {
                None => r.check(false, "tangent points exist for a point outside the circle", desc),
                Some((t0, t1)) => {
                    r.check(fin(&t0) && fin(&t1), "tangent points: no non-finite coordinate", desc);
                    r.check(on_circle(&t0, &c) && on_circle(&t1, &c), "tangent points lie on the circle", desc);
                    let perp = |t: &Point2| { let dot = (t.x - cx) * (q.x - t.x) + (t.y - cy) * (q.y - t.y); dot.abs() <= 1e-7 * rad * d2(&q, t) };
                    r.check(perp(&t0) && perp(&t1), "tangent line through the external point is perpendicular to the radius", desc);
                    // documented order: first point left (negative normal side) of the line point -> centre, second right
                    let (lx, ly) = (cx - q.x, cy - q.y);
                    let side = |t: &Point2| (t.x - q.x) * ly - (t.y - q.y) * lx; // > 0 on the right
                    r.check(side(&t0) < 0.0 && side(&t1) > 0.0, "tangent points in the documented left / right order", desc);
                }
            }
        }
        // on the perimeter and just inside: no tangent points
        for ratio in [1.0, 1.0 - 1e-9, 0.5, 0.0] {
            let q = p(cx + ux * rad * ratio, cy + uy * rad * ratio);
            if d2(&q, &c.center) > rad { continue; }
            r.case();
            let got = c.tangent_points_to(&q);
            r.check(got.is_none(), "no tangent points for a point on or inside the perimeter", || format!("circle {:?}.tangent_points_to({:?}) -> {:?}", cs(&c), (q.x, q.y), got.map(|(a, b)| ((a.x, a.y), (b.x, b.y)))));
        }
        // projection to the perimeter
        for ratio in [0.25, 1.0, 3.0] {
            let q = p(cx + ux * rad * ratio, cy + uy * rad * ratio);
            r.case();
            let got = c.project_point_to_perimeter(&q);
            let e = p(cx + ux * rad, cy + uy * rad);
            r.check(match got { Some(g) => near(&g, &e, rad + cx.abs() + cy.abs()), None => false }, "projection to the perimeter lies on the circle along the centre-to-point direction", || format!("circle {:?}.project_point_to_perimeter({:?}) -> {:?}", cs(&c), (q.x, q.y), got.map(|g| (g.x, g.y))));
            r.check((c.distance_to(&q) - rad * (ratio - 1.0)).abs() <= T * (1.0 + rad * ratio.max(1.0) + cx.abs() + cy.abs()), "distance_to is the signed distance to the perimeter", || format!("circle {:?}.distance_to({:?}) -> {:?}", cs(&c), (q.x, q.y), c.distance_to(&q)));
        }
    }
        r.check(c.project_point_to_perimeter(&c.center).is_none(), "projection of the centre to the perimeter is undefined (None)", || format!("circle {:?}", cs(&c)));
    }
}

// ---------------------------------------------------------------- outer tangents
fn check_outer_tangents(r: &mut Report) {
    let centres0 = [(0.0, 0.0), (1.5, -2.0)];
    let offsets = [(0.0, 0.0), (3.0, 0.0), (0.0, -4.0), (3.0, 4.0), (-5.0, 12.0), (6.0, -8.0), (1.0, 1.0), (0.5, 0.0), (-2.0, 0.25), (2.0, 2.0)];
    let radii = [0.5, 1.0, 2.0, 3.0, 5.0, 8.0];
    for c0 in centres0 { for off in offsets { for r0 in radii { for r1 in radii {
        let a = Circle2::new(c0.0, c0.1, r0);
        let b = Circle2::new(c0.0 + off.0, c0.1 + off.1, r1);
        let d = (off.0 * off.0 + off.1 * off.1 as f64).sqrt();
        let rd = (r0 - r1).abs();
        r.case();
        let got = a.outer_tangents_to(&b);
        let show = |s: &Segment2| ((s.a.x, s.a.y), (s.b.x, s.b.y));
        let desc = || format!("circle {:?}.outer_tangents_to(circle {:?}) (centre distance {:?}, |r0-r1| {:?}) -> {:?}", cs(&a), cs(&b), d, rd, got.as_ref().map(|(s0, s1)| (show(s0), show(s1))));
        if d == 0.0 { r.check(got.is_none(), "no outer tangents for concentric circles", desc); continue; }
        if d <= rd + 1e-6 {
            // one circle inside the other (or internally tangent): nothing to touch; whatever is returned must be finite
            if let Some((s0, s1)) = got.as_ref() { r.check(fin(&s0.a) && fin(&s0.b) && fin(&s1.a) && fin(&s1.b), "outer tangents: no non-finite coordinate", desc); }
            if d < rd - 1e-6 { r.check(got.is_none(), "no outer tangents when one circle lies strictly inside the other", desc); }
            continue;
        }
        match got.as_ref() {
            None => r.check(false, "outer tangents exist for circles of which neither contains the other", desc),
            Some((s0, s1)) => {
                r.check(fin(&s0.a) && fin(&s0.b) && fin(&s1.a) && fin(&s1.b), "outer tangents: no non-finite coordinate", desc);
                let scale = 1.0 + r0 + r1 + d;
                let touches = |s: &Segment2| {
                    let (tx, ty) = (s.b.x - s.a.x, s.b.y - s.a.y);
                    let l = (tx * tx + ty * ty).sqrt();
                    on_circle(&s.a, &a) && on_circle(&s.b, &b)
                        && ((s.a.x - a.x()) * tx + (s.a.y - a.y()) * ty).abs() <= 1e-8 * scale * l
                        && ((s.b.x - b.x()) * tx + (s.b.y - b.y()) * ty).abs() <= 1e-8 * scale * l
                };
                r.check(touches(s0) && touches(s1), "outer tangent segments start on this circle, end on the other and are perpendicular to both radii", desc);
                // outer (not crossing) tangents: both ends of a segment on the same side of the centre line
                let side = |q: &Point2| (q.x - a.x()) * off.1 - (q.y - a.y()) * off.0; // > 0 on the right of the line a -> b
                r.check(side(&s0.a) * side(&s0.b) > 0.0 && side(&s1.a) * side(&s1.b) > 0.0 && side(&s0.a) * side(&s1.a) < 0.0, "outer tangent segments lie on opposite sides of the centre line and do not cross it", desc);
                if rd < 1e-10 {
                    r.check(side(&s0.a) < 0.0 && side(&s1.a) > 0.0, "outer tangents of EQUAL-radius circles in the documented order (first left / negative normal side, second right)", desc);
                } else {
                    r.check(side(&s0.a) < 0.0 && side(&s1.a) > 0.0, "outer tangents in the documented order (first left / negative normal side, second right)", desc);
                }
            }
        }
    } } } }
}

// ---------------------------------------------------------------- circle x segment, curve x circle
/// parameters in [0,1] at which the segment a-b meets the circle, None when an end point is within 1e-6 of the perimeter
/// or the line is within 1e-6 of tangency without being exactly tangent
fn seg_circle_count(a: &Point2, b: &Point2, c: &Circle2) -> Option<usize> {
    let (dx, dy) = (b.x - a.x, b.y - a.y);
    let (fx, fy) = (a.x - c.x(), a.y - c.y());
    let l2 = dx * dx + dy * dy;
    let tc = -(fx * dx + fy * dy) / l2;
    let (qx, qy) = (fx + tc * dx, fy + tc * dy);
    let dist = (qx * qx + qy * qy).sqrt();
    for e in [a, b] { if (d2(e, &c.center) - c.r()).abs() < 1e-6 { return None; } }
    if dist == c.r() { return Some(if tc >= 0.0 && tc <= 1.0 { 1 } else { 0 }); }
    if (dist - c.r()).abs() < 1e-6 { return None; }
    if dist > c.r() { return Some(0); }
    let th = ((c.r() * c.r() - dist * dist) / l2).sqrt();
    Some([tc - th, tc + th].iter().filter(|t| **t >= 0.0 && **t <= 1.0).count())
}
fn on_segment(q: &Point2, a: &Point2, b: &Point2) -> bool {
    let (ex, ey) = (b.x - a.x, b.y - a.y);
    let l2 = ex * ex + ey * ey;
    let s = (((q.x - a.x) * ex + (q.y - a.y) * ey) / l2).clamp(0.0, 1.0);
    d2(q, &p(a.x + s * ex, a.y + s * ey)) <= T * (1.0 + l2.sqrt() + a.x.abs() + a.y.abs())
}
fn check_lines(r: &mut Report) {
    let circles = [(0.0, 0.0, 5.0), (3.0, -2.0, 5.0), (-10.0, 20.0, 2.5), (0.5, 0.25, 1.0)];
    for (cx, cy, rad) in circles {
        let c = Circle2::new(cx, cy, rad);
        let k = rad / 5.0;
        let mut segs: Vec<(Point2, Point2)> = vec![];
        // exactly tangent lines: axis-parallel at +-r, oblique at the 3-4-5 points
        segs.push((p(cx - 10.0, cy + rad), p(cx + 10.0, cy + rad)));
        segs.push((p(cx - rad, cy - 7.0), p(cx - rad, cy + 9.0)));
        segs.push((p(cx + 7.0 * k, cy + 1.0 * k), p(cx - 1.0 * k, cy + 7.0 * k)));       // touches at (3k, 4k)
        segs.push((p(cx - 4.0 * k + 6.0 * k, cy - 3.0 * k - 8.0 * k), p(cx - 4.0 * k - 6.0 * k, cy - 3.0 * k + 8.0 * k))); // touches at (-4k, -3k)
        // tangent line, but the segment stops short of the touching point
        segs.push((p(cx + 1.0, cy + rad), p(cx + 10.0, cy + rad)));
        // chords, partially inside, inside, outside; offsets from the centre over a grid
        for off in [0.0, 0.25, 0.5, 0.75, 0.96875, 1.03125, 2.0] {
            segs.push((p(cx - 3.0 * rad, cy + off * rad), p(cx + 3.0 * rad, cy + off * rad)));
            segs.push((p(cx - off * rad, cy - 2.0 * rad), p(cx - off * rad, cy + 4.0 * rad)));
            segs.push((p(cx + off * rad, cy), p(cx + off * rad + 3.0 * rad, cy + 1.5 * rad)));
            segs.push((p(cx - 2.0 * rad, cy - 2.0 * rad - off * rad), p(cx + 2.0 * rad, cy + 2.0 * rad - off * rad)));
            segs.push((p(cx + 0.25 * rad, cy + 0.125 * rad), p(cx + 0.25 * rad + off * rad, cy - 0.5 * rad)));
        }
        for (a, b) in segs.iter() {
            for (a, b) in [(a, b), (b, a)] {
                let expected = match seg_circle_count(a, b, &c) { Some(e) => e, None => continue };
                let s = match Segment2::try_new(*a, *b) { Ok(s) => s, Err(_) => continue };
                r.case();
                let got = c.intersection(&s);
                let desc = || format!("circle {:?} x segment {:?}-{:?} -> {:?} (expected {} points)", cs(&c), (a.x, a.y), (b.x, b.y), ps(&got), expected);
                r.check(got.iter().all(fin), "circle-segment intersection: no non-finite coordinate", desc);
                r.check(got.len() == expected, "circle-segment intersection: count matches the configuration (0 apart, 1 tangent or one end inside, 2 crossing)", desc);
                r.check(got.iter().all(|q| on_circle(q, &c) && on_segment(q, a, b)), "circle-segment intersection: every returned point lies on the circle and on the segment", desc);
            }
        }
    }
    // a line within the documented tolerance (1e-10) of tangency, just outside: the single tangent point
    for (cx, cy, rad) in [(0.0, 0.0, 5.0), (3.0, -2.0, 5.0)] {
        let c = Circle2::new(cx, cy, rad);
        let e = 1.0 / 1099511627776.0; // 2^-40
        for (a, b) in [(p(cx - 10.0, cy + rad + e), p(cx + 10.0, cy + rad + e)), (p(cx - rad - e, cy + 8.0), p(cx - rad - e, cy - 8.0))] {
            let s = Segment2::try_new(a, b).unwrap();
            r.case();
            let got = c.intersection(&s);
            r.check(got.len() == 1 && on_circle(&got[0], &c) && on_segment(&got[0], &a, &b), "circle-segment intersection: a line within 1e-10 of tangency yields the single tangent point", || format!("circle {:?} x segment {:?}-{:?} (distance r + 2^-40) -> {:?}", cs(&c), (a.x, a.y), (b.x, b.y), ps(&got)));
        }
    }
    // closed and open polylines x circles
    let curves: Vec<Vec<Point2>> = vec![
        vec![p(0.0, 0.0), p(8.0, 0.0), p(8.0, 6.0), p(0.0, 6.0), p(0.0, 0.0)],
        vec![p(-6.0, -1.0), p(-3.0, 5.0), p(0.0, -1.0), p(3.0, 5.0), p(6.0, -1.0), p(9.0, 5.0)],
        vec![p(-2.0, 0.0), p(0.0, 4.0), p(2.0, 0.0), p(0.0, -4.0), p(-2.0, 0.0)],
    ];
    for pts in curves.iter() {
        let curve = match Curve2::from_points(pts, 1e-6, false) { Ok(c) => c, Err(_) => continue };
        for (cx, cy) in [(0.0, 0.0), (4.0, 3.0), (1.0, 2.5), (-3.0, 1.0), (8.0, 6.0)] { for rad in [0.75, 2.25, 3.5, 5.5, 20.0] {
            let c = Circle2::new(cx, cy, rad);
            let mut expected = 0; let mut skip = false;
            for i in 0..pts.len() - 1 { match seg_circle_count(&pts[i], &pts[i + 1], &c) { Some(e) => expected += e, None => skip = true } }
            if skip { continue; }
            r.case();
            let got = curve.intersection(&c);
            let desc = || format!("curve {:?} x circle {:?} -> {:?} (expected {} points)", ps(pts), cs(&c), ps(&got), expected);
            r.check(got.iter().all(fin), "curve-circle intersection: no non-finite coordinate", desc);
            r.check(got.len() == expected, "curve-circle intersection: count equals the sum over the edges", desc);
            r.check(got.iter().all(|q| on_circle(q, &c) && (0..pts.len() - 1).any(|i| on_segment(q, &pts[i], &pts[i + 1]))), "curve-circle intersection: every returned point lies on the circle and on the curve", desc);
        } }
    }
}

// ---------------------------------------------------------------- arcs
fn circle_pt(cx: f64, cy: f64, rad: f64, a: f64) -> Point2 { p(cx + rad * a.cos(), cy + rad * a.sin()) }

fn check_three_point_arcs(r: &mut Report) {
    let ring = [(5.0, 0.0), (4.0, 3.0), (3.0, 4.0), (0.0, 5.0), (-3.0, 4.0), (-4.0, 3.0), (-5.0, 0.0), (-4.0, -3.0), (-3.0, -4.0), (0.0, -5.0), (3.0, -4.0), (4.0, -3.0)];
    for (cx, cy) in [(0.0, 0.0), (2.0, -7.0), (-30.0, 11.0)] {
        for i in 0..12 { for j in 0..12 { for k in 0..12 {
            if i == j || j == k || i == k { continue; }
            let q = |m: usize| p(cx + ring[m].0, cy + ring[m].1);
            let (p0, p1, p2) = (q(i), q(j), q(k));
            r.case();
            let arc = Arc2::three_points(p0, p1, p2);
            let desc = || format!("Arc2::three_points({:?}, {:?}, {:?}) -> centre ({:?}, {:?}) r {:?} angle0 {:?} sweep {:?}", (p0.x, p0.y), (p1.x, p1.y), (p2.x, p2.y), arc.center().x, arc.center().y, arc.radius(), arc.angle0, arc.angle);
            let scale = 5.0 + cx.abs() + cy.abs();
            r.check(arc.angle.is_finite() && arc.angle0.is_finite() && fin(&arc.center()) && arc.radius().is_finite(), "three-point arc: no non-finite value", desc);
            r.check(near(&arc.center(), &p(cx, cy), scale) && (arc.radius() - 5.0).abs() <= T * scale, "three-point arc lies on the circle through the three points", desc);
            r.check(near(&arc.start(), &p0, scale), "three-point arc starts at the first point", desc);
            r.check(near(&arc.end(), &p2, scale), "three-point arc ends at the third point", desc);
            // sweep sign: counter-clockwise (positive) exactly when p0 -> p1 -> p2 turns left
            let turn = (p1.x - p0.x) * (p2.y - p1.y) - (p1.y - p0.y) * (p2.x - p1.x);
            r.check((arc.angle > 0.0) == (turn > 0.0) && arc.angle.abs() <= 2.0 * PI + 1e-12 && arc.angle != 0.0, "three-point arc sweeps counter-clockwise (positive) exactly when the points turn left, by at most a full turn", desc);
            // passes through the second point: its angle, measured from the start in the sweep direction, is inside the sweep
            let a1 = (p1.y - cy).atan2(p1.x - cx);
            let mut da = if arc.angle > 0.0 { a1 - arc.angle0 } else { arc.angle0 - a1 };
            while da < 0.0 { da += 2.0 * PI; }
            while da >= 2.0 * PI { da -= 2.0 * PI; }
            let f = da / arc.angle.abs();
            r.check(f > 0.0 && f < 1.0 && near(&arc.point_at_fraction(f), &p1, scale), "three-point arc passes through the second point between its ends", || format!("{} fraction {:?}", desc(), f));
            check_arc_box(r, &arc, &desc());
        } } }
    }
}

/// bounding box: contains the arc and touches it on all four sides (candidates: both ends, every multiple of pi/2
/// inside the sweep, 720 samples)
fn check_arc_box(r: &mut Report, arc: &Arc2, what: &str) {
    let (cx, cy, rad) = (arc.center().x, arc.center().y, arc.radius());
    let (a0, sw) = (arc.angle0, arc.angle);
    let (lo, hi) = if sw >= 0.0 { (a0, a0 + sw) } else { (a0 + sw, a0) };
    let mut cand: Vec<Point2> = vec![circle_pt(cx, cy, rad, a0), circle_pt(cx, cy, rad, a0 + sw)];
    let k0 = (lo / (PI / 2.0)).ceil() as i64;
    let k1 = (hi / (PI / 2.0)).floor() as i64;
    for k in k0..=k1 { let m = ((k % 4) + 4) % 4; let (ux, uy) = [(1.0, 0.0), (0.0, 1.0), (-1.0, 0.0), (0.0, -1.0)][m as usize]; cand.push(p(cx + rad * ux, cy + rad * uy)); }
    for i in 0..=720 { cand.push(circle_pt(cx, cy, rad, a0 + sw * i as f64 / 720.0)); }
    let (mut x0, mut x1, mut y0, mut y1) = (f64::MAX, f64::MIN, f64::MAX, f64::MIN);
    for q in cand.iter() { x0 = x0.min(q.x); x1 = x1.max(q.x); y0 = y0.min(q.y); y1 = y1.max(q.y); }
    let bb = arc.aabb();
    let tol = 1e-9 * (1.0 + rad + cx.abs() + cy.abs());
    let desc = || format!("{}: cached box [{:?}, {:?}] x [{:?}, {:?}], extent of the arc [{:?}, {:?}] x [{:?}, {:?}]", what, bb.mins.x, bb.maxs.x, bb.mins.y, bb.maxs.y, x0, x1, y0, y1);
    r.check(bb.mins.x.is_finite() && bb.mins.y.is_finite() && bb.maxs.x.is_finite() && bb.maxs.y.is_finite(), "arc bounding box: no non-finite coordinate", desc);
    r.check(bb.mins.x <= x0 + tol && bb.mins.y <= y0 + tol && bb.maxs.x >= x1 - tol && bb.maxs.y >= y1 - tol, "cached bounding box of an arc contains it", desc);
    r.check(bb.mins.x >= x0 - tol && bb.mins.y >= y0 - tol && bb.maxs.x <= x1 + tol && bb.maxs.y <= y1 + tol, "cached bounding box of an arc touches it on all four sides", desc);
}

fn check_arcs(r: &mut Report) {
    let centres = [(0.0, 0.0), (3.0, -2.0), (-50.0, 75.0)];
    let radii = [0.25, 1.0, 7.5];
    let mut starts: Vec<f64> = (-6..=6).map(|k| k as f64 * PI / 6.0).collect();
    starts.extend_from_slice(&[0.3, -2.9, 1.5707, 3.1, -0.001]);
    let mut sweeps: Vec<f64> = (-16..=16).filter(|k| *k != 0).map(|k| k as f64 * PI / 8.0).collect();
    sweeps.extend_from_slice(&[0.3, -1.7, 5.9, -6.2, 0.001, -0.001, 4.0, -3.3]);
    for (cx, cy) in centres { for rad in radii { for &a0 in starts.iter() { for &sw in sweeps.iter() {
        r.case();
        let arc = Arc2::circle_angles(p(cx, cy), rad, a0, sw);
        let what = format!("Arc2::circle_angles(({:?}, {:?}), r {:?}, angle0 {:?}, sweep {:?})", cx, cy, rad, a0, sw);
        let scale = rad + cx.abs() + cy.abs();
        let len = arc.length();
        r.check((len - rad * sw.abs()).abs() <= T * (1.0 + len), "arc length == radius * |sweep|", || format!("{} length {:?}", what, len));
        r.check(near(&arc.start(), &circle_pt(cx, cy, rad, a0), scale) && near(&arc.end(), &circle_pt(cx, cy, rad, a0 + sw), scale), "arc starts at angle0 and ends at angle0 + sweep", || format!("{} start {:?} end {:?}", what, (arc.start().x, arc.start().y), (arc.end().x, arc.end().y)));
        let mut ok = true; let mut bad = String::new();
        for f in [0.0, 0.125, 0.5, 0.8125, 1.0] {
            let l = len * f;
            // travelling the length l from the start in the sweep direction (clockwise for a negative sweep)
            let e = circle_pt(cx, cy, rad, a0 + sw.signum() * l / rad);
            let by_len = arc.point_at_length(l);
            let by_frac = arc.point_at_fraction(f);
            let by_ang = arc.point_at_angle(sw * f);
            if !(near(&by_len, &e, scale) && near(&by_frac, &e, scale) && near(&by_ang, &e, scale)) { ok = false; bad = format!("fraction {:?}: point_at_length {:?}, point_at_fraction {:?}, point_at_angle {:?}, expected {:?}", f, (by_len.x, by_len.y), (by_frac.x, by_frac.y), (by_ang.x, by_ang.y), (e.x, e.y)); }
        }
        r.check(ok, "point_at_length, point_at_fraction and point_at_angle agree with travelling along the arc from its start in the sweep direction", || format!("{} {}", what, bad));
        check_arc_box(r, &arc, &what);
        // the other constructors give the same arc
        let c = Circle2::new(cx, cy, rad);
        let a2 = c.to_partial_arc(a0, sw);
        let a3 = Arc2::circle_point_angle(p(cx, cy), rad, circle_pt(cx, cy, rad, a0), sw);
        r.check(near(&a2.start(), &arc.start(), scale) && near(&a2.end(), &arc.end(), scale) && near(&a3.start(), &arc.start(), scale) && near(&a3.end(), &arc.end(), scale) && a3.angle == sw && a2.angle == sw, "to_partial_arc and circle_point_angle build the same arc as circle_angles", || what.clone());
        check_arc_box(r, &a3, &format!("circle_point_angle form of {}", what));
        check_arc_box(r, &a2, &format!("Circle2::to_partial_arc form of {}", what));
    } } } }
    // circles: box == [c - r, c + r]; full arc of a circle
    for (cx, cy) in centres { for rad in radii {
        r.case();
        let c = Circle2::new(cx, cy, rad);
        let bb = c.aabb();
        r.check(bb.mins.x == cx - rad && bb.maxs.x == cx + rad && bb.mins.y == cy - rad && bb.maxs.y == cy + rad, "cached bounding box of a circle contains it and touches it on all four sides", || format!("circle {:?}: box [{:?}, {:?}] x [{:?}, {:?}]", cs(&c), bb.mins.x, bb.maxs.x, bb.mins.y, bb.maxs.y));
        let full = c.to_arc();
        r.check((full.length() - 2.0 * PI * rad).abs() <= T * (1.0 + rad) && near(&full.start(), &full.end(), rad + cx.abs() + cy.abs()), "full arc of a circle has length 2 pi r and closes", || format!("circle {:?}", cs(&c)));
        check_arc_box(r, &full, &format!("to_arc of circle {:?}", cs(&c)));
        for k in 0..16 { let a = k as f64 * PI / 8.0 + 0.1; r.check(on_circle(&c.point_at_angle(a), &c), "point_at_angle lies on the circle", || format!("circle {:?} angle {:?}", cs(&c), a)); }
    } }
}

// ---------------------------------------------------------------- round 4: LONG sweeps (>= 270 degrees) through EVERY arc constructor
/// arcs whose sweep is at least three quarter turns but which still leave out one axis extreme of the circle (start 30
/// degrees, sweep +300 degrees misses angle 0), and long arcs that pass all four: built by Arc2::circle_angles,
/// Circle2::to_partial_arc, Arc2::circle_point_angle, Arc2::three_points (start, middle and end point of the sweep) and,
/// for the contact arcs of the airfoil code, InscribedCircle::contact_arc (two contact points 20 .. 90 degrees apart, the
/// direction vector pointing away from / into the gap between them)
fn check_long_arcs(r: &mut Report) {
    use crate::airfoil::InscribedCircle;
    use crate::geom2::polyline2::SpanningRay;
    use crate::geom2::{UnitVec2, Vector2};
    let centres = [(0.0, 0.0), (3.0, -2.0), (-50.0, 75.0)];
    let radii = [0.25, 2.0, 7.5];
    let starts = [30.0, 120.0, 210.0 - 360.0, 300.0 - 360.0, 45.0, 135.0, -135.0, -45.0, 10.0, 100.0, -170.0, -80.0, 0.0, 90.0, 180.0, -90.0];
    let sweeps = [270.0, 275.0, 285.0, 300.0, 315.0, 330.0, 345.0, 359.0];
    let mut missing_one = 0usize;
    for (cx, cy) in centres { for rad in radii { for a0d in starts { for swd in sweeps { for sign in [1.0, -1.0] {
        let (a0, sw): (f64, f64) = ((a0d as f64).to_radians(), (sign * swd as f64).to_radians());
        r.case();
        // does the sweep leave out an axis extreme?  (multiples of 90 degrees strictly outside the swept interval)
        let (lo, hi) = if sign > 0.0 { (a0d, a0d + swd) } else { (a0d - swd, a0d) };
        if (-8..=8).filter(|k| { let q = *k as f64 * 90.0; q >= lo && q <= hi }).count() < 4 { missing_one += 1; }
        let what = format!("centre ({:?}, {:?}) r {:?}, start {:?} degrees, sweep {:?} degrees", cx, cy, rad, a0d, sign * swd);
        let c = Circle2::new(cx, cy, rad);
        check_arc_box(r, &Arc2::circle_angles(p(cx, cy), rad, a0, sw), &format!("Arc2::circle_angles, {}", what));
        check_arc_box(r, &c.to_partial_arc(a0, sw), &format!("Circle2::to_partial_arc, {}", what));
        check_arc_box(r, &Arc2::circle_point_angle(p(cx, cy), rad, circle_pt(cx, cy, rad, a0), sw), &format!("Arc2::circle_point_angle, {}", what));
        let t = Arc2::three_points(circle_pt(cx, cy, rad, a0), circle_pt(cx, cy, rad, a0 + 0.5 * sw), circle_pt(cx, cy, rad, a0 + sw));
        r.check((t.angle - sw).abs() <= 1e-6, "three-point arc through the start, middle and end point of a long sweep has that sweep", || format!("Arc2::three_points, {} -> angle0 {:?} sweep {:?}", what, t.angle0, t.angle));
        check_arc_box(r, &t, &format!("Arc2::three_points (start, middle, end of the sweep), {}", what));
    } } } } }
    r.check(missing_one >= 800, "input space: long sweeps (>= 270 degrees) that leave out one axis extreme occur", || format!("{} of them", missing_one));
    // contact arcs
    let mut long_contact = 0usize;
    for (cx, cy) in centres { for rad in radii { for ud in [30.0, 100.0, -170.0, -80.0, 45.0, 0.0, 179.0] { for gap in [20.0, 60.0, 75.0, 90.0] { for gsign in [1.0, -1.0] { for dsign in [1.0, -1.0] {
        let (u, l): (f64, f64) = ((ud as f64).to_radians(), (ud as f64 + gsign * gap as f64).to_radians());
        let (pu, pl) = (circle_pt(cx, cy, rad, u), circle_pt(cx, cy, rad, l));
        let mid = 0.5 * (u + l);
        // the direction: along the bisector of the gap (dsign = 1: into the gap, short arc) or away from it (long arc)
        let dir = UnitVec2::new_normalize(Vector2::new(dsign * mid.cos(), dsign * mid.sin()));
        let ic = InscribedCircle::new(SpanningRay::new(pl, pu), pu, pl, Circle2::new(cx, cy, rad));
        r.case();
        let arc = ic.contact_arc(&dir);
        if arc.angle.abs() >= 1.5 * PI { long_contact += 1; }
        let what = format!("InscribedCircle::contact_arc (circle ({:?}, {:?}, r {:?}), contact points at {:?} and {:?} degrees, direction {:?}) -> angle0 {:?} sweep {:?}", cx, cy, rad, ud, ud + gsign * gap, (dir.x, dir.y), arc.angle0, arc.angle);
        check_arc_box(r, &arc, &what);
    } } } } } }
    r.check(long_contact >= 100, "input space: contact arcs with a sweep of at least 270 degrees occur", || format!("{} of them", long_contact));
}

// ---------------------------------------------------------------- cached boxes of circles from EVERY producer
/// the statement's clause for circles: the cached box contains the circle and touches it on all four sides, i.e. it is
/// [cx - r, cx + r] x [cy - r, cy + r] for the centre and radius the circle REPORTS (center / ball are what every
/// query uses); compared to relative 1e-12 (the box is a cached copy of one subtraction / addition)
fn check_circle_box(r: &mut Report, c: &Circle2, producer: &str, what: &dyn Fn() -> String) {
    let bb = c.aabb();
    let (cx, cy, rad) = (c.center.x, c.center.y, c.ball.radius);
    let tol = 1e-12 * (1.0 + rad.abs() + cx.abs() + cy.abs());
    let ok = bb.mins.x.is_finite() && bb.mins.y.is_finite() && bb.maxs.x.is_finite() && bb.maxs.y.is_finite()
        && (bb.mins.x - (cx - rad)).abs() <= tol && (bb.maxs.x - (cx + rad)).abs() <= tol
        && (bb.mins.y - (cy - rad)).abs() <= tol && (bb.maxs.y - (cy + rad)).abs() <= tol;
    r.check(ok, &format!("cached bounding box of a circle obtained from {} contains it and touches it on all four sides (box == centre +- r)", producer),
        || format!("{} -> circle {:?}: cached box [{:?}, {:?}] x [{:?}, {:?}]", what(), cs(c), bb.mins.x, bb.maxs.x, bb.mins.y, bb.maxs.y));
}

fn check_circle_boxes(r: &mut Report) {
    use crate::common::BestFit;
    let centres = [(0.0, 0.0), (3.0, -2.0), (-50.0, 75.0), (5.0, -3.0), (1500.0, -2000.0)];
    let radii = [0.0, 0.125, 1.0, 2.5, 7.5, 1000.0];
    // ---- Circle2::new / from_point (and a copy / clone of the value)
    for (cx, cy) in centres { for rad in radii {
        r.case();
        let a = Circle2::new(cx, cy, rad);
        check_circle_box(r, &a, "Circle2::new", &|| format!("Circle2::new({:?}, {:?}, {:?})", cx, cy, rad));
        let b = Circle2::from_point(p(cx, cy), rad);
        check_circle_box(r, &b, "Circle2::from_point", &|| format!("Circle2::from_point(({:?}, {:?}), {:?})", cx, cy, rad));
        let c = a.clone();
        check_circle_box(r, &c, "a clone of a circle", &|| format!("Circle2::new({:?}, {:?}, {:?}).clone()", cx, cy, rad));
    } }
    // ---- Circle2::from_3_points: triples of the 12 integer points of the radius-5 circle, scaled and moved
    let ring = [(5.0, 0.0), (4.0, 3.0), (3.0, 4.0), (0.0, 5.0), (-3.0, 4.0), (-4.0, 3.0), (-5.0, 0.0), (-4.0, -3.0), (-3.0, -4.0), (0.0, -5.0), (3.0, -4.0), (4.0, -3.0)];
    for (cx, cy) in centres { for k in [0.5, 1.0, 3.0] {
        for i in 0..12 { for j in 0..12 { for l in 0..12 {
            if i == j || j == l || i == l || (i + 2 * j + 3 * l) % 5 != 0 { continue; } // every fifth triple
            let q = |m: usize| p(cx + k * ring[m].0, cy + k * ring[m].1);
            r.case();
            let what = || format!("Circle2::from_3_points({:?}, {:?}, {:?})", (q(i).x, q(i).y), (q(j).x, q(j).y), (q(l).x, q(l).y));
            match Circle2::from_3_points(q(i), q(j), q(l)) {
                Ok(c) => {
                    check_circle_box(r, &c, "Circle2::from_3_points", &what);
                    r.check(near(&c.center, &p(cx, cy), 5.0 * k + cx.abs() + cy.abs()) && (c.r() - 5.0 * k).abs() <= 1e-7 * (1.0 + 5.0 * k + cx.abs() + cy.abs()), "from_3_points: the circle through three points of a known circle is that circle", &what);
                }
                Err(_) => r.check(false, "from_3_points: three distinct points of a circle are accepted", &what),
            }
        } } }
    } }
    // ---- Circle2::fitting_circle / fit_circle: sample points ON a known circle, initial guesses DIFFERENT from it
    let mut fitted_differs = 0usize;
    let mut fits = 0usize;
    for (cx, cy, rad) in [(5.0, -3.0, 2.5), (0.0, 0.0, 1.0), (-50.0, 75.0, 7.5), (12.0, 9.0, 20.0)] {
        for npts in [4usize, 7, 12, 36] {
            // the sample: full turn and a 200-degree portion
            for span in [2.0 * PI, 3.5] {
                let pts: Vec<Point2> = (0..npts).map(|i| circle_pt(cx, cy, rad, 0.3 + span * i as f64 / npts as f64)).collect();
                let guesses = [(cx - 1.0, cy + 1.0, rad * 0.4), (cx + 0.5 * rad, cy, rad), (cx, cy, rad * 1.5), (cx - 0.25 * rad, cy - 0.25 * rad, rad * 0.8), (cx + 0.125, cy - 0.0625, rad + 0.03125)];
                for (gx, gy, gr) in guesses { for mode in [BestFit::All, BestFit::Gaussian(3.0)] { {
                    let guess = Circle2::new(gx, gy, gr);
                    r.case();
                    // (fit_circle itself is private to geom2::circle2; fitting_circle is its only public entry)
                    let (producer, got) = ("Circle2::fitting_circle (fit_circle)", Circle2::fitting_circle(&pts, &guess, mode));
                    let what = || format!("{}({} points on circle ({:?}, {:?}, r {:?}) over {:?} rad from 0.3, guess {:?}, {:?})", producer, npts, cx, cy, rad, span, (gx, gy, gr), mode);
                    // a failed fit (Err) returns no circle: nothing to check
                    if let Ok(c) = got {
                        fits += 1;
                        if (c.x() - gx).abs() > 1e-3 || (c.y() - gy).abs() > 1e-3 || (c.r() - gr).abs() > 1e-3 { fitted_differs += 1; }
                        check_circle_box(r, &c, producer, &what);
                        r.check(fin(&c.center) && c.r().is_finite(), "fitted circle: no non-finite value", &what);
                    }
                } } }
            }
        }
    }
    r.check(fits >= 100 && fitted_differs * 2 >= fits, "coverage: the fits succeed and most fitted circles differ from their initial guess", || format!("{} successful fits, {} differ from the guess", fits, fitted_differs));
    // ---- Circle2::ransac (fixed internal seed => deterministic): points of a circle plus a few outliers
    for (cx, cy, rad) in [(5.0, -3.0, 2.5), (-50.0, 75.0, 7.5)] {
        let mut pts: Vec<Point2> = (0..24).map(|i| circle_pt(cx, cy, rad, 2.0 * PI * i as f64 / 24.0)).collect();
        pts.push(p(cx + 0.3 * rad, cy - 0.2 * rad)); pts.push(p(cx - 3.0 * rad, cy + 0.5 * rad)); pts.push(p(cx, cy));
        for (it, lo, hi) in [(None, None, None), (Some(50), Some(0.5 * rad), Some(2.0 * rad)), (Some(200), None, Some(10.0 * rad))] {
            r.case();
            let what = || format!("Circle2::ransac(24 points of circle ({:?}, {:?}, r {:?}) + 3 outliers, tol 1e-3, {:?}, {:?}, {:?})", cx, cy, rad, it, lo, hi);
            match Circle2::ransac(&pts, 1e-3, it, lo, hi) {
                Ok(c) => check_circle_box(r, &c, "Circle2::ransac", &what),
                Err(_) => r.check(false, "ransac: finds a candidate on points of a circle", &what),
            }
        }
    }
    // ---- the circles carried by arcs, and arcs made from circles
    for (cx, cy) in centres { for rad in [0.25, 1.0, 7.5] { for a0 in [-2.9, 0.0, 0.3, 1.5707] { for sw in [-6.2, -1.7, 0.001, 0.3, 4.0] {
        r.case();
        let what = || format!("centre ({:?}, {:?}) r {:?} angle0 {:?} sweep {:?}", cx, cy, rad, a0, sw);
        check_circle_box(r, &Arc2::circle_angles(p(cx, cy), rad, a0, sw).circle, "Arc2::circle_angles (field circle)", &what);
        check_circle_box(r, &Arc2::circle_point_angle(p(cx, cy), rad, circle_pt(cx, cy, rad, a0), sw).circle, "Arc2::circle_point_angle (field circle)", &what);
        let c = Circle2::new(cx, cy, rad);
        check_circle_box(r, &c.to_partial_arc(a0, sw).circle, "Circle2::to_partial_arc (field circle)", &what);
        check_circle_box(r, &c.to_arc().circle, "Circle2::to_arc (field circle)", &what);
        let (q0, q1, q2) = (circle_pt(cx, cy, rad, a0), circle_pt(cx, cy, rad, a0 + 0.5 * sw), circle_pt(cx, cy, rad, a0 + sw));
        if sw.abs() > 0.1 { check_circle_box(r, &Arc2::three_points(q0, q1, q2).circle, "Arc2::three_points (field circle)", &what); }
    } } } }
}

pub fn run() -> Option<Report> {
    let mut r = Report::new("circle pairs: 3 centres x 12 offsets (centre distances 0, 0.5, 1, 2, 3, 4, 5, 8, 10, 13, sqrt 2, ...) x 8 x 8 radii (separate, nested, internally / externally tangent, equal radii, concentric; within 1e-6 of tangency excluded unless exact); tangent points: 4 circles x 6 directions x d/r in {1+1e-9, 1+1e-6, 1.001, 1.1, sqrt 2, 2, 3, 10, 1e3} and points on / inside the perimeter; outer tangents: 2 centres x 10 offsets x 6 x 6 radii; segments: 4 circles x 40 segments (exactly tangent, chords, partial, inside, outside) in both senses, 3 polylines x 25 circles; three-point arcs: all ordered triples of the 12 integer points of the radius-5 circle x 3 centres; arcs: 3 centres x 3 radii x 18 start angles x 40 signed sweeps in [-2pi, 2pi] (box checked against both ends, the axis extremes inside the sweep and 720 samples); cached boxes of circles from every producer: new / from_point / clone (5 centres x 6 radii), from_3_points (every fifth ordered triple of the 12 integer points of the radius-5 circle x 5 centres x 3 scales), fitting_circle -> fit_circle (4 circles x 4 / 7 / 12 / 36 exact samples over a full turn or 3.5 rad x 5 initial guesses different from the answer x BestFit::All / Gaussian(3)), ransac (2 circles, 24 points + 3 outliers, 3 parameter sets), the circle field of arcs from circle_angles / circle_point_angle / three_points / to_arc / to_partial_arc; ROUND 4: the arc box clause for the circle_angles, circle_point_angle AND to_partial_arc form of every arc of the grid, and LONG sweeps through every constructor: 3 centres x 3 radii x 16 start angles x sweeps +-{270, 275, 285, 300, 315, 330, 345, 359} degrees (most of them leave out one axis extreme) built by circle_angles / to_partial_arc / circle_point_angle / three_points, and InscribedCircle::contact_arc for contact points 20 .. 90 degrees apart at 7 positions with the direction into / away from the gap");
    check_circle_pairs(&mut r);
    check_tangent_points(&mut r);
    check_outer_tangents(&mut r);
    check_lines(&mut r);
    check_three_point_arcs(&mut r);
    check_arcs(&mut r);
    check_long_arcs(&mut r);
    check_circle_boxes(&mut r);
    Some(r)
}
