//! C11 bounded: circle / arc / tangent constructions against their defining constraints.
//! Circle pairs over a grid of centres (integer offsets with integer centre distances 0, 3, 4, 5, 10, 13 and a few
//! irrational ones) and radii; external points at distance ratios d/r from 1+1e-9 to 1e3 in 6 directions; segments
//! (long chords, exactly tangent ones, partially inside, outside) and closed polylines against circles; all ordered
//! triples of the 12 integer points of the radius-5 circle (3 centres); arcs over a grid of centres, radii, start
//! angles and signed sweeps up to +-2pi. Every returned coordinate must be finite.
//! Cached boxes of circles: a circle obtained from EVERY public producer (new, from_point, clone, from_3_points,
//! fitting_circle with initial guesses different from the answer, ransac, the `circle` field of every arc constructor)
//! must carry the box [cx - r, cx + r] x [cy - r, cy + r] of the centre and radius it reports.
//! Wave 5 (check_w5_*): the same clauses over magnitudes (2^-20 .. 2^20, 1e6 from the origin), exact ties (end points on the
//! circle, ulps either side of tangency), all quadrants, long curves, start angles outside [-pi, pi]; see notes/w5_audit_C11.md.
use super::Report;
use crate::common::Intersection;
use crate::geom2::{Arc2, Circle2, Curve2, HasBounds2, Point2, Segment2};
use std::f64::consts::PI;

const T: f64 = 1e-9;
fn p(x: f64, y: f64) -> Point2 { Point2::new(x, y) }
fn d2(a: &Point2, b: &Point2) -> f64 { ((a.x - b.x).powi(2) + (a.y - b.y).powi(2)).sqrt() }
fn fin(q: &Point2) -> bool { q.x.is_finite() && q.y.is_finite() }
fn on_circle(q: &Point2, c: &Circle2) -> bool { fin(q) && (d2(q, &c.center) - c.r()).abs() <= T * (1.0 + c.r() + c.center.x.abs() + c.center.y.abs()) }
fn near(a: &Point2, b: &Point2, scale: f64) -> bool { fin(a) && fin(b) && d2(a, b) <= T * (1.0 + scale) }
fn cs(c: &Circle2) -> (f64, f64, f64) { (c.x(), c.y(), c.r()) }
fn ps(v: &[Point2]) -> Vec<(f64, f64)> { v.iter().map(|q| (q.x, q.y)).collect() }

// ---------------------------------------------------------------- circle x circle
fn check_circle_pairs(r: &mut Report) {
    let centres0 = [(0.0, 0.0), (1.5, -2.0), (-100.0, 40.0)];
    let offsets = [(0.0, 0.0), (3.0, 0.0), (0.0, -4.0), (3.0, 4.0), (-5.0, 12.0), (6.0, -8.0), (1.0, 1.0), (0.5, 0.0), (-2.0, 0.25), (0.0, 1.0), (8.0, 0.0), (2.0, 0.0)];
    let radii = [0.5, 1.0, 2.0, 3.0, 4.0, 5.0, 8.0, 9.0];
    for c0 in centres0 { for off in offsets { for r0 in radii { for r1 in radii {
        let a = Circle2::new(c0.0, c0.1, r0);
        let b = Circle2::new(c0.0 + off.0, c0.1 + off.1, r1);
        let d = (off.0 * off.0 + off.1 * off.1 as f64).sqrt(); // exact for the pythagorean / axis offsets
        let (rs, rd) = (r0 + r1, (r0 - r1).abs());
        // expected count; configurations within 1e-6 of (but not exactly at) tangency are not part of the input space
        let expected = if d == 0.0 { 0 } else if d == rs || d == rd { 1 } else if (d - rs).abs() < 1e-6 || (d - rd).abs() < 1e-6 { continue } else if d > rs || d < rd { 0 } else { 2 };
        r.case();
        let got = a.intersections_with(&b);
        let desc = || format!("circle {:?} x circle {:?} (centre distance {:?}, r0+r1 {:?}, |r0-r1| {:?}) -> {:?}", cs(&a), cs(&b), d, rs, rd, ps(&got));
        r.check(got.iter().all(fin), "circle-circle intersection: no non-finite coordinate", desc);
        r.check(got.len() == expected, "circle-circle intersection: count matches the configuration (0 separate / nested / concentric, 1 tangent, 2 crossing)", || format!("{} expected {}", desc(), expected));
        r.check(got.iter().all(|q| on_circle(q, &a) && on_circle(q, &b)), "circle-circle intersection: every returned point lies on both circles", desc);
        if got.len() == 2 { r.check(d2(&got[0], &got[1]) > 1e-7, "circle-circle intersection: two crossing points are distinct", desc); }
        let iv = a.intersection_interval(b);
        r.check(iv.is_some() == (expected > 0), "intersection_interval is produced exactly when the circles meet", desc);
    } } } }
}

// ---------------------------------------------------------------- tangents from a point
fn check_tangent_points(r: &mut Report) {
    let circles = [(0.0, 0.0, 1.0), (3.0, -2.0, 5.0), (-40.0, 25.0, 0.125), (7.0, 7.0, 1000.0)];
    let dirs = [(1.0, 0.0), (0.0, 1.0), (0.6, 0.8), (-5.0 / 13.0, 12.0 / 13.0), (-0.6, -0.8), (0.0, -1.0)];
    let ratios = [1.0 + 1e-9, 1.0 + 1e-6, 1.001, 1.1, std::f64::consts::SQRT_2, 2.0, 3.0, 10.0, 1000.0];
    for (cx, cy, rad) in circles { let c = Circle2::new(cx, cy, rad); for (ux, uy) in dirs {
        for ratio in ratios {
            let q = p(cx + ux * rad * ratio, cy + uy * rad * ratio);
            if d2(&q, &c.center) <= rad { continue; }
            r.case();
            let got = c.tangent_points_to(&q);
            let desc = || format!("circle {:?}.tangent_points_to({:?}) (d/r = {:?}) -> {:?}", cs(&c), (q.x, q.y), d2(&q, &c.center) / rad, got.map(|(a, b)| ((a.x, a.y), (b.x, b.y))));
            match got {
                None => r.check(false, "tangent points exist for a point outside the circle", desc),
                Some((t0, t1)) => {
                    r.check(fin(&t0) && fin(&t1), "tangent points: no non-finite coordinate", desc);
                    r.check(on_circle(&t0, &c) && on_circle(&t1, &c), "tangent points lie on the circle", desc);
                    let perp = |t: &Point2| { let dot = (t.x - cx) * (q.x - t.x) + (t.y - cy) * (q.y - t.y); dot.abs() <= 1e-7 * rad * d2(&q, t) };
                    r.check(perp(&t0) && perp(&t1), "tangent line through the external point is perpendicular to the radius", desc);
                    // documented order: first point left (negative normal side) of the line point -> centre, second right
                    let (lx, ly) = (cx - q.x, cy - q.y);
                    let side = |t: &Point2| (t.x - q.x) * ly - (t.y - q.y) * lx; // > 0 on the right
                    r.check(side(&t0) < 0.0 && side(&t1) > 0.0, "tangent points in the documented left / right order", desc);
                }
            }
        }
        // on the perimeter and just inside: no tangent points
        for ratio in [1.0, 1.0 - 1e-9, 0.5, 0.0] {
            let q = p(cx + ux * rad * ratio, cy + uy * rad * ratio);
            if d2(&q, &c.center) > rad { continue; }
            r.case();
            let got = c.tangent_points_to(&q);
            r.check(got.is_none(), "no tangent points for a point on or inside the perimeter", || format!("circle {:?}.tangent_points_to({:?}) -> {:?}", cs(&c), (q.x, q.y), got.map(|(a, b)| ((a.x, a.y), (b.x, b.y)))));
        }
        // projection to the perimeter
        for ratio in [0.25, 1.0, 3.0] {
            let q = p(cx + ux * rad * ratio, cy + uy * rad * ratio);
            r.case();
            let got = c.project_point_to_perimeter(&q);
            let e = p(cx + ux * rad, cy + uy * rad);
            r.check(match got { Some(g) => near(&g, &e, rad + cx.abs() + cy.abs()), None => false }, "projection to the perimeter lies on the circle along the centre-to-point direction", || format!("circle {:?}.project_point_to_perimeter({:?}) -> {:?}", cs(&c), (q.x, q.y), got.map(|g| (g.x, g.y))));
            r.check((c.distance_to(&q) - rad * (ratio - 1.0)).abs() <= T * (1.0 + rad * ratio.max(1.0) + cx.abs() + cy.abs()), "distance_to is the signed distance to the perimeter", || format!("circle {:?}.distance_to({:?}) -> {:?}", cs(&c), (q.x, q.y), c.distance_to(&q)));
        }
    }
        r.check(c.project_point_to_perimeter(&c.center).is_none(), "projection of the centre to the perimeter is undefined (None)", || format!("circle {:?}", cs(&c)));
    }
}

// ---------------------------------------------------------------- outer tangents
fn check_outer_tangents(r: &mut Report) {
    let centres0 = [(0.0, 0.0), (1.5, -2.0)];
    let offsets = [(0.0, 0.0), (3.0, 0.0), (0.0, -4.0), (3.0, 4.0), (-5.0, 12.0), (6.0, -8.0), (1.0, 1.0), (0.5, 0.0), (-2.0, 0.25), (2.0, 2.0)];
    let radii = [0.5, 1.0, 2.0, 3.0, 5.0, 8.0];
    for c0 in centres0 { for off in offsets { for r0 in radii { for r1 in radii {
        let a = Circle2::new(c0.0, c0.1, r0);
        let b = Circle2::new(c0.0 + off.0, c0.1 + off.1, r1);
        let d = (off.0 * off.0 + off.1 * off.1 as f64).sqrt();
        let rd = (r0 - r1).abs();
        r.case();
        let got = a.outer_tangents_to(&b);
        let show = |s: &Segment2| ((s.a.x, s.a.y), (s.b.x, s.b.y));
        let desc = || format!("circle {:?}.outer_tangents_to(circle {:?}) (centre distance {:?}, |r0-r1| {:?}) -> {:?}", cs(&a), cs(&b), d, rd, got.as_ref().map(|(s0, s1)| (show(s0), show(s1))));
        if d == 0.0 { r.check(got.is_none(), "no outer tangents for concentric circles", desc); continue; }
        if d <= rd + 1e-6 {
            // one circle inside the other (or internally tangent): nothing to touch; whatever is returned must be finite
            if let Some((s0, s1)) = got.as_ref() { r.check(fin(&s0.a) && fin(&s0.b) && fin(&s1.a) && fin(&s1.b), "outer tangents: no non-finite coordinate", desc); }
            if d < rd - 1e-6 { r.check(got.is_none(), "no outer tangents when one circle lies strictly inside the other", desc); }
            continue;
        }
        match got.as_ref() {
            None => r.check(false, "outer tangents exist for circles of which neither contains the other", desc),
            Some((s0, s1)) => {
                r.check(fin(&s0.a) && fin(&s0.b) && fin(&s1.a) && fin(&s1.b), "outer tangents: no non-finite coordinate", desc);
                let scale = 1.0 + r0 + r1 + d;
                let touches = |s: &Segment2| {
                    let (tx, ty) = (s.b.x - s.a.x, s.b.y - s.a.y);
                    let l = (tx * tx + ty * ty).sqrt();
                    on_circle(&s.a, &a) && on_circle(&s.b, &b)
                        && ((s.a.x - a.x()) * tx + (s.a.y - a.y()) * ty).abs() <= 1e-8 * scale * l
                        && ((s.b.x - b.x()) * tx + (s.b.y - b.y()) * ty).abs() <= 1e-8 * scale * l
                };
                r.check(touches(s0) && touches(s1), "outer tangent segments start on this circle, end on the other and are perpendicular to both radii", desc);
                // outer (not crossing) tangents: both ends of a segment on the same side of the centre line
                let side = |q: &Point2| (q.x - a.x()) * off.1 - (q.y - a.y()) * off.0; // > 0 on the right of the line a -> b
                r.check(side(&s0.a) * side(&s0.b) > 0.0 && side(&s1.a) * side(&s1.b) > 0.0 && side(&s0.a) * side(&s1.a) < 0.0, "outer tangent segments lie on opposite sides of the centre line and do not cross it", desc);
                if rd < 1e-10 {
                    r.check(side(&s0.a) < 0.0 && side(&s1.a) > 0.0, "outer tangents of EQUAL-radius circles in the documented order (first left / negative normal side, second right)", desc);
                } else {
                    r.check(side(&s0.a) < 0.0 && side(&s1.a) > 0.0, "outer tangents in the documented order (first left / negative normal side, second right)", desc);
                }
            }
        }
    } } } }
}

// ---------------------------------------------------------------- circle x segment, curve x circle
/// parameters in [0,1] at which the segment a-b meets the circle, None when an end point is within 1e-6 of the perimeter
/// or the line is within 1e-6 of tangency without being exactly tangent
fn seg_circle_count(a: &Point2, b: &Point2, c: &Circle2) -> Option<usize> {
    let (dx, dy) = (b.x - a.x, b.y - a.y);
    let (fx, fy) = (a.x - c.x(), a.y - c.y());
    let l2 = dx * dx + dy * dy;
    let tc = -(fx * dx + fy * dy) / l2;
    let (qx, qy) = (fx + tc * dx, fy + tc * dy);
    let dist = (qx * qx + qy * qy).sqrt();
    for e in [a, b] { if (d2(e, &c.center) - c.r()).abs() < 1e-6 { return None; } }
    if dist == c.r() { return Some(if tc >= 0.0 && tc <= 1.0 { 1 } else { 0 }); }
    if (dist - c.r()).abs() < 1e-6 { return None; }
    if dist > c.r() { return Some(0); }
    let th = ((c.r() * c.r() - dist * dist) / l2).sqrt();
    Some([tc - th, tc + th].iter().filter(|t| **t >= 0.0 && **t <= 1.0).count())
}
fn on_segment(q: &Point2, a: &Point2, b: &Point2) -> bool {
    let (ex, ey) = (b.x - a.x, b.y - a.y);
    let l2 = ex * ex + ey * ey;
    let s = (((q.x - a.x) * ex + (q.y - a.y) * ey) / l2).clamp(0.0, 1.0);
    d2(q, &p(a.x + s * ex, a.y + s * ey)) <= T * (1.0 + l2.sqrt() + a.x.abs() + a.y.abs())
}
fn check_lines(r: &mut Report) {
    let circles = [(0.0, 0.0, 5.0), (3.0, -2.0, 5.0), (-10.0, 20.0, 2.5), (0.5, 0.25, 1.0)];
    for (cx, cy, rad) in circles {
        let c = Circle2::new(cx, cy, rad);
        let k = rad / 5.0;
        let mut segs: Vec<(Point2, Point2)> = vec![];
        // exactly tangent lines: axis-parallel at +-r, oblique at the 3-4-5 points
        segs.push((p(cx - 10.0, cy + rad), p(cx + 10.0, cy + rad)));
        segs.push((p(cx - rad, cy - 7.0), p(cx - rad, cy + 9.0)));
        segs.push((p(cx + 7.0 * k, cy + 1.0 * k), p(cx - 1.0 * k, cy + 7.0 * k)));       // touches at (3k, 4k)
        segs.push((p(cx - 4.0 * k + 6.0 * k, cy - 3.0 * k - 8.0 * k), p(cx - 4.0 * k - 6.0 * k, cy - 3.0 * k + 8.0 * k))); // touches at (-4k, -3k)
        // tangent line, but the segment stops short of the touching point
        segs.push((p(cx + 1.0, cy + rad), p(cx + 10.0, cy + rad)));
        // chords, partially inside, inside, outside; offsets from the centre over a grid
        for off in [0.0, 0.25, 0.5, 0.75, 0.96875, 1.03125, 2.0] {
            segs.push((p(cx - 3.0 * rad, cy + off * rad), p(cx + 3.0 * rad, cy + off * rad)));
            segs.push((p(cx - off * rad, cy - 2.0 * rad), p(cx - off * rad, cy + 4.0 * rad)));
            segs.push((p(cx + off * rad, cy), p(cx + off * rad + 3.0 * rad, cy + 1.5 * rad)));
            segs.push((p(cx - 2.0 * rad, cy - 2.0 * rad - off * rad), p(cx + 2.0 * rad, cy + 2.0 * rad - off * rad)));
            segs.push((p(cx + 0.25 * rad, cy + 0.125 * rad), p(cx + 0.25 * rad + off * rad, cy - 0.5 * rad)));
        }
        for (a, b) in segs.iter() {
            for (a, b) in [(a, b), (b, a)] {
                let expected = match seg_circle_count(a, b, &c) { Some(e) => e, None => continue };
                let s = match Segment2::try_new(*a, *b) { Ok(s) => s, Err(_) => continue };
                r.case();
                let got = c.intersection(&s);
                let desc = || format!("circle {:?} x segment {:?}-{:?} -> {:?} (expected {} points)", cs(&c), (a.x, a.y), (b.x, b.y), ps(&got), expected);
                r.check(got.iter().all(fin), "circle-segment intersection: no non-finite coordinate", desc);
                r.check(got.len() == expected, "circle-segment intersection: count matches the configuration (0 apart, 1 tangent or one end inside, 2 crossing)", desc);
                r.check(got.iter().all(|q| on_circle(q, &c) && on_segment(q, a, b)), "circle-segment intersection: every returned point lies on the circle and on the segment", desc);
            }
        }
    }
    // a line within the documented tolerance (1e-10) of tangency, just outside: the single tangent point
    for (cx, cy, rad) in [(0.0, 0.0, 5.0), (3.0, -2.0, 5.0)] {
        let c = Circle2::new(cx, cy, rad);
        let e = 1.0 / 1099511627776.0; // 2^-40
        for (a, b) in [(p(cx - 10.0, cy + rad + e), p(cx + 10.0, cy + rad + e)), (p(cx - rad - e, cy + 8.0), p(cx - rad - e, cy - 8.0))] {
            let s = Segment2::try_new(a, b).unwrap();
            r.case();
            let got = c.intersection(&s);
            r.check(got.len() == 1 && on_circle(&got[0], &c) && on_segment(&got[0], &a, &b), "circle-segment intersection: a line within 1e-10 of tangency yields the single tangent point", || format!("circle {:?} x segment {:?}-{:?} (distance r + 2^-40) -> {:?}", cs(&c), (a.x, a.y), (b.x, b.y), ps(&got)));
        }
    }
    // closed and open polylines x circles
    let curves: Vec<Vec<Point2>> = vec![
        vec![p(0.0, 0.0), p(8.0, 0.0), p(8.0, 6.0), p(0.0, 6.0), p(0.0, 0.0)],
        vec![p(-6.0, -1.0), p(-3.0, 5.0), p(0.0, -1.0), p(3.0, 5.0), p(6.0, -1.0), p(9.0, 5.0)],
        vec![p(-2.0, 0.0), p(0.0, 4.0), p(2.0, 0.0), p(0.0, -4.0), p(-2.0, 0.0)],
    ];
    for pts in curves.iter() {
        let curve = match Curve2::from_points(pts, 1e-6, false) { Ok(c) => c, Err(_) => continue };
        for (cx, cy) in [(0.0, 0.0), (4.0, 3.0), (1.0, 2.5), (-3.0, 1.0), (8.0, 6.0)] { for rad in [0.75, 2.25, 3.5, 5.5, 20.0] {
            let c = Circle2::new(cx, cy, rad);
            let mut expected = 0; let mut skip = false;
            for i in 0..pts.len() - 1 { match seg_circle_count(&pts[i], &pts[i + 1], &c) { Some(e) => expected += e, None => skip = true } }
            if skip { continue; }
            r.case();
            let got = curve.intersection(&c);
            let desc = || format!("curve {:?} x circle {:?} -> {:?} (expected {} points)", ps(pts), cs(&c), ps(&got), expected);
            r.check(got.iter().all(fin), "curve-circle intersection: no non-finite coordinate", desc);
            r.check(got.len() == expected, "curve-circle intersection: count equals the sum over the edges", desc);
            r.check(got.iter().all(|q| on_circle(q, &c) && (0..pts.len() - 1).any(|i| on_segment(q, &pts[i], &pts[i + 1]))), "curve-circle intersection: every returned point lies on the circle and on the curve", desc);
        } }
    }
}

// ---------------------------------------------------------------- arcs
fn circle_pt(cx: f64, cy: f64, rad: f64, a: f64) -> Point2 { p(cx + rad * a.cos(), cy + rad * a.sin()) }

fn check_three_point_arcs(r: &mut Report) {
    let ring = [(5.0, 0.0), (4.0, 3.0), (3.0, 4.0), (0.0, 5.0), (-3.0, 4.0), (-4.0, 3.0), (-5.0, 0.0), (-4.0, -3.0), (-3.0, -4.0), (0.0, -5.0), (3.0, -4.0), (4.0, -3.0)];
    for (cx, cy) in [(0.0, 0.0), (2.0, -7.0), (-30.0, 11.0)] {
        for i in 0..12 { for j in 0..12 { for k in 0..12 {
            if i == j || j == k || i == k { continue; }
            let q = |m: usize| p(cx + ring[m].0, cy + ring[m].1);
            let (p0, p1, p2) = (q(i), q(j), q(k));
            r.case();
            let arc = Arc2::three_points(p0, p1, p2);
            let desc = || format!("Arc2::three_points({:?}, {:?}, {:?}) -> centre ({:?}, {:?}) r {:?} angle0 {:?} sweep {:?}", (p0.x, p0.y), (p1.x, p1.y), (p2.x, p2.y), arc.center().x, arc.center().y, arc.radius(), arc.angle0, arc.angle);
            let scale = 5.0 + cx.abs() + cy.abs();
            r.check(arc.angle.is_finite() && arc.angle0.is_finite() && fin(&arc.center()) && arc.radius().is_finite(), "three-point arc: no non-finite value", desc);
            r.check(near(&arc.center(), &p(cx, cy), scale) && (arc.radius() - 5.0).abs() <= T * scale, "three-point arc lies on the circle through the three points", desc);
            r.check(near(&arc.start(), &p0, scale), "three-point arc starts at the first point", desc);
            r.check(near(&arc.end(), &p2, scale), "three-point arc ends at the third point", desc);
            // sweep sign: counter-clockwise (positive) exactly when p0 -> p1 -> p2 turns left
            let turn = (p1.x - p0.x) * (p2.y - p1.y) - (p1.y - p0.y) * (p2.x - p1.x);
            r.check((arc.angle > 0.0) == (turn > 0.0) && arc.angle.abs() <= 2.0 * PI + 1e-12 && arc.angle != 0.0, "three-point arc sweeps counter-clockwise (positive) exactly when the points turn left, by at most a full turn", desc);
            // passes through the second point: its angle, measured from the start in the sweep direction, is inside the sweep
            let a1 = (p1.y - cy).atan2(p1.x - cx);
            let mut da = if arc.angle > 0.0 { a1 - arc.angle0 } else { arc.angle0 - a1 };
            while da < 0.0 { da += 2.0 * PI; }
            while da >= 2.0 * PI { da -= 2.0 * PI; }
            let f = da / arc.angle.abs();
            r.check(f > 0.0 && f < 1.0 && near(&arc.point_at_fraction(f), &p1, scale), "three-point arc passes through the second point between its ends", || format!("{} fraction {:?}", desc(), f));
            check_arc_box(r, &arc, &desc());
        } } }
    }
}

/// bounding box: contains the arc and touches it on all four sides (candidates: both ends, every multiple of pi/2
/// inside the sweep, 720 samples)
fn check_arc_box(r: &mut Report, arc: &Arc2, what: &str) {
    let (cx, cy, rad) = (arc.center().x, arc.center().y, arc.radius());
    let (a0, sw) = (arc.angle0, arc.angle);
    let (lo, hi) = if sw >= 0.0 { (a0, a0 + sw) } else { (a0 + sw, a0) };
    let mut cand: Vec<Point2> = vec![circle_pt(cx, cy, rad, a0), circle_pt(cx, cy, rad, a0 + sw)];
    let k0 = (lo / (PI / 2.0)).ceil() as i64;
    let k1 = (hi / (PI / 2.0)).floor() as i64;
    for k in k0..=k1 { let m = ((k % 4) + 4) % 4; let (ux, uy) = [(1.0, 0.0), (0.0, 1.0), (-1.0, 0.0), (0.0, -1.0)][m as usize]; cand.push(p(cx + rad * ux, cy + rad * uy)); }
    for i in 0..=720 { cand.push(circle_pt(cx, cy, rad, a0 + sw * i as f64 / 720.0)); }
    let (mut x0, mut x1, mut y0, mut y1) = (f64::MAX, f64::MIN, f64::MAX, f64::MIN);
    for q in cand.iter() { x0 = x0.min(q.x); x1 = x1.max(q.x); y0 = y0.min(q.y); y1 = y1.max(q.y); }
    let bb = arc.aabb();
    let tol = 1e-9 * (1.0 + rad + cx.abs() + cy.abs());
    let desc = || format!("{}: cached box [{:?}, {:?}] x [{:?}, {:?}], extent of the arc [{:?}, {:?}] x [{:?}, {:?}]", what, bb.mins.x, bb.maxs.x, bb.mins.y, bb.maxs.y, x0, x1, y0, y1);
    r.check(bb.mins.x.is_finite() && bb.mins.y.is_finite() && bb.maxs.x.is_finite() && bb.maxs.y.is_finite(), "arc bounding box: no non-finite coordinate", desc);
    r.check(bb.mins.x <= x0 + tol && bb.mins.y <= y0 + tol && bb.maxs.x >= x1 - tol && bb.maxs.y >= y1 - tol, "cached bounding box of an arc contains it", desc);
    r.check(bb.mins.x >= x0 - tol && bb.mins.y >= y0 - tol && bb.maxs.x <= x1 + tol && bb.maxs.y <= y1 + tol, "cached bounding box of an arc touches it on all four sides", desc);
}

fn check_arcs(r: &mut Report) {
    let centres = [(0.0, 0.0), (3.0, -2.0), (-50.0, 75.0)];
    let radii = [0.25, 1.0, 7.5];
    let mut starts: Vec<f64> = (-6..=6).map(|k| k as f64 * PI / 6.0).collect();
    starts.extend_from_slice(&[0.3, -2.9, 1.5707, 3.1, -0.001]);
    let mut sweeps: Vec<f64> = (-16..=16).filter(|k| *k != 0).map(|k| k as f64 * PI / 8.0).collect();
    sweeps.extend_from_slice(&[0.3, -1.7, 5.9, -6.2, 0.001, -0.001, 4.0, -3.3]);
    for (cx, cy) in centres { for rad in radii { for &a0 in starts.iter() { for &sw in sweeps.iter() {
        r.case();
        let arc = Arc2::circle_angles(p(cx, cy), rad, a0, sw);
        let what = format!("Arc2::circle_angles(({:?}, {:?}), r {:?}, angle0 {:?}, sweep {:?})", cx, cy, rad, a0, sw);
        let scale = rad + cx.abs() + cy.abs();
        let len = arc.length();
        r.check((len - rad * sw.abs()).abs() <= T * (1.0 + len), "arc length == radius * |sweep|", || format!("{} length {:?}", what, len));
        r.check(near(&arc.start(), &circle_pt(cx, cy, rad, a0), scale) && near(&arc.end(), &circle_pt(cx, cy, rad, a0 + sw), scale), "arc starts at angle0 and ends at angle0 + sweep", || format!("{} start {:?} end {:?}", what, (arc.start().x, arc.start().y), (arc.end().x, arc.end().y)));
        let mut ok = true; let mut bad = String::new();
        for f in [0.0, 0.125, 0.5, 0.8125, 1.0] {
            let l = len * f;
            // travelling the length l from the start in the sweep direction (clockwise for a negative sweep)
            let e = circle_pt(cx, cy, rad, a0 + sw.signum() * l / rad);
            let by_len = arc.point_at_length(l);
            let by_frac = arc.point_at_fraction(f);
            let by_ang = arc.point_at_angle(sw * f);
            if !(near(&by_len, &e, scale) && near(&by_frac, &e, scale) && near(&by_ang, &e, scale)) { ok = false; bad = format!("fraction {:?}: point_at_length {:?}, point_at_fraction {:?}, point_at_angle {:?}, expected {:?}", f, (by_len.x, by_len.y), (by_frac.x, by_frac.y), (by_ang.x, by_ang.y), (e.x, e.y)); }
        }
        r.check(ok, "point_at_length, point_at_fraction and point_at_angle agree with travelling along the arc from its start in the sweep direction", || format!("{} {}", what, bad));
        check_arc_box(r, &arc, &what);
        // the other constructors give the same arc
        let c = Circle2::new(cx, cy, rad);
        let a2 = c.to_partial_arc(a0, sw);
        let a3 = Arc2::circle_point_angle(p(cx, cy), rad, circle_pt(cx, cy, rad, a0), sw);
        r.check(near(&a2.start(), &arc.start(), scale) && near(&a2.end(), &arc.end(), scale) && near(&a3.start(), &arc.start(), scale) && near(&a3.end(), &arc.end(), scale) && a3.angle == sw && a2.angle == sw, "to_partial_arc and circle_point_angle build the same arc as circle_angles", || what.clone());
        check_arc_box(r, &a3, &format!("circle_point_angle form of {}", what));
        check_arc_box(r, &a2, &format!("Circle2::to_partial_arc form of {}", what));
    } } } }
    // circles: box == [c - r, c + r]; full arc of a circle
    for (cx, cy) in centres { for rad in radii {
        r.case();
        let c = Circle2::new(cx, cy, rad);
        let bb = c.aabb();
        r.check(bb.mins.x == cx - rad && bb.maxs.x == cx + rad && bb.mins.y == cy - rad && bb.maxs.y == cy + rad, "cached bounding box of a circle contains it and touches it on all four sides", || format!("circle {:?}: box [{:?}, {:?}] x [{:?}, {:?}]", cs(&c), bb.mins.x, bb.maxs.x, bb.mins.y, bb.maxs.y));
        let full = c.to_arc();
        r.check((full.length() - 2.0 * PI * rad).abs() <= T * (1.0 + rad) && near(&full.start(), &full.end(), rad + cx.abs() + cy.abs()), "full arc of a circle has length 2 pi r and closes", || format!("circle {:?}", cs(&c)));
        check_arc_box(r, &full, &format!("to_arc of circle {:?}", cs(&c)));
        for k in 0..16 { let a = k as f64 * PI / 8.0 + 0.1; r.check(on_circle(&c.point_at_angle(a), &c), "point_at_angle lies on the circle", || format!("circle {:?} angle {:?}", cs(&c), a)); }
    } }
}

// ---------------------------------------------------------------- round 4: LONG sweeps (>= 270 degrees) through EVERY arc constructor
/// arcs whose sweep is at least three quarter turns but which still leave out one axis extreme of the circle (start 30
/// degrees, sweep +300 degrees misses angle 0), and long arcs that pass all four: built by Arc2::circle_angles,
/// Circle2::to_partial_arc, Arc2::circle_point_angle, Arc2::three_points (start, middle and end point of the sweep) and,
/// for the contact arcs of the airfoil code, InscribedCircle::contact_arc (two contact points 20 .. 90 degrees apart, the
/// direction vector pointing away from / into the gap between them)
fn check_long_arcs(r: &mut Report) {
    use crate::airfoil::InscribedCircle;
    use crate::geom2::polyline2::SpanningRay;
    use crate::geom2::{UnitVec2, Vector2};
    let centres = [(0.0, 0.0), (3.0, -2.0), (-50.0, 75.0)];
    let radii = [0.25, 2.0, 7.5];
    let starts = [30.0, 120.0, 210.0 - 360.0, 300.0 - 360.0, 45.0, 135.0, -135.0, -45.0, 10.0, 100.0, -170.0, -80.0, 0.0, 90.0, 180.0, -90.0];
    let sweeps = [270.0, 275.0, 285.0, 300.0, 315.0, 330.0, 345.0, 359.0];
    let mut missing_one = 0usize;
    for (cx, cy) in centres { for rad in radii { for a0d in starts { for swd in sweeps { for sign in [1.0, -1.0] {
        let (a0, sw): (f64, f64) = ((a0d as f64).to_radians(), (sign * swd as f64).to_radians());
        r.case();
        // does the sweep leave out an axis extreme?  (multiples of 90 degrees strictly outside the swept interval)
        let (lo, hi) = if sign > 0.0 { (a0d, a0d + swd) } else { (a0d - swd, a0d) };
        if (-8..=8).filter(|k| { let q = *k as f64 * 90.0; q >= lo && q <= hi }).count() < 4 { missing_one += 1; }
        let what = format!("centre ({:?}, {:?}) r {:?}, start {:?} degrees, sweep {:?} degrees", cx, cy, rad, a0d, sign * swd);
        let c = Circle2::new(cx, cy, rad);
        check_arc_box(r, &Arc2::circle_angles(p(cx, cy), rad, a0, sw), &format!("Arc2::circle_angles, {}", what));
        check_arc_box(r, &c.to_partial_arc(a0, sw), &format!("Circle2::to_partial_arc, {}", what));
        check_arc_box(r, &Arc2::circle_point_angle(p(cx, cy), rad, circle_pt(cx, cy, rad, a0), sw), &format!("Arc2::circle_point_angle, {}", what));
        let t = Arc2::three_points(circle_pt(cx, cy, rad, a0), circle_pt(cx, cy, rad, a0 + 0.5 * sw), circle_pt(cx, cy, rad, a0 + sw));
        r.check((t.angle - sw).abs() <= 1e-6, "three-point arc through the start, middle and end point of a long sweep has that sweep", || format!("Arc2::three_points, {} -> angle0 {:?} sweep {:?}", what, t.angle0, t.angle));
        check_arc_box(r, &t, &format!("Arc2::three_points (start, middle, end of the sweep), {}", what));
    } } } } }
    r.check(missing_one >= 800, "input space: long sweeps (>= 270 degrees) that leave out one axis extreme occur", || format!("{} of them", missing_one));
    // contact arcs
    let mut long_contact = 0usize;
    for (cx, cy) in centres { for rad in radii { for ud in [30.0, 100.0, -170.0, -80.0, 45.0, 0.0, 179.0] { for gap in [20.0, 60.0, 75.0, 90.0] { for gsign in [1.0, -1.0] { for dsign in [1.0, -1.0] {
        let (u, l): (f64, f64) = ((ud as f64).to_radians(), (ud as f64 + gsign * gap as f64).to_radians());
        let (pu, pl) = (circle_pt(cx, cy, rad, u), circle_pt(cx, cy, rad, l));
        let mid = 0.5 * (u + l);
        // the direction: along the bisector of the gap (dsign = 1: into the gap, short arc) or away from it (long arc)
        let dir = UnitVec2::new_normalize(Vector2::new(dsign * mid.cos(), dsign * mid.sin()));
        let ic = InscribedCircle::new(SpanningRay::new(pl, pu), pu, pl, Circle2::new(cx, cy, rad));
        r.case();
        let arc = ic.contact_arc(&dir);
        if arc.angle.abs() >= 1.5 * PI { long_contact += 1; }
        let what = format!("InscribedCircle::contact_arc (circle ({:?}, {:?}, r {:?}), contact points at {:?} and {:?} degrees, direction {:?}) -> angle0 {:?} sweep {:?}", cx, cy, rad, ud, ud + gsign * gap, (dir.x, dir.y), arc.angle0, arc.angle);
        check_arc_box(r, &arc, &what);
    } } } } } }
    r.check(long_contact >= 100, "input space: contact arcs with a sweep of at least 270 degrees occur", || format!("{} of them", long_contact));
}

// ---------------------------------------------------------------- cached boxes of circles from EVERY producer
/// the statement's clause for circles: the cached box contains the circle and touches it on all four sides, i.e. it is
/// [cx - r, cx + r] x [cy - r, cy + r] for the centre and radius the circle REPORTS (center / ball are what every
/// query uses); compared to relative 1e-12 (the box is a cached copy of one subtraction / addition)
fn check_circle_box(r: &mut Report, c: &Circle2, producer: &str, what: &dyn Fn() -> String) {
    let bb = c.aabb();
    let (cx, cy, rad) = (c.center.x, c.center.y, c.ball.radius);
    let tol = 1e-12 * (1.0 + rad.abs() + cx.abs() + cy.abs());
    let ok = bb.mins.x.is_finite() && bb.mins.y.is_finite() && bb.maxs.x.is_finite() && bb.maxs.y.is_finite()
        && (bb.mins.x - (cx - rad)).abs() <= tol && (bb.maxs.x - (cx + rad)).abs() <= tol
        && (bb.mins.y - (cy - rad)).abs() <= tol && (bb.maxs.y - (cy + rad)).abs() <= tol;
    r.check(ok, &format!("cached bounding box of a circle obtained from {} contains it and touches it on all four sides (box == centre +- r)", producer),
        || format!("{} -> circle {:?}: cached box [{:?}, {:?}] x [{:?}, {:?}]", what(), cs(c), bb.mins.x, bb.maxs.x, bb.mins.y, bb.maxs.y));
}

fn check_circle_boxes(r: &mut Report) {
    use crate::common::BestFit;
    let centres = [(0.0, 0.0), (3.0, -2.0), (-50.0, 75.0), (5.0, -3.0), (1500.0, -2000.0)];
    let radii = [0.0, 0.125, 1.0, 2.5, 7.5, 1000.0];
    // ---- Circle2::new / from_point (and a copy / clone of the value)
    for (cx, cy) in centres { for rad in radii {
        r.case();
        let a = Circle2::new(cx, cy, rad);
        check_circle_box(r, &a, "Circle2::new", &|| format!("Circle2::new({:?}, {:?}, {:?})", cx, cy, rad));
        let b = Circle2::from_point(p(cx, cy), rad);
        check_circle_box(r, &b, "Circle2::from_point", &|| format!("Circle2::from_point(({:?}, {:?}), {:?})", cx, cy, rad));
        let c = a.clone();
        check_circle_box(r, &c, "a clone of a circle", &|| format!("Circle2::new({:?}, {:?}, {:?}).clone()", cx, cy, rad));
    } }
    // ---- Circle2::from_3_points: triples of the 12 integer points of the radius-5 circle, scaled and moved
    let ring = [(5.0, 0.0), (4.0, 3.0), (3.0, 4.0), (0.0, 5.0), (-3.0, 4.0), (-4.0, 3.0), (-5.0, 0.0), (-4.0, -3.0), (-3.0, -4.0), (0.0, -5.0), (3.0, -4.0), (4.0, -3.0)];
    for (cx, cy) in centres { for k in [0.5, 1.0, 3.0] {
        for i in 0..12 { for j in 0..12 { for l in 0..12 {
            if i == j || j == l || i == l || (i + 2 * j + 3 * l) % 5 != 0 { continue; } // every fifth triple
            let q = |m: usize| p(cx + k * ring[m].0, cy + k * ring[m].1);
            r.case();
            let what = || format!("Circle2::from_3_points({:?}, {:?}, {:?})", (q(i).x, q(i).y), (q(j).x, q(j).y), (q(l).x, q(l).y));
            match Circle2::from_3_points(q(i), q(j), q(l)) {
                Ok(c) => {
                    check_circle_box(r, &c, "Circle2::from_3_points", &what);
                    r.check(near(&c.center, &p(cx, cy), 5.0 * k + cx.abs() + cy.abs()) && (c.r() - 5.0 * k).abs() <= 1e-7 * (1.0 + 5.0 * k + cx.abs() + cy.abs()), "from_3_points: the circle through three points of a known circle is that circle", &what);
                }
                Err(_) => r.check(false, "from_3_points: three distinct points of a circle are accepted", &what),
            }
        } } }
    } }
    // ---- Circle2::fitting_circle / fit_circle: sample points ON a known circle, initial guesses DIFFERENT from it
    let mut fitted_differs = 0usize;
    let mut fits = 0usize;
    for (cx, cy, rad) in [(5.0, -3.0, 2.5), (0.0, 0.0, 1.0), (-50.0, 75.0, 7.5), (12.0, 9.0, 20.0)] {
        for npts in [4usize, 7, 12, 36] {
            // the sample: full turn and a 200-degree portion
            for span in [2.0 * PI, 3.5] {
                let pts: Vec<Point2> = (0..npts).map(|i| circle_pt(cx, cy, rad, 0.3 + span * i as f64 / npts as f64)).collect();
                let guesses = [(cx - 1.0, cy + 1.0, rad * 0.4), (cx + 0.5 * rad, cy, rad), (cx, cy, rad * 1.5), (cx - 0.25 * rad, cy - 0.25 * rad, rad * 0.8), (cx + 0.125, cy - 0.0625, rad + 0.03125)];
                for (gx, gy, gr) in guesses { for mode in [BestFit::All, BestFit::Gaussian(3.0)] { {
                    let guess = Circle2::new(gx, gy, gr);
                    r.case();
                    // (fit_circle itself is private to geom2::circle2; fitting_circle is its only public entry)
                    let (producer, got) = ("Circle2::fitting_circle (fit_circle)", Circle2::fitting_circle(&pts, &guess, mode));
                    let what = || format!("{}({} points on circle ({:?}, {:?}, r {:?}) over {:?} rad from 0.3, guess {:?}, {:?})", producer, npts, cx, cy, rad, span, (gx, gy, gr), mode);
                    // a failed fit (Err) returns no circle: nothing to check
                    if let Ok(c) = got {
                        fits += 1;
                        if (c.x() - gx).abs() > 1e-3 || (c.y() - gy).abs() > 1e-3 || (c.r() - gr).abs() > 1e-3 { fitted_differs += 1; }
                        check_circle_box(r, &c, producer, &what);
                        r.check(fin(&c.center) && c.r().is_finite(), "fitted circle: no non-finite value", &what);
                    }
                } } }
            }
        }
    }
    r.check(fits >= 100 && fitted_differs * 2 >= fits, "coverage: the fits succeed and most fitted circles differ from their initial guess", || format!("{} successful fits, {} differ from the guess", fits, fitted_differs));
    // ---- Circle2::ransac (fixed internal seed => deterministic): points of a circle plus a few outliers
    for (cx, cy, rad) in [(5.0, -3.0, 2.5), (-50.0, 75.0, 7.5)] {
        let mut pts: Vec<Point2> = (0..24).map(|i| circle_pt(cx, cy, rad, 2.0 * PI * i as f64 / 24.0)).collect();
        pts.push(p(cx + 0.3 * rad, cy - 0.2 * rad)); pts.push(p(cx - 3.0 * rad, cy + 0.5 * rad)); pts.push(p(cx, cy));
        for (it, lo, hi) in [(None, None, None), (Some(50), Some(0.5 * rad), Some(2.0 * rad)), (Some(200), None, Some(10.0 * rad))] {
            r.case();
            let what = || format!("Circle2::ransac(24 points of circle ({:?}, {:?}, r {:?}) + 3 outliers, tol 1e-3, {:?}, {:?}, {:?})", cx, cy, rad, it, lo, hi);
            match Circle2::ransac(&pts, 1e-3, it, lo, hi) {
                Ok(c) => check_circle_box(r, &c, "Circle2::ransac", &what),
                Err(_) => r.check(false, "ransac: finds a candidate on points of a circle", &what),
            }
        }
    }
    // ---- the circles carried by arcs, and arcs made from circles
    for (cx, cy) in centres { for rad in [0.25, 1.0, 7.5] { for a0 in [-2.9, 0.0, 0.3, 1.5707] { for sw in [-6.2, -1.7, 0.001, 0.3, 4.0] {
        r.case();
        let what = || format!("centre ({:?}, {:?}) r {:?} angle0 {:?} sweep {:?}", cx, cy, rad, a0, sw);
        check_circle_box(r, &Arc2::circle_angles(p(cx, cy), rad, a0, sw).circle, "Arc2::circle_angles (field circle)", &what);
        check_circle_box(r, &Arc2::circle_point_angle(p(cx, cy), rad, circle_pt(cx, cy, rad, a0), sw).circle, "Arc2::circle_point_angle (field circle)", &what);
        let c = Circle2::new(cx, cy, rad);
        check_circle_box(r, &c.to_partial_arc(a0, sw).circle, "Circle2::to_partial_arc (field circle)", &what);
        check_circle_box(r, &c.to_arc().circle, "Circle2::to_arc (field circle)", &what);
        let (q0, q1, q2) = (circle_pt(cx, cy, rad, a0), circle_pt(cx, cy, rad, a0 + 0.5 * sw), circle_pt(cx, cy, rad, a0 + sw));
        if sw.abs() > 0.1 { check_circle_box(r, &Arc2::three_points(q0, q1, q2).circle, "Arc2::three_points (field circle)", &what); }
    } } } }
}

// ================================================================ WAVE 5: parameter-space audit (notes/w5_audit_C11.md)
// Scale-aware tolerances: a relative 1e-9 of the RADIUS plus the rounding of the absolute coordinates (1e-14 of the
// centre coordinates), so that a tiny circle (r = 2^-20) or a circle far from the origin (1e6) is checked as sharply as
// the unit circle at the origin (the round 1-4 tolerance T * (1 + r + |cx| + |cy|) is 1000 r for r = 1e-6).
fn tol5(c: &Circle2) -> f64 { 1e-9 * c.r() + 1e-14 * (c.center.x.abs() + c.center.y.abs()) }
fn on_circle5(q: &Point2, c: &Circle2) -> bool { fin(q) && (d2(q, &c.center) - c.r()).abs() <= tol5(c) }
/// x moved by k units in the last place (x > 0)
fn ulps(x: f64, k: i64) -> f64 { f64::from_bits((x.to_bits() as i64 + k) as u64) }

/// (1) MAGNITUDES: the pair grid at scales 2^-20 .. 2^20 and centres 1e6 away (all coordinates stay exactly
/// representable: tangency is still exact); centre distances 2^-10 .. 2^-30 between (nearly) equal circles (crossing);
/// (3) TIES: radii one .. four units in the last place either side of external / internal tangency, decimal (inexact)
/// tangencies, a circle of radius 0 on / off the other perimeter; intersection_interval: its two ends are the
/// intersection points.
fn check_w5_circle_pairs(r: &mut Report) {
    let offsets = [(3.0, 0.0), (0.0, -4.0), (3.0, 4.0), (-5.0, -12.0), (-6.0, 8.0), (1.0, 1.0), (-0.5, 0.0), (8.0, 0.0), (0.0, 2.0)];
    let radii = [0.0, 0.5, 1.0, 2.0, 3.0, 5.0, 8.0, 9.0];
    let scales = [1.0 / 1048576.0, 1.0 / 1024.0, 1.0, 1024.0, 1048576.0];
    for (bx, by) in [(0.0, 0.0), (1.0e6, -2.0e6), (-3.0, 7.0)] { for s in scales {
        // a far base centre only with scales >= 1 (the offsets must survive the addition exactly)
        if bx != 0.0 && s < 1.0 { continue; }
        for off in offsets { for r0 in radii { for r1 in radii {
            let a = Circle2::new(bx, by, r0 * s);
            let b = Circle2::new(bx + off.0 * s, by + off.1 * s, r1 * s);
            let d = ((off.0 * off.0 + off.1 * off.1) as f64).sqrt() * s;
            let (rs, rd) = ((r0 + r1) * s, (r0 - r1).abs() * s);
            let expected = if d == rs || d == rd { 1 } else if (d - rs).abs() < 1e-6 * s || (d - rd).abs() < 1e-6 * s { continue } else if d > rs || d < rd { 0 } else { 2 };
            r.case();
            let got = a.intersections_with(&b);
            let desc = || format!("circle {:?} x circle {:?} (centre distance {:?}, r0+r1 {:?}, |r0-r1| {:?}) -> {:?}", cs(&a), cs(&b), d, rs, rd, ps(&got));
            r.check(got.iter().all(fin), "circle-circle intersection: no non-finite coordinate", desc);
            r.check(got.len() == expected, "circle-circle intersection: count matches the configuration (0 separate / nested / concentric, 1 tangent, 2 crossing)", || format!("{} expected {}", desc(), expected));
            r.check(got.iter().all(|q| on_circle5(q, &a) && on_circle5(q, &b)), "circle-circle intersection: every returned point lies on both circles", desc);
            if got.len() == 2 { r.check(d2(&got[0], &got[1]) > 1e-7 * s, "circle-circle intersection: two crossing points are distinct", desc); }
            // symmetric call: the same points as a set
            let rev = b.intersections_with(&a);
            r.check(rev.len() == got.len() && rev.iter().all(|q| got.iter().any(|g| d2(q, g) <= tol5(&a) + tol5(&b))), "circle-circle intersection: both call orders return the same points", || format!("{} reversed -> {:?}", desc(), ps(&rev)));
            // the interval of this circle cut out by the other: its two ends are the intersection points
            let iv = a.intersection_interval(b);
            r.check(iv.is_some() == (expected > 0), "intersection_interval is produced exactly when the circles meet", desc);
            if let (Some(iv), true) = (iv, got.len() == expected && expected > 0 && r0 > 0.0) {
                let ends = [a.point_at_angle(iv.start()), a.point_at_angle(iv.start() + iv.angle())];
                let t = 10.0 * (tol5(&a) + tol5(&b)) + 1e-12 * r0 * s;
                let ok = ends.iter().all(|e| got.iter().any(|g| d2(e, g) <= t)) && got.iter().all(|g| ends.iter().any(|e| d2(e, g) <= t));
                r.check(ok, "intersection_interval: the two ends of the interval are the intersection points (they lie on both circles)", || format!("{} interval start {:?} angle {:?} -> ends {:?}", desc(), iv.start(), iv.angle(), ps(&ends)));
            }
        } } }
    } }
    // ---- small centre distances: equal and nearly equal radii cross in two points however close the centres are
    // (down to the documented concentric threshold 1e-10)
    for (cx, cy) in [(0.0, 0.0), (4.0, -3.0)] { for rad in [1.0, 0.125, 64.0] { for k in [10, 20, 30] { for (ux, uy) in [(1.0, 0.0), (0.0, -1.0), (0.6, 0.8), (-0.8, 0.6)] { for grow in [0.0, 0.5, -0.25] {
        let d = (0.5f64).powi(k) * rad;
        let a = Circle2::new(cx, cy, rad);
        let b = Circle2::new(cx + ux * d, cy + uy * d, rad + grow * d);
        r.case();
        let got = a.intersections_with(&b);
        let desc = || format!("circle {:?} x circle {:?} (centre distance about r * 2^-{}) -> {:?}", cs(&a), cs(&b), k, ps(&got));
        // [defect] centre distance within 1e-10 of |r0 - r1| while the distance itself is of that size: the code takes its
        // "touching" branch and returns the foot of the radical line, c + v (r0^2 - r1^2 + d^2) / 2d, which is only ON the
        // circles when that quotient is +-r0; here it is not (error about 1e-10 r / d)
        if grow != 0.0 && d < 1e-9 {
            r.check(!got.is_empty() && got.iter().all(|q| on_circle5(q, &a) && (d2(q, &b.center) - b.r()).abs() <= 2e-10), "[defect: nearly concentric circles whose centre distance is within 1e-10 of |r0 - r1|] circle-circle intersection: every returned point lies on both circles", desc);
            continue;
        }
        r.check(got.len() == 2 && got.iter().all(|q| on_circle5(q, &a) && on_circle5(q, &b)) && d2(&got[0], &got[1]) > rad, "circle-circle intersection: (nearly) equal circles with close but distinct centres cross in two points on both circles", desc);
    } } } } }
    // ---- ties: radii a few units in the last place either side of exact tangency
    for (cx, cy, ox, oy, r0, r1, internal) in [(0.0, 0.0, 5.0, 0.0, 3.0, 2.0, false), (1.0, -2.0, 3.0, 4.0, 1.5, 3.5, false), (0.0, 0.0, 3.0, 0.0, 5.0, 2.0, true), (1.0, -2.0, -3.0, -4.0, 2.0, 7.0, true), (0.0, 0.0, 0.0, 0.75, 0.25, 1.0, true), (0.0, 0.0, 0.0009765625, 0.0, 1.0, 0.9990234375, true), (2.0, 2.0, 0.0, -0.0009765625, 0.9990234375, 1.0, true)] {
        for k in [-4i64, -1, 1, 4] { for which in [0, 1] {
            let (q0, q1) = if which == 0 { (ulps(r0, k), r1) } else { (r0, ulps(r1, k)) };
            let a = Circle2::new(cx, cy, q0);
            let b = Circle2::new(cx + ox, cy + oy, q1);
            let d = ((ox * ox + oy * oy) as f64).sqrt();
            // do the circles overlap (by units in the last place) or miss each other?
            let meet = if internal { d >= (q0 - q1).abs() } else { d <= q0 + q1 };
            r.case();
            let got = a.intersections_with(&b);
            let desc = || format!("circle {:?} x circle {:?} ({} units in the last place from {} tangency, centre distance {:?}) -> {:?}", cs(&a), cs(&b), k, if internal { "internal" } else { "external" }, d, ps(&got));
            r.check(got.iter().all(fin), "circle-circle intersection: no non-finite coordinate", desc);
            r.check(if meet { got.len() == 1 || got.len() == 2 } else { got.len() <= 1 }, "circle-circle intersection within units in the last place of tangency: one point (or the two nearly coincident crossing points / none on the far side)", desc);
            r.check(got.iter().all(|q| on_circle5(q, &a) && on_circle5(q, &b)) && (got.len() < 2 || d2(&got[0], &got[1]) <= 1e-6 * (q0 + q1)), "circle-circle intersection: every returned point lies on both circles", desc);
        } }
    }
    // ---- decimal tangencies (0.1 + 0.2 style: the stored distance is within a few ulps of the stored radii sum / difference)
    for i in 1..=9 { for j in 1..=9 { for internal in [false, true] { for (ux, uy) in [(1.0, 0.0), (0.0, 1.0), (-1.0, 0.0)] {
        if internal && i == j { continue; }
        let (r0, r1) = (i as f64 / 10.0, j as f64 / 10.0);
        let d = if internal { (i as f64 - j as f64).abs() / 10.0 } else { (i + j) as f64 / 10.0 };
        let a = Circle2::new(0.0, 0.0, r0);
        let b = Circle2::new(ux * d, uy * d, r1);
        r.case();
        let got = a.intersections_with(&b);
        let desc = || format!("circle {:?} x circle {:?} (decimal {} tangency) -> {:?}", cs(&a), cs(&b), if internal { "internal" } else { "external" }, ps(&got));
        r.check(got.iter().all(fin), "circle-circle intersection: no non-finite coordinate", desc);
        r.check(got.len() <= 2 && got.iter().all(|q| on_circle5(q, &a) && on_circle5(q, &b)) && (got.len() < 2 || d2(&got[0], &got[1]) <= 1e-6), "circle-circle intersection: every returned point lies on both circles", desc);
    } } } }
}

/// tangent points: 8 directions in all four quadrants (incl. the negative x axis, where atan2 returns +-pi), circles at
/// 1e6 from the origin, radius 2^-20 and 2^20, ratios d/r up to 1e9, and the exact closed form as an oracle:
/// t = c + (r^2/d^2)(q - c) +- (r sqrt(d^2 - r^2)/d^2) perp(q - c)
fn check_w5_tangent_points(r: &mut Report) {
    let circles = [(0.0, 0.0, 1.0), (1.0e6, -2.0e6, 3.0), (-3.0, 0.5, 1.0 / 1048576.0), (5.0, 5.0, 1048576.0), (-250.0, -125.0, 40.0)];
    let dirs = [(1.0, 0.0), (0.0, 1.0), (-1.0, 0.0), (0.0, -1.0), (0.6, 0.8), (-0.8, 0.6), (-0.6, -0.8), (0.8, -0.6)];
    let ratios = [1.0 + 1e-9, 1.0000001, 1.01, 1.5, 7.0, 30.0, 100.0, 1.0e4, 1.0e6, 1.0e9];
    for (cx, cy, rad) in circles { let c = Circle2::new(cx, cy, rad); for (ux, uy) in dirs { for ratio in ratios {
        let q = p(cx + ux * rad * ratio, cy + uy * rad * ratio);
        let (vx, vy) = (q.x - cx, q.y - cy);
        let d = (vx * vx + vy * vy).sqrt();
        // the point must be representably outside (far circles cannot resolve d/r = 1 + 1e-9)
        if d <= rad * (1.0 + 1e-12) + 1e-9 * (cx.abs() + cy.abs()) { continue; }
        r.case();
        let got = c.tangent_points_to(&q);
        let desc = || format!("circle {:?}.tangent_points_to({:?}) (d/r = {:?}) -> {:?}", cs(&c), (q.x, q.y), d / rad, got.map(|(a, b)| ((a.x, a.y), (b.x, b.y))));
        match got {
            None => r.check(false, "tangent points exist for a point outside the circle", desc),
            Some((t0, t1)) => {
                r.check(fin(&t0) && fin(&t1), "tangent points: no non-finite coordinate", desc);
                // sensitivity of the tangent direction near the perimeter: 1/sqrt(d/r - 1)
                let amp = 1.0 + 1.0 / (d / rad - 1.0).sqrt();
                let tl = tol5(&c) * amp;
                r.check((d2(&t0, &c.center) - rad).abs() <= tol5(&c) && (d2(&t1, &c.center) - rad).abs() <= tol5(&c), "tangent points lie on the circle", desc);
                let perp = |t: &Point2| { let l = d2(&q, t); let dot = (t.x - cx) * (q.x - t.x) + (t.y - cy) * (q.y - t.y); dot.abs() <= tl * (l + rad) };
                r.check(perp(&t0) && perp(&t1), "tangent line through the external point is perpendicular to the radius", desc);
                let k = rad * rad / (d * d);
                let h = rad * ((d - rad) * (d + rad)).sqrt() / (d * d);
                // left of the line point -> centre is the side of +perp(q - c) = (-vy, vx) ... seen from q looking at c
                let e_right = p(cx + k * vx - h * vy, cy + k * vy + h * vx);
                let e_left = p(cx + k * vx + h * vy, cy + k * vy - h * vx);
                r.check(d2(&t0, &e_left) <= tl && d2(&t1, &e_right) <= tl, "tangent points equal the closed form, first the one to the left of the line from the point to the centre, second the one to the right", || format!("{} expected {:?} {:?}", desc(), (e_left.x, e_left.y), (e_right.x, e_right.y)));
            }
        }
    } } 
        // projection / distance at extreme ratios
        for (ux, uy) in dirs { for ratio in [1e-6, 0.03125, 1.0e6] {
            let q = p(cx + ux * rad * ratio, cy + uy * rad * ratio);
            let (vx, vy) = (q.x - cx, q.y - cy);
            let d = (vx * vx + vy * vy).sqrt();
            if d < 1e-8 || d < 1e-3 * rad * ratio { continue; } // (the far circles cannot resolve r * 1e-6)
            r.case();
            let got = c.project_point_to_perimeter(&q);
            let e = p(cx + vx / d * rad, cy + vy / d * rad);
            r.check(match got { Some(g) => d2(&g, &e) <= tol5(&c), None => false }, "projection to the perimeter lies on the circle along the centre-to-point direction", || format!("circle {:?}.project_point_to_perimeter({:?}) -> {:?}", cs(&c), (q.x, q.y), got.map(|g| (g.x, g.y))));
            r.check((c.distance_to(&q) - (d - rad)).abs() <= tol5(&c) + 1e-12 * d, "distance_to is the signed distance to the perimeter", || format!("circle {:?}.distance_to({:?}) -> {:?}", cs(&c), (q.x, q.y), c.distance_to(&q)));
        } }
    }
}

/// outer tangents: nearly equal radii (differences 1e-3 .. 1e-9 use the general construction, 1e-11 the equal-radius
/// one), all four quadrants, centre distances 1e4 / 1e6, scales 2^-20 / 2^20, a far base centre; tangency checked
/// relative to the radii (not to the centre distance)
fn check_w5_outer_tangents(r: &mut Report) {
    let mut cfgs: Vec<((f64, f64, f64), (f64, f64, f64))> = vec![];
    for off in [(3.0, 0.0), (0.0, -4.0), (-3.0, -4.0), (5.0, 12.0), (-8.0, 6.0)] {
        for e in [1e-3, 1e-6, 1e-9, 1e-11, -1e-3, -1e-6, -1e-9, -1e-11] { cfgs.push(((0.0, 0.0, 1.0), (off.0, off.1, 1.0 + e))); cfgs.push(((2.0, -1.0, 2.5), (2.0 + off.0, -1.0 + off.1, 2.5 * (1.0 + e)))); }
        for (r0, r1) in [(0.5, 2.0), (2.0, 0.5), (3.0, 3.0), (1.0, 2.5)] {
            cfgs.push(((0.0, 0.0, r0), (off.0, off.1, r1)));
            for s in [1.0 / 1048576.0, 1048576.0] { cfgs.push(((0.0, 0.0, r0 * s), (off.0 * s, off.1 * s, r1 * s))); }
            cfgs.push(((1.0e6, -2.0e6, r0), (1.0e6 + off.0, -2.0e6 + off.1, r1)));
            for far in [1.0e4, 1.0e6] { cfgs.push(((0.0, 0.0, r0), (off.0 * far, off.1 * far, r1))); }
        }
    }
    // the smaller circle reaches almost to the inside of the larger one's perimeter (centre distance |r0 - r1| + gap): the two
    // tangent segments are short (length sqrt(gap (2 |r0 - r1| + gap))) but exist
    for (ux, uy) in [(1.0, 0.0), (0.0, -1.0), (-0.6, 0.8)] { for gap in [0.5, 1e-2, 1e-4] { for (r0, r1) in [(1.0, 3.0), (3.0, 1.0), (0.25, 2.0)] {
        let d = (r0 - r1 as f64).abs() + gap;
        cfgs.push(((1.0, 2.0, r0), (1.0 + ux * d, 2.0 + uy * d, r1)));
    } } }
    for ((ax, ay, r0), (bx, by, r1)) in cfgs {
        let (a, b) = (Circle2::new(ax, ay, r0), Circle2::new(bx, by, r1));
        let (ox, oy) = (bx - ax, by - ay);
        let d = (ox * ox + oy * oy).sqrt();
        let rd = (r0 - r1).abs();
        r.case();
        let got = a.outer_tangents_to(&b);
        let show = |s: &Segment2| ((s.a.x, s.a.y), (s.b.x, s.b.y));
        let desc = || format!("circle {:?}.outer_tangents_to(circle {:?}) (centre distance {:?}, |r0-r1| {:?}) -> {:?}", cs(&a), cs(&b), d, rd, got.as_ref().map(|(s0, s1)| (show(s0), show(s1))));
        match got.as_ref() {
            None => r.check(false, "outer tangents exist for circles of which neither contains the other", desc),
            Some((s0, s1)) => {
                r.check(fin(&s0.a) && fin(&s0.b) && fin(&s1.a) && fin(&s1.b), "outer tangents: no non-finite coordinate", desc);
                // rounding: the tangent direction is known to about 1e-16 d / d, the end points to 1e-16 of the coordinates
                let amp = if d < 2.0 * rd { 1.0 + 1.0 / ((d - rd) / rd).sqrt() } else { 1.0 };
                let t = (1e-9 * (r0 + r1) + 1e-13 * (ax.abs() + ay.abs() + bx.abs() + by.abs() + d)) * amp;
                let touches = |s: &Segment2| {
                    let (tx, ty) = (s.b.x - s.a.x, s.b.y - s.a.y);
                    let l = (tx * tx + ty * ty).sqrt();
                    (d2(&s.a, &a.center) - r0).abs() <= t && (d2(&s.b, &b.center) - r1).abs() <= t
                        && ((s.a.x - ax) * tx + (s.a.y - ay) * ty).abs() <= t * l
                        && ((s.b.x - bx) * tx + (s.b.y - by) * ty).abs() <= t * l
                };
                r.check(touches(s0) && touches(s1), "outer tangent segments start on this circle, end on the other and are perpendicular to both radii", desc);
                let side = |q: &Point2| (q.x - ax) * oy - (q.y - ay) * ox; // > 0 on the right of the line a -> b
                r.check(side(&s0.a) * side(&s0.b) > 0.0 && side(&s1.a) * side(&s1.b) > 0.0 && side(&s0.a) * side(&s1.a) < 0.0, "outer tangent segments lie on opposite sides of the centre line and do not cross it", desc);
                if rd < 1e-10 {
                    r.check(side(&s0.a) < 0.0 && side(&s1.a) > 0.0, "outer tangents of EQUAL-radius circles in the documented order (first left / negative normal side, second right)", desc);
                } else {
                    r.check(side(&s0.a) < 0.0 && side(&s1.a) > 0.0, "outer tangents in the documented order (first left / negative normal side, second right)", desc);
                }
            }
        }
    }
}

/// scale-aware form of seg_circle_count (thresholds relative to the radius)
fn seg_circle_count5(a: &Point2, b: &Point2, c: &Circle2) -> Option<usize> {
    let (dx, dy) = (b.x - a.x, b.y - a.y);
    let (fx, fy) = (a.x - c.x(), a.y - c.y());
    let l2 = dx * dx + dy * dy;
    let tc = -(fx * dx + fy * dy) / l2;
    let (qx, qy) = (fx + tc * dx, fy + tc * dy);
    let dist = (qx * qx + qy * qy).sqrt();
    let eps = 1e-6 * c.r();
    for e in [a, b] { if (d2(e, &c.center) - c.r()).abs() < eps { return None; } }
    if dist == c.r() { return Some(if tc >= 0.0 && tc <= 1.0 { 1 } else { 0 }); }
    if (dist - c.r()).abs() < eps { return None; }
    if dist > c.r() { return Some(0); }
    let th = ((c.r() * c.r() - dist * dist) / l2).sqrt();
    Some([tc - th, tc + th].iter().filter(|t| **t >= 0.0 && **t <= 1.0).count())
}
fn on_segment5(q: &Point2, a: &Point2, b: &Point2, tol: f64) -> bool {
    let (ex, ey) = (b.x - a.x, b.y - a.y);
    let l2 = ex * ex + ey * ey;
    let s = (((q.x - a.x) * ex + (q.y - a.y) * ey) / l2).clamp(0.0, 1.0);
    d2(q, &p(a.x + s * ex, a.y + s * ey)) <= tol
}

/// lines: intersection_line_circle on rays with direction norms 2^-10 .. 2^10 against the roots of the quadratic
/// |o + t v - c|^2 = r^2; segments whose END POINTS lie exactly on the circle (parameter exactly 0 / 1); circles of
/// radius 2^-20 / 2^20 and 1e6 from the origin; a zigzag curve of 240 edges (also 1e5 from the origin)
fn check_w5_lines(r: &mut Report) {
    // ---- segments of length 2^-10 .. 2^10 radii in 5 directions: the returned points against the roots of
    // |o + t v - c|^2 = r^2 in [0, 1] (intersection_line_circle itself is private to geom2; Segment2 is its public entry)
    for (cx, cy, rad) in [(0.0, 0.0, 5.0), (3.0, -2.0, 2.5), (1.0e6, -1.0e6, 5.0), (0.25, 0.5, 1.0 / 1048576.0), (-7.0, 1.0, 1048576.0)] {
        let c = Circle2::new(cx, cy, rad);
        for (ux, uy) in [(1.0, 0.0), (0.0, 1.0), (0.6, 0.8), (-0.8, 0.6), (0.0, -1.0)] { for norm in [1.0, 2.0, 0.5, 1.0 / 1024.0, 1024.0, 3.0] { for off in [0.0, 0.6, -0.28, 1.0, -1.0, 1.5, -3.0] { for back in [-2.0, 0.0, 0.75, 4.0, 0.3 * norm, 0.9 * norm] {
            // the line at signed distance off * r from the centre with direction (ux, uy); the segment starts `back`
            // radii behind the foot of the centre and is norm radii long
            let (nx, ny) = (-uy, ux);
            let o = p(cx + nx * off * rad - ux * back * rad, cy + ny * off * rad - uy * back * rad);
            let e = p(o.x + ux * norm * rad, o.y + uy * norm * rad);
            // exact tangency only for the axis directions (the foot is then exact); oblique |off| = 1 is left out
            if off * off == 1.0 && ux * uy != 0.0 { continue; }
            // closed form: foot parameter back / norm, half chord sqrt(1 - off^2) / norm
            let tc = back / norm;
            let roots: Vec<f64> = if off * off == 1.0 { vec![tc] } else if off * off > 1.0 { vec![] } else { let th = (1.0 - off * off).sqrt() / norm; vec![tc - th, tc + th] };
            if roots.iter().any(|t| t.abs() < 1e-6 || (t - 1.0).abs() < 1e-6) { continue; }
            let exp_pts: Vec<Point2> = roots.iter().filter(|t| **t > 0.0 && **t < 1.0).map(|t| p(o.x + ux * norm * rad * t, o.y + uy * norm * rad * t)).collect();
            let sg = match Segment2::try_new(o, e) { Ok(s) => s, Err(_) => continue };
            r.case();
            let got = c.intersection(&sg);
            let desc = || format!("circle {:?} x segment {:?}-{:?} (line at {:?} r from the centre, {:?} r long, starting {:?} r behind the foot) -> {:?} expected {:?}", cs(&c), (o.x, o.y), (e.x, e.y), off, norm, back, ps(&got), ps(&exp_pts));
            r.check(got.iter().all(fin), "circle-segment intersection: no non-finite coordinate", desc);
            r.check(got.len() == exp_pts.len(), "circle-segment intersection: count matches the configuration (0 apart, 1 tangent or one end inside, 2 crossing)", desc);
            let t5 = (tol5(&c) + 1e-13 * rad * (back.abs() + norm)) * if off * off == 1.0 { 1e5 } else { 1.0 };
            r.check(got.iter().all(|g| exp_pts.iter().any(|x| d2(g, x) <= t5)) && exp_pts.iter().all(|x| got.iter().any(|g| d2(g, x) <= t5)), "circle-segment intersection: the returned points are the points of the segment at the roots of |o + t v - c|^2 = r^2 in [0, 1]", desc);
        } } } }
    }
    // ---- segments with an end point exactly on the circle (integer points of the radius-5 circle)
    for (cx, cy) in [(0.0, 0.0), (3.0, -2.0), (-1024.0, 4096.0)] { for s in [1.0, 1.0 / 1024.0, 1024.0] {
        let c = Circle2::new(cx, cy, 5.0 * s);
        let q = |x: f64, y: f64| p(cx + x * s, cy + y * s);
        let segs: [((f64, f64), (f64, f64), usize); 12] = [
            ((5.0, 0.0), (10.0, 0.0), 1), ((10.0, 0.0), (5.0, 0.0), 1), ((3.0, 4.0), (0.0, 0.0), 1), ((0.0, 0.0), (3.0, 4.0), 1),
            ((3.0, 4.0), (-4.0, 3.0), 2), ((3.0, 4.0), (-3.0, -4.0), 2), ((4.0, 3.0), (4.0, -3.0), 2), ((5.0, 0.0), (5.0, 7.0), 1),
            ((5.0, -7.0), (5.0, 0.0), 1), ((0.0, -5.0), (0.0, 9.0), 2), ((-4.0, -3.0), (-8.0, -6.0), 1), ((0.0, 5.0), (-5.0, 0.0), 2)];
        for ((x0, y0), (x1, y1), expected) in segs {
            let (a, b) = (q(x0, y0), q(x1, y1));
            let sg = Segment2::try_new(a, b).unwrap();
            r.case();
            let got = c.intersection(&sg);
            let desc = || format!("circle {:?} x segment {:?}-{:?} (an end point exactly on the circle) -> {:?} (expected {} points)", cs(&c), (a.x, a.y), (b.x, b.y), ps(&got), expected);
            r.check(got.len() == expected, "circle-segment intersection: an end point of the segment that lies exactly on the circle is an intersection (closed segment, parameter 0 / 1)", desc);
            r.check(got.iter().all(|g| on_circle5(g, &c) && on_segment5(g, &a, &b, 10.0 * tol5(&c))), "circle-segment intersection: every returned point lies on the circle and on the segment", desc);
        }
    } }
    // ---- the round-1 segment families at other magnitudes
    for (cx, cy, rad) in [(1.0e6, -1.0e6, 5.0), (0.0, 0.0, 5.0 / 1048576.0), (3.0, -2.0, 5.0 * 1048576.0), (-1.0e5, 3.0e5, 2.5)] {
        let c = Circle2::new(cx, cy, rad);
        let mut segs: Vec<(Point2, Point2)> = vec![];
        segs.push((p(cx - 2.0 * rad, cy + rad), p(cx + 2.0 * rad, cy + rad)));
        segs.push((p(cx - rad, cy - 1.5 * rad), p(cx - rad, cy + 2.0 * rad)));
        segs.push((p(cx + 0.25 * rad, cy + rad), p(cx + 2.0 * rad, cy + rad)));
        for off in [0.0, 0.25, 0.5, 0.75, 0.96875, 1.03125, 2.0] {
            segs.push((p(cx - 3.0 * rad, cy + off * rad), p(cx + 3.0 * rad, cy + off * rad)));
            segs.push((p(cx - off * rad, cy - 2.0 * rad), p(cx - off * rad, cy + 4.0 * rad)));
            segs.push((p(cx + off * rad, cy), p(cx + off * rad + 3.0 * rad, cy + 1.5 * rad)));
            segs.push((p(cx - 2.0 * rad, cy - 2.0 * rad - off * rad), p(cx + 2.0 * rad, cy + 2.0 * rad - off * rad)));
            segs.push((p(cx + 0.25 * rad, cy + 0.125 * rad), p(cx + 0.25 * rad + off * rad, cy - 0.5 * rad)));
            // a long segment (1000 r) crossing / missing the circle
            segs.push((p(cx - 600.0 * rad, cy + off * rad), p(cx + 400.0 * rad, cy + off * rad)));
        }
        for (a, b) in segs.iter() { for (a, b) in [(a, b), (b, a)] {
            let expected = match seg_circle_count5(a, b, &c) { Some(e) => e, None => continue };
            let sg = match Segment2::try_new(*a, *b) { Ok(s) => s, Err(_) => continue };
            r.case();
            let got = c.intersection(&sg);
            let desc = || format!("circle {:?} x segment {:?}-{:?} -> {:?} (expected {} points)", cs(&c), (a.x, a.y), (b.x, b.y), ps(&got), expected);
            r.check(got.iter().all(fin), "circle-segment intersection: no non-finite coordinate", desc);
            r.check(got.len() == expected, "circle-segment intersection: count matches the configuration (0 apart, 1 tangent or one end inside, 2 crossing)", desc);
            let len = d2(a, b);
            let t = tol5(&c) * if expected == 1 && got.len() == 1 && (seg_is_tangent(a, b, &c)) { 1e5 } else { 1.0 } + 1e-13 * len;
            r.check(got.iter().all(|g| fin(g) && (d2(g, &c.center) - rad).abs() <= t && on_segment5(g, a, b, t)), "circle-segment intersection: every returned point lies on the circle and on the segment", desc);
        } }
    }
    // ---- a long zigzag curve (240 edges), also far from the origin
    for (bx, by) in [(0.0, 0.0), (1.0e5, -2.0e5)] {
        let pts: Vec<Point2> = (0..=240).map(|i| p(bx + i as f64 * 0.5, by + if i % 2 == 0 { -3.0 } else { 3.0 })).collect();
        let curve = match Curve2::from_points(&pts, 1e-6, false) { Ok(c) => c, Err(_) => { r.check(false, "coverage: the zigzag curve is built", || String::new()); continue } };
        for (cx, cy, rad) in [(60.0, 0.0, 58.8), (60.3, 0.7, 10.1), (119.9, 2.9, 1.3), (0.1, -2.9, 0.9), (30.2, 40.0, 41.3), (60.0, -1.0, 200.0), (77.7, 0.0, 2.05)] {
            let c = Circle2::new(bx + cx, by + cy, rad);
            let mut expected = 0; let mut skip = false;
            for i in 0..pts.len() - 1 { match seg_circle_count(&pts[i], &pts[i + 1], &c) { Some(e) => expected += e, None => skip = true } }
            if skip { continue; }
            r.case();
            let got = curve.intersection(&c);
            let desc = || format!("zigzag curve of 240 edges from ({:?}, {:?}) x circle {:?} -> {} points {:?} (expected {})", bx, by - 3.0, cs(&c), got.len(), ps(&got), expected);
            r.check(got.len() == expected, "curve-circle intersection: count equals the sum over the edges", desc);
            r.check(got.iter().all(|g| on_circle5(g, &c) && (0..pts.len() - 1).any(|i| on_segment5(g, &pts[i], &pts[i + 1], 10.0 * tol5(&c)))), "curve-circle intersection: every returned point lies on the circle and on the curve", desc);
        }
    }
}
fn seg_is_tangent(a: &Point2, b: &Point2, c: &Circle2) -> bool {
    let (dx, dy) = (b.x - a.x, b.y - a.y);
    let (fx, fy) = (a.x - c.x(), a.y - c.y());
    let tc = -(fx * dx + fy * dy) / (dx * dx + dy * dy);
    let (qx, qy) = (fx + tc * dx, fy + tc * dy);
    (qx * qx + qy * qy).sqrt() == c.r()
}

/// bounding box of an arc against the exact extremes, to a given tolerance (scale-aware form of check_arc_box)
fn check_arc_box5(r: &mut Report, arc: &Arc2, what: &str) {
    let (cx, cy, rad) = (arc.center().x, arc.center().y, arc.radius());
    let (a0, sw) = (arc.angle0, arc.angle);
    let (lo, hi) = if sw >= 0.0 { (a0, a0 + sw) } else { (a0 + sw, a0) };
    let mut cand: Vec<Point2> = vec![circle_pt(cx, cy, rad, a0), circle_pt(cx, cy, rad, a0 + sw)];
    let k0 = (lo / (PI / 2.0)).ceil() as i64;
    let k1 = (hi / (PI / 2.0)).floor() as i64;
    for k in k0..=k1 { let m = ((k % 4) + 4) % 4; let (ux, uy) = [(1.0, 0.0), (0.0, 1.0), (-1.0, 0.0), (0.0, -1.0)][m as usize]; cand.push(p(cx + rad * ux, cy + rad * uy)); }
    for i in 0..=90 { cand.push(circle_pt(cx, cy, rad, a0 + sw * i as f64 / 90.0)); }
    let (mut x0, mut x1, mut y0, mut y1) = (f64::MAX, f64::MIN, f64::MAX, f64::MIN);
    for q in cand.iter() { x0 = x0.min(q.x); x1 = x1.max(q.x); y0 = y0.min(q.y); y1 = y1.max(q.y); }
    let bb = arc.aabb();
    // |a0| up to 100: the angle itself carries 1e-14 of rounding
    let tol = 1e-9 * rad + 1e-14 * (cx.abs() + cy.abs()) + 1e-13 * rad * (1.0 + a0.abs());
    let desc = || format!("{}: cached box [{:?}, {:?}] x [{:?}, {:?}], extent of the arc [{:?}, {:?}] x [{:?}, {:?}]", what, bb.mins.x, bb.maxs.x, bb.mins.y, bb.maxs.y, x0, x1, y0, y1);
    r.check(bb.mins.x.is_finite() && bb.mins.y.is_finite() && bb.maxs.x.is_finite() && bb.maxs.y.is_finite(), "arc bounding box: no non-finite coordinate", desc);
    r.check(bb.mins.x <= x0 + tol && bb.mins.y <= y0 + tol && bb.maxs.x >= x1 - tol && bb.maxs.y >= y1 - tol, "cached bounding box of an arc contains it", desc);
    r.check(bb.mins.x >= x0 - tol && bb.mins.y >= y0 - tol && bb.maxs.x <= x1 + tol && bb.maxs.y <= y1 + tol, "cached bounding box of an arc touches it on all four sides", desc);
}

/// arcs: start angles OUTSIDE [-pi, pi] (up to +-100 rad), radii 2^-20 / 2^20, centres 1e6 from the origin, sweep 0
/// (box only), every constructor; three-point arcs on scaled and far rings
fn check_w5_arcs(r: &mut Report) {
    let geoms = [(3.0, -2.0, 1.0), (0.0, 0.0, 1.0 / 1048576.0), (1.0e6, -2.0e6, 2.5), (-7.0, 9.0, 1048576.0), (1.0e5, 1.0e5, 1.0e4)];
    let starts = [4.0, 2.0 * PI, -2.0 * PI, 7.5, -9.0, 13.0, 100.0, -50.0, 3.0 * PI / 2.0, -3.0 * PI / 2.0, 5.0 * PI, 0.3, -2.0, PI, -PI];
    let mut sweeps: Vec<f64> = (-16..=16).map(|k| k as f64 * PI / 8.0).collect();
    sweeps.extend_from_slice(&[0.3, -1.7, 5.9, -6.2, 1e-6, -1e-6, 4.0, -3.3]);
    for (cx, cy, rad) in geoms { for &a0 in starts.iter() { for &sw in sweeps.iter() {
        r.case();
        let c = Circle2::new(cx, cy, rad);
        let arcs = [("Arc2::circle_angles", Arc2::circle_angles(p(cx, cy), rad, a0, sw)), ("Circle2::to_partial_arc", c.to_partial_arc(a0, sw))];
        for (name, arc) in arcs.iter() {
            let what = format!("{}(({:?}, {:?}), r {:?}, angle0 {:?}, sweep {:?})", name, cx, cy, rad, a0, sw);
            let t = tol5(&c) + 1e-13 * rad * (1.0 + a0.abs());
            let len = arc.length();
            r.check((len - rad * sw.abs()).abs() <= 1e-12 * len, "arc length == radius * |sweep|", || format!("{} length {:?}", what, len));
            r.check(d2(&arc.start(), &circle_pt(cx, cy, rad, a0)) <= t && d2(&arc.end(), &circle_pt(cx, cy, rad, a0 + sw)) <= t, "arc starts at angle0 and ends at angle0 + sweep", || format!("{} start {:?} end {:?}", what, (arc.start().x, arc.start().y), (arc.end().x, arc.end().y)));
            check_arc_box5(r, arc, &what);
            if sw == 0.0 { continue; } // point_at_length divides by the length
            let mut ok = true; let mut bad = String::new();
            for f in [0.0, 0.3125, 1.0] {
                let l = len * f;
                let e = circle_pt(cx, cy, rad, a0 + sw.signum() * l / rad);
                let (by_len, by_frac, by_ang) = (arc.point_at_length(l), arc.point_at_fraction(f), arc.point_at_angle(sw * f));
                if !(d2(&by_len, &e) <= t && d2(&by_frac, &e) <= t && d2(&by_ang, &e) <= t) { ok = false; bad = format!("fraction {:?}: point_at_length {:?}, point_at_fraction {:?}, point_at_angle {:?}, expected {:?}", f, (by_len.x, by_len.y), (by_frac.x, by_frac.y), (by_ang.x, by_ang.y), (e.x, e.y)); }
            }
            r.check(ok, "point_at_length, point_at_fraction and point_at_angle agree with travelling along the arc from its start in the sweep direction", || format!("{} {}", what, bad));
        }
        // from a start POINT: same arc up to a whole number of turns in angle0
        let a3 = Arc2::circle_point_angle(p(cx, cy), rad, circle_pt(cx, cy, rad, a0), sw);
        let t3 = tol5(&c) + 1e-13 * rad * (1.0 + a0.abs()) + 1e-15 * (cx.abs() + cy.abs()) * 10.0;
        r.check(d2(&a3.start(), &circle_pt(cx, cy, rad, a0)) <= t3 && d2(&a3.end(), &circle_pt(cx, cy, rad, a0 + sw)) <= t3 && a3.angle == sw, "to_partial_arc and circle_point_angle build the same arc as circle_angles", || format!("Arc2::circle_point_angle(({:?}, {:?}), r {:?}, point at angle {:?}, sweep {:?}) -> angle0 {:?}", cx, cy, rad, a0, sw, a3.angle0));
        if rad > 1e-3 * (cx.abs() + cy.abs()) * 1e-6 { check_arc_box5(r, &a3, &format!("Arc2::circle_point_angle(({:?}, {:?}), r {:?}, point at angle {:?}, sweep {:?})", cx, cy, rad, a0, sw)); }
    } } }
    // ---- short sweeps (0.01 .. 0.25 rad, both signs) that straddle an axis extreme asymmetrically: the box must still reach
    // the extreme (centre +- r), which is up to r (1 - cos 0.18) beyond both end points
    for (cx, cy, rad) in [(0.0, 0.0, 1.0), (3.0, -2.0, 7.5), (-50.0, 75.0, 0.25)] { for k in -2..=4 { for w in [0.01, 0.1, 0.25, -0.01, -0.1, -0.25] { for f in [0.3, 0.9] {
        let a0 = k as f64 * PI / 2.0 - f * w;
        r.case();
        let c = Circle2::new(cx, cy, rad);
        let what = format!("centre ({:?}, {:?}) r {:?}, start {:?}, sweep {:?} (straddles {} pi/2)", cx, cy, rad, a0, w, k);
        check_arc_box5(r, &Arc2::circle_angles(p(cx, cy), rad, a0, w), &format!("Arc2::circle_angles, {}", what));
        check_arc_box5(r, &c.to_partial_arc(a0, w), &format!("Circle2::to_partial_arc, {}", what));
        check_arc_box5(r, &Arc2::circle_point_angle(p(cx, cy), rad, circle_pt(cx, cy, rad, a0), w), &format!("Arc2::circle_point_angle, {}", what));
        // (three points 0.01 rad apart are collinear to from_3_points' absolute threshold: not in general position)
        if rad * rad * w.abs().powi(3) > 5e-4 { check_arc_box5(r, &Arc2::three_points(circle_pt(cx, cy, rad, a0), circle_pt(cx, cy, rad, a0 + 0.4 * w), circle_pt(cx, cy, rad, a0 + w)), &format!("Arc2::three_points, {}", what)); }
    } } } }
    // ---- three-point arcs on scaled / far rings: every 7th ordered triple of the 12 integer points of the radius-5 circle
    let ring = [(5.0, 0.0), (4.0, 3.0), (3.0, 4.0), (0.0, 5.0), (-3.0, 4.0), (-4.0, 3.0), (-5.0, 0.0), (-4.0, -3.0), (-3.0, -4.0), (0.0, -5.0), (3.0, -4.0), (4.0, -3.0)];
    for (cx, cy, k) in [(0.0, 0.0, 1.0 / 64.0), (0.0, 0.0, 1024.0), (1.0e4, -3.0e4, 1.0), (-2.0e5, 1.0e5, 256.0), (7.0, 7.0, 1048576.0)] {
        for i in 0..12 { for j in 0..12 { for l in 0..12 {
            if i == j || j == l || i == l || (i + 2 * j + 3 * l) % 7 != 0 { continue; }
            let q = |m: usize| p(cx + k * ring[m].0, cy + k * ring[m].1);
            let (p0, p1, p2) = (q(i), q(j), q(l));
            r.case();
            let arc = Arc2::three_points(p0, p1, p2);
            let rad = 5.0 * k;
            let desc = || format!("Arc2::three_points({:?}, {:?}, {:?}) -> centre ({:?}, {:?}) r {:?} angle0 {:?} sweep {:?}", (p0.x, p0.y), (p1.x, p1.y), (p2.x, p2.y), arc.center().x, arc.center().y, arc.radius(), arc.angle0, arc.angle);
            // conditioning of the circumcentre in absolute coordinates: eps |c|^2 / r
            let cc = cx.abs() + cy.abs();
            let t = 1e-9 * rad + 1e-13 * cc * (1.0 + cc / rad);
            r.check(arc.angle.is_finite() && arc.angle0.is_finite() && fin(&arc.center()) && arc.radius().is_finite(), "three-point arc: no non-finite value", desc);
            r.check(d2(&arc.center(), &p(cx, cy)) <= t && (arc.radius() - rad).abs() <= t, "three-point arc lies on the circle through the three points", desc);
            r.check(d2(&arc.start(), &p0) <= t, "three-point arc starts at the first point", desc);
            r.check(d2(&arc.end(), &p2) <= t, "three-point arc ends at the third point", desc);
            let turn = (p1.x - p0.x) * (p2.y - p1.y) - (p1.y - p0.y) * (p2.x - p1.x);
            r.check((arc.angle > 0.0) == (turn > 0.0) && arc.angle.abs() <= 2.0 * PI + 1e-12 && arc.angle != 0.0, "three-point arc sweeps counter-clockwise (positive) exactly when the points turn left, by at most a full turn", desc);
            let a1 = (p1.y - cy).atan2(p1.x - cx);
            let mut da = if arc.angle > 0.0 { a1 - arc.angle0 } else { arc.angle0 - a1 };
            while da < 0.0 { da += 2.0 * PI; }
            while da >= 2.0 * PI { da -= 2.0 * PI; }
            let f = da / arc.angle.abs();
            r.check(f > 0.0 && f < 1.0 && d2(&arc.point_at_fraction(f), &p1) <= 10.0 * t, "three-point arc passes through the second point between its ends", || format!("{} fraction {:?}", desc(), f));
        } } }
    }
    // ---- cached boxes of circles at extreme magnitudes
    for (cx, cy) in [(1.0e8, -3.0e7), (0.0, 0.0), (-1.0e-9, 1.0e-9)] { for rad in [1.0e-9, 1.0, 1.0e9] {
        r.case();
        check_circle_box(r, &Circle2::new(cx, cy, rad), "Circle2::new", &|| format!("Circle2::new({:?}, {:?}, {:?})", cx, cy, rad));
        check_circle_box(r, &Circle2::from_point(p(cx, cy), rad), "Circle2::from_point", &|| format!("Circle2::from_point(({:?}, {:?}), {:?})", cx, cy, rad));
        check_circle_box(r, &Circle2::new(cx, cy, rad).to_arc().circle, "Circle2::to_arc (field circle)", &|| format!("Circle2::new({:?}, {:?}, {:?}).to_arc()", cx, cy, rad));
    } }
}

pub fn run() -> Option<Report> {
    let mut r = Report::new("circle pairs: 3 centres x 12 offsets (centre distances 0, 0.5, 1, 2, 3, 4, 5, 8, 10, 13, sqrt 2, ...) x 8 x 8 radii (separate, nested, internally / externally tangent, equal radii, concentric; within 1e-6 of tangency excluded unless exact); tangent points: 4 circles x 6 directions x d/r in {1+1e-9, 1+1e-6, 1.001, 1.1, sqrt 2, 2, 3, 10, 1e3} and points on / inside the perimeter; outer tangents: 2 centres x 10 offsets x 6 x 6 radii; segments: 4 circles x 40 segments (exactly tangent, chords, partial, inside, outside) in both senses, 3 polylines x 25 circles; three-point arcs: all ordered triples of the 12 integer points of the radius-5 circle x 3 centres; arcs: 3 centres x 3 radii x 18 start angles x 40 signed sweeps in [-2pi, 2pi] (box checked against both ends, the axis extremes inside the sweep and 720 samples); cached boxes of circles from every producer: new / from_point / clone (5 centres x 6 radii), from_3_points (every fifth ordered triple of the 12 integer points of the radius-5 circle x 5 centres x 3 scales), fitting_circle -> fit_circle (4 circles x 4 / 7 / 12 / 36 exact samples over a full turn or 3.5 rad x 5 initial guesses different from the answer x BestFit::All / Gaussian(3)), ransac (2 circles, 24 points + 3 outliers, 3 parameter sets), the circle field of arcs from circle_angles / circle_point_angle / three_points / to_arc / to_partial_arc; ROUND 4: the arc box clause for the circle_angles, circle_point_angle AND to_partial_arc form of every arc of the grid, and LONG sweeps through every constructor: 3 centres x 3 radii x 16 start angles x sweeps +-{270, 275, 285, 300, 315, 330, 345, 359} degrees (most of them leave out one axis extreme) built by circle_angles / to_partial_arc / circle_point_angle / three_points, and InscribedCircle::contact_arc for contact points 20 .. 90 degrees apart at 7 positions with the direction into / away from the gap; WAVE 5 (scale-aware tolerances 1e-9 r + 1e-14 |centre|): the pair grid at scales 2^-20 .. 2^20 and a base centre 1e6 away, radius 0, both call orders, intersection_interval ends == intersection points; centre distances r 2^-10 .. r 2^-30 between (nearly) equal circles; radii 1 / 4 units in the last place either side of external / internal tangency and decimal tangencies; tangent points in 8 directions (all quadrants, negative x axis) x 5 circles (1e6 from the origin, r 2^-20 / 2^20) x d/r up to 1e9 against the closed form; projection / distance at ratios 1e-6 .. 1e6; outer tangents for radii differing by 1e-3 .. 1e-11, all quadrants, centre distances to 1.3e7, scales 2^-20 / 2^20, gaps 0.5 .. 1e-4 from internal tangency; segments of 2^-10 .. 2^10 radii against the roots of the quadratic, end points exactly on the circle (parameter 0 / 1), circles of radius 5 * 2^-20 .. 5 * 2^20 and 1e6 away, segments 1000 r long, a zigzag curve of 240 edges (also 2e5 from the origin); arcs with start angles outside [-pi, pi] (to +-100 rad), sweep 0 and +-1e-6, r 2^-20 .. 2^20, centres 1e6 away, short sweeps straddling an axis extreme; three-point arcs on rings of radius 5/64 .. 5 * 2^20 up to 2e5 from the origin; circle boxes for centres 1e8 / radii 1e-9 .. 1e9");
    check_circle_pairs(&mut r);
    check_tangent_points(&mut r);
    check_outer_tangents(&mut r);
    check_lines(&mut r);
    check_three_point_arcs(&mut r);
    check_arcs(&mut r);
    check_long_arcs(&mut r);
    check_circle_boxes(&mut r);
    check_w5_circle_pairs(&mut r);
    check_w5_tangent_points(&mut r);
    check_w5_outer_tangents(&mut r);
    check_w5_lines(&mut r);
    check_w5_arcs(&mut r);
    Some(r)
}
