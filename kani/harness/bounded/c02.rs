//! C02 bounded: closest-point / distance queries compared with an exhaustive scan over all elements, on the REAL
//! code (parry's tree search included).
//! Curves 2D: every vertex sequence of length 2..=3 over the 3x3 integer grid (x force_closed) plus a fixed family of
//! 4..=6-vertex polylines (long thin, nested spiral, nearly coincident runs 2^-10 apart, self-crossing, doubled back)
//! and one 33-vertex zigzag; curves 3D: every vertex sequence of length 2..=3 over {0,1}^3 plus a fixed family.
//! Meshes: box 2x3x4, box + disjoint appended box, box + nested appended box, non-planar two-triangle strip, two
//! nearly coincident triangles, long thin quad; each solid and non-solid.  Query points: half-integer (family: quarter)
//! grids reaching 1 beyond the bounding box -- so: on the entity, equidistant from several elements, inside (non-solid
//! meshes only) -- plus far-outside points.  The oracle is a brute-force scan over all segments / triangles written
//! here (plane projection + inside test + three segment projections; it shares no code with parry).
//! Near-surface part: queries 1e-7 .. 1e-2 off faces, edges and corners (oblique offsets) of a box, a strip, a thin quad
//! and an open roof: closest point / distance and Mesh::measure_point_deviation magnitudes against the brute-force distance.
//! UV wrappers (round 3): Mesh::uv_with_tol on UV-mapped meshes (open roof, two-triangle strip, box with one chart per face),
//! queries given directly and in another frame (transform = Some(T), T a translation / quarter turn / general rotation / 1e-3 rad
//! rotation, each with a translation): acceptance under the distance cap and the angle filter for the point T * p moved ONCE,
//! uv = UV image of the brute-force closest point, depth = offset along that face's normal.
use super::Report;
use crate::geom2::{Curve2, Point2};
use crate::geom3::{Curve3, Iso3, Mesh, Point3, Vector3};
use parry3d_f64::na;
use parry3d_f64::na::{Translation3, UnitQuaternion};
use std::f64::consts::PI;

const EPS: f64 = 1e-9;
fn le(a: f64, b: f64) -> bool { a <= b + EPS * (1.0 + a.abs().max(b.abs())) }
fn eq(a: f64, b: f64) -> bool { (a - b).abs() <= EPS * (1.0 + a.abs().max(b.abs())) }

fn seg_closest<const D: usize>(a: &na::Point<f64, D>, b: &na::Point<f64, D>, q: &na::Point<f64, D>) -> na::Point<f64, D> {
    let ab = b - a;
    let l2 = ab.norm_squared();
    if l2 == 0.0 { return *a; }
    let t = ((q - a).dot(&ab) / l2).clamp(0.0, 1.0);
    a + ab * t
}
fn peq<const D: usize>(a: &na::Point<f64, D>, b: &na::Point<f64, D>) -> bool { (a - b).norm() <= EPS * (1.0 + a.coords.norm().max(b.coords.norm())) }

/// closest point of triangle abc (non-degenerate) to p: foot on the plane if it is inside, else the best of the edges
fn tri_closest(a: &Point3, b: &Point3, c: &Point3, p: &Point3) -> Point3 {
    let n = (b - a).cross(&(c - a));
    let pp = p - n * ((p - a).dot(&n) / n.norm_squared());
    let s0 = (b - a).cross(&(pp - a)).dot(&n);
    let s1 = (c - b).cross(&(pp - b)).dot(&n);
    let s2 = (a - c).cross(&(pp - c)).dot(&n);
    if s0 >= 0.0 && s1 >= 0.0 && s2 >= 0.0 { return pp; }
    let mut best = seg_closest(a, b, p);
    for (u, v) in [(b, c), (c, a)] {
        let x = seg_closest(u, v, p);
        if (p - x).norm() < (p - best).norm() { best = x; }
    }
    best
}

// ------------------------------------------------------------------------------------------------ curves
fn check_curve2(r: &mut Report, name: &str, c: &Curve2, queries: &[Point2]) {
    let v = c.points().to_vec();
    let n = v.len();
    let ls = c.lengths().clone();
    for q in queries {
        r.case();
        let d = || format!("{} vertices {:?} query ({:?}, {:?})", name, v.iter().map(|p| (p.x, p.y)).collect::<Vec<_>>(), q.x, q.y);
        let s = c.at_closest_to_point(q);
        let p = s.point();
        let mut dmin = f64::INFINITY;
        let mut on = f64::INFINITY;
        for i in 0..n - 1 {
            dmin = dmin.min((q - seg_closest(&v[i], &v[i + 1], q)).norm());
            on = on.min((p - seg_closest(&v[i], &v[i + 1], &p)).norm());
        }
        let dp = (q - p).norm();
        r.check(on <= EPS * (1.0 + p.coords.norm()), "curve2: the reported closest point lies on the curve", d);
        r.check(le(dp, dmin), "curve2: no vertex or edge is nearer to the query than the reported point (brute force over all segments)", d);
        let dd = c.dist_to_point(q);
        r.check(eq(dd, dp), "curve2: dist_to_point equals the distance from the query to the reported closest point", d);
        r.check(eq(dd, dmin), "curve2: dist_to_point equals the brute-force minimum distance", d);
        let (i, f) = (s.index(), s.fraction());
        r.check(i + 1 < n && f >= 0.0 && f <= 1.0, "curve2: edge index in range and fraction in [0,1]", d);
        if i + 1 < n {
            let lp = v[i] + (v[i + 1] - v[i]) * f;
            r.check(peq(&lp, &p), "curve2: edge index and fraction reproduce the reported point", d);
            let e = (v[i + 1] - v[i]).normalize();
            let dir = s.direction();
            r.check(eq(dir.x, e.x) && eq(dir.y, e.y), "curve2: the reported direction is that edge's direction", d);
            let nn = s.normal();
            r.check(eq(nn.x, e.y) && eq(nn.y, -e.x), "curve2: the reported normal is that edge's normal (direction turned by -90 degrees)", d);
            r.check(eq(s.length_along(), ls[i] + (p - v[i]).norm()), "curve2: length_along is the arc length of the reported point", d);
        }
    }
}

fn check_curve3(r: &mut Report, name: &str, c: &Curve3, queries: &[Point3]) {
    let v = c.points().to_vec();
    let n = v.len();
    let ls = c.lengths().to_vec();
    for q in queries {
        r.case();
        let d = || format!("{} vertices {:?} query ({:?}, {:?}, {:?})", name, v.iter().map(|p| (p.x, p.y, p.z)).collect::<Vec<_>>(), q.x, q.y, q.z);
        let s = c.at_closest_to_point(q);
        let p = s.point();
        let mut dmin = f64::INFINITY;
        let mut on = f64::INFINITY;
        for i in 0..n - 1 {
            dmin = dmin.min((q - seg_closest(&v[i], &v[i + 1], q)).norm());
            on = on.min((p - seg_closest(&v[i], &v[i + 1], &p)).norm());
        }
        let dp = (q - p).norm();
        r.check(on <= EPS * (1.0 + p.coords.norm()), "curve3: the reported closest point lies on the curve", d);
        r.check(le(dp, dmin), "curve3: no vertex or edge is nearer to the query than the reported point (brute force over all segments)", d);
        let dd = c.dist_to_point(q);
        r.check(eq(dd, dp), "curve3: dist_to_point equals the distance from the query to the reported closest point", d);
        r.check(eq(dd, dmin), "curve3: dist_to_point equals the brute-force minimum distance", d);
        let (i, f) = (s.index(), s.fraction());
        r.check(i + 1 < n && f >= 0.0 && f <= 1.0, "curve3: edge index in range and fraction in [0,1]", d);
        if i + 1 < n {
            let lp = v[i] + (v[i + 1] - v[i]) * f;
            r.check(peq(&lp, &p), "curve3: edge index and fraction reproduce the reported point", d);
            let e = (v[i + 1] - v[i]).normalize();
            let dir = s.direction();
            r.check(eq(dir.x, e.x) && eq(dir.y, e.y) && eq(dir.z, e.z), "curve3: the reported direction is that edge's direction", d);
            r.check(eq(s.length_along(), ls[i] + (p - v[i]).norm()), "curve3: length_along is the arc length of the reported point", d);
        }
    }
}

fn grid2(x0: f64, x1: f64, y0: f64, y1: f64, step: f64) -> Vec<Point2> {
    let mut out = vec![];
    let (nx, ny) = (((x1 - x0) / step).round() as i64, ((y1 - y0) / step).round() as i64);
    for i in 0..=nx { for j in 0..=ny { out.push(Point2::new(x0 + i as f64 * step, y0 + j as f64 * step)); } }
    out
}
fn grid3(lo: (f64, f64, f64), hi: (f64, f64, f64), step: (f64, f64, f64)) -> Vec<Point3> {
    let mut out = vec![];
    let n = |a: f64, b: f64, s: f64| ((b - a) / s).round() as i64;
    for i in 0..=n(lo.0, hi.0, step.0) { for j in 0..=n(lo.1, hi.1, step.1) { for k in 0..=n(lo.2, hi.2, step.2) {
        out.push(Point3::new(lo.0 + i as f64 * step.0, lo.1 + j as f64 * step.1, lo.2 + k as f64 * step.2));
    } } }
    out
}

fn curves(r: &mut Report) {
    // 2D, exhaustive small ones
    let g: Vec<Point2> = (0..9).map(|k| Point2::new((k % 3) as f64, (k / 3) as f64)).collect();
    let mut qs = grid2(-1.0, 3.0, -1.0, 3.0, 0.5);
    qs.extend([Point2::new(100.0, -57.0), Point2::new(-40.0, 1.0), Point2::new(1.0, 64.0), Point2::new(0.75, 0.25), Point2::new(1.25, 1.75)]);
    // EXTREMELY far outside (1e5 .. 1e8 x the size of the curve; tolerance 1e-9 relative to the distance)
    qs.extend([Point2::new(-1.0e6, 2.0e6), Point2::new(3.0e7, 1.0e7), Point2::new(2.0e5, -1.0e5), Point2::new(1.0, -1.0e8)]);
    for a in 0..9 { for b in 0..9 {
        for fc in [false, true] {
            if let Ok(c) = Curve2::from_points(&[g[a], g[b]], 1e-6, fc) { check_curve2(r, "Curve2(2 grid points)", &c, &qs); }
        }
        for cc in 0..9 { for fc in [false, true] {
            if let Ok(c) = Curve2::from_points(&[g[a], g[b], g[cc]], 1e-6, fc) { check_curve2(r, "Curve2(3 grid points)", &c, &qs); }
        } }
    } }
    // 2D family
    let h = 1.0 / 1024.0;
    let p = |x: f64, y: f64| Point2::new(x, y);
    let mut fam: Vec<(&str, Vec<Point2>)> = vec![
        ("long thin", vec![p(0.0, 0.0), p(16.0, 0.0), p(16.0, 0.25), p(0.0, 0.25), p(0.0, 0.5), p(16.0, 0.5)]),
        ("nested spiral", vec![p(0.0, 0.0), p(4.0, 0.0), p(4.0, 4.0), p(0.0, 4.0), p(0.0, 1.0), p(3.0, 1.0)]),
        ("nearly coincident runs", vec![p(0.0, 0.0), p(4.0, 0.0), p(4.0, h), p(0.0, h), p(0.0, 2.0 * h), p(4.0, 2.0 * h)]),
        ("self-crossing", vec![p(0.0, 0.0), p(2.0, 2.0), p(2.0, 0.0), p(0.0, 2.0)]),
        ("doubled back", vec![p(0.0, 0.0), p(4.0, 0.0), p(1.0, 0.0), p(1.0, 3.0), p(1.0, 1.0)]),
        ("short and long edges", vec![p(0.0, 0.0), p(0.25, 0.0), p(0.25, 0.25), p(16.0, 0.25), p(16.0, 4.0)]),
    ];
    fam.push(("33-vertex zigzag", (0..33).map(|k| p(k as f64 * 0.5, if k % 2 == 0 { 0.0 } else { 1.0 + (k % 5) as f64 * 0.25 })).collect()));
    let mut fq = grid2(-1.0, 17.0, -1.0, 5.0, 0.5);
    fq.extend(grid2(-0.25, 4.25, -0.25, 0.75, 0.125));
    fq.extend([p(2.0, h / 2.0), p(2.0, 1.5 * h), p(2.0, h), p(1.0, 0.25 * h), p(3.0, 1.75 * h), p(200.0, 100.0), p(-64.0, 0.125)]);
    fq.extend([p(-1.0e6, 2.0e6), p(3.0e7, 1.0e7), p(2.0e6, -1.0e6), p(8.0, -1.0e8), p(-5.0e6, -4.0e6), p(1.0e7, 2.0)]);
    for (name, pts) in fam.iter() {
        for fc in [false, true] {
            if let Ok(c) = Curve2::from_points(pts, 1e-6, fc) { check_curve2(r, name, &c, &fq); }
        }
    }
    // 3D, exhaustive small ones
    let g3: Vec<Point3> = (0..8).map(|k| Point3::new((k % 2) as f64, ((k / 2) % 2) as f64, (k / 4) as f64)).collect();
    let mut q3 = grid3((-1.0, -1.0, -1.0), (2.0, 2.0, 2.0), (0.5, 0.5, 0.5));
    q3.extend([Point3::new(100.0, -57.0, 20.0), Point3::new(0.25, 0.75, 0.125), Point3::new(-30.0, 0.5, 0.5)]);
    q3.extend([Point3::new(-1.0e6, 2.0e6, 0.0), Point3::new(3.0e7, 1.0e7, -2.0e7), Point3::new(2.0e5, -1.0e5, 3.0e5), Point3::new(0.5, 0.5, 1.0e8)]);
    for a in 0..8 { for b in 0..8 {
        if let Ok(c) = Curve3::from_points(&[g3[a], g3[b]], 1e-6) { check_curve3(r, "Curve3(2 cube corners)", &c, &q3); }
        for cc in 0..8 {
            if let Ok(c) = Curve3::from_points(&[g3[a], g3[b], g3[cc]], 1e-6) { check_curve3(r, "Curve3(3 cube corners)", &c, &q3); }
        }
    } }
    let p3 = |x: f64, y: f64, z: f64| Point3::new(x, y, z);
    let fam3: Vec<(&str, Vec<Point3>)> = vec![
        ("staircase", vec![p3(0.0, 0.0, 0.0), p3(2.0, 0.0, 0.0), p3(2.0, 2.0, 0.0), p3(2.0, 2.0, 2.0), p3(0.0, 2.0, 2.0), p3(0.0, 0.0, 2.0)]),
        ("long thin 3D", vec![p3(0.0, 0.0, 0.0), p3(16.0, 0.0, 0.0), p3(16.0, 0.25, 0.25), p3(0.0, 0.25, 0.25), p3(0.0, 0.5, 0.0), p3(16.0, 0.5, 0.0)]),
        ("nearly coincident 3D", vec![p3(0.0, 0.0, 0.0), p3(4.0, 0.0, 0.0), p3(4.0, 0.0, h), p3(0.0, 0.0, h), p3(0.0, h, h), p3(4.0, h, h)]),
        ("closed square loop", vec![p3(0.0, 0.0, 1.0), p3(2.0, 0.0, 1.0), p3(2.0, 2.0, 1.0), p3(0.0, 2.0, 1.0), p3(0.0, 0.0, 1.0)]),
        ("33-vertex helix-like", (0..33).map(|k| p3((k % 4 / 2) as f64 * 2.0, ((k + 1) % 4 / 2) as f64 * 2.0, k as f64 * 0.25)).collect()),
    ];
    let mut fq3 = grid3((-1.0, -1.0, -1.0), (5.0, 3.0, 3.0), (0.5, 0.5, 0.5));
    fq3.extend(grid3((0.0, -0.25, -0.25), (16.0, 0.75, 0.5), (2.0, 0.125, 0.125)));
    fq3.extend([p3(2.0, 0.0, h / 2.0), p3(2.0, h / 2.0, h), p3(1.0, 0.75 * h, 0.25 * h), p3(200.0, 100.0, -50.0), p3(1.0, 1.0, 1.0), p3(1.0, 1.0, 4.0)]);
    fq3.extend([p3(-1.0e6, 2.0e6, 0.0), p3(3.0e7, 1.0e7, -2.0e7), p3(2.0e6, -1.0e6, 3.0e6), p3(8.0, 0.25, 1.0e8), p3(-5.0e6, -4.0e6, 1.0e6), p3(1.0e7, 2.0, 1.0)]);
    for (name, pts) in fam3.iter() {
        if let Ok(c) = Curve3::from_points(pts, 1e-6) { check_curve3(r, name, &c, &fq3); }
    }
}

// ------------------------------------------------------------------------------------------------ meshes
struct Brute { d: Vec<f64>, cp: Vec<Point3>, dmin: f64 }
fn tris(m: &Mesh) -> Vec<[Point3; 3]> { m.faces().iter().map(|f| [m.vertices()[f[0] as usize], m.vertices()[f[1] as usize], m.vertices()[f[2] as usize]]).collect() }
fn brute(t: &[[Point3; 3]], q: &Point3) -> Brute {
    let cp: Vec<Point3> = t.iter().map(|x| tri_closest(&x[0], &x[1], &x[2], q)).collect();
    let d: Vec<f64> = cp.iter().map(|c| (q - c).norm()).collect();
    let dmin = d.iter().cloned().fold(f64::INFINITY, f64::min);
    Brute { d, cp, dmin }
}
fn tri_normal(t: &[Point3; 3]) -> Vector3 { (t[1] - t[0]).cross(&(t[2] - t[0])).normalize() }
/// unsigned angle between a and b in [0, pi] (0 for a zero vector, as nalgebra defines it)
fn angle(a: &Vector3, b: &Vector3) -> f64 { if a.norm() == 0.0 || b.norm() == 0.0 { 0.0 } else { a.cross(b).norm().atan2(a.dot(b)) } }

#[derive(PartialEq, Clone, Copy)]
enum Tri { Yes, No, Unsure }
/// is the offset q - cp within max_angle of +/- the face normal? (margin 1e-6 rad around the threshold = Unsure)
fn accepts(n: &Vector3, off: &Vector3, max_angle: f64) -> Tri {
    let a = angle(n, off);
    let dev = a.min(PI - a);
    if dev < max_angle - 1e-6 { Tri::Yes } else if dev > max_angle + 1e-6 { Tri::No } else { Tri::Unsure }
}

fn check_mesh(r: &mut Report, name: &str, m: &Mesh, inside: &dyn Fn(&Point3) -> bool, queries: &[Point3]) {
    let t = tris(m);
    let nf = t.len();
    let normals: Vec<Vector3> = t.iter().map(tri_normal).collect();
    let name = format!("{} (is_solid={})", name, m.is_solid());
    let tr = Iso3::from_parts(Translation3::new(1.0, -2.0, 3.0), UnitQuaternion::identity());
    let rot = Iso3::from_parts(Translation3::new(-1.0, 0.5, 2.0), UnitQuaternion::from_axis_angle(&Vector3::z_axis(), PI / 2.0));
    let angles = [0.1, 0.5, 1.0, 1.5, 2.0];
    let mut used: Vec<Point3> = vec![];
    for q in queries {
        // the statement quantifies over inside points for non-solid meshes only
        if m.is_solid() && inside(q) { continue; }
        used.push(*q);
        r.case();
        let d = || format!("{} query ({:?}, {:?}, {:?})", name, q.x, q.y, q.z);
        let b = brute(&t, q);
        let sp = m.surf_closest_to(q);
        let on: Vec<usize> = (0..nf).filter(|&f| (sp.point - tri_closest(&t[f][0], &t[f][1], &t[f][2], &sp.point)).norm() <= EPS * (1.0 + sp.point.coords.norm())).collect();
        r.check(!on.is_empty(), "mesh: the reported closest point lies on a face of the mesh", d);
        let dp = (q - sp.point).norm();
        r.check(le(dp, b.dmin), "mesh: no vertex, edge or face is nearer to the query than the reported point (brute force over all triangles)", d);
        r.check(on.iter().any(|&f| (normals[f] - sp.normal.into_inner()).norm() <= 1e-9), "mesh: the reported normal is the normal of a face containing the reported point", d);
        let pc = m.point_closest_to(q);
        r.check(peq(&pc, &sp.point), "mesh: point_closest_to and surf_closest_to report the same point", d);

        // distance cap: caps well away from the true distance
        let mut caps = vec![b.dmin + 0.5, 2.0 * b.dmin + 1.0];
        if b.dmin > 1e-6 { caps.push(0.5 * b.dmin); }
        for c in [0.25, 1.25, 5.0] { if (b.dmin - c).abs() > 1e-3 { caps.push(c); } }
        for cap in caps.iter() {
            let dc = || format!("{} cap {:?} (true distance {:?})", d(), cap, b.dmin);
            let res = m.project_with_max_dist(q, *cap);
            r.check(res.is_some() == (b.dmin <= *cap), "mesh: with a distance cap a result is returned exactly when the true distance is within the cap", dc);
            if let Some((prj, id, loc)) = res {
                r.check((id as usize) < nf, "mesh: capped projection reports a face of the mesh", dc);
                r.check(le((q - prj.point).norm(), b.dmin), "mesh: capped projection reports a point at the minimum distance", dc);
                if (id as usize) < nf {
                    match loc.barycentric_coordinates() {
                        Some(bc) => {
                            let f = &t[id as usize];
                            let rp = Point3::from(f[0].coords * bc[0] + f[1].coords * bc[1] + f[2].coords * bc[2]);
                            r.check(bc.iter().all(|x| *x >= -EPS && *x <= 1.0 + EPS) && eq(bc[0] + bc[1] + bc[2], 1.0), "mesh: barycentric location is a convex combination", dc);
                            r.check(peq(&rp, &prj.point), "mesh: face id and barycentric location reproduce the reported point", dc);
                        }
                        None => r.check(false, "mesh: the reported location has barycentric coordinates", dc),
                    }
                }
            }
        }

        // angle-filtered projection
        for (ti, tf) in [None, Some(&tr), Some(&rot)].iter().enumerate() {
            let (arg, qq) = match tf { None => (*q, *q), Some(x) => { let a = x.inverse() * q; (a, *x * a) } };
            let bb = if ti == 0 { brute(&t, q) } else { brute(&t, &qq) };
            // a query within rounding of the surface but not exactly on it (oblique faces, rotated queries) has an
            // offset without a meaningful direction: not decidable by this oracle
            if bb.dmin != 0.0 && bb.dmin < 1e-6 { continue; }
            // exactly on the surface: did parry return the query itself (offset exactly zero) or a point that differs
            // from it by rounding (face coordinates that are not dyadic)?
            let exact_zero = bb.dmin == 0.0 && m.point_closest_to(&qq) == qq;
            let near: Vec<usize> = (0..nf).filter(|&f| bb.d[f] <= bb.dmin + EPS * (1.0 + bb.dmin)).collect();
            for &ma in angles.iter() {
                let da = || format!("{} transform {} max_dist {:?} max_angle {:?}", d(), ["None", "Some(translation (1,-2,3))", "Some(Rz90 then +(-1,0.5,2))"][ti], bb.dmin + 0.5, ma);
                let verdicts: Vec<Tri> = near.iter().map(|&f| accepts(&normals[f], &(qq - bb.cp[f]), ma)).collect();
                let res = m.project_with_tol(&arg, bb.dmin + 0.5, ma, *tf);
                if exact_zero {
                    r.check(res.is_some(), "mesh: project_with_tol accepts a query exactly on the surface (offset exactly zero) within the distance cap", da);
                } else if bb.dmin == 0.0 {
                    // own clause name: the real code tests the direction of a rounding-sized offset
                    if ma < PI / 2.0 {
                        r.check(res.is_some(), "[on-surface query, projection off by rounding] project_with_tol accepts a query exactly on the surface", da);
                    }
                } else if verdicts.iter().all(|v| *v == Tri::Yes) {
                    r.check(res.is_some(), "mesh: project_with_tol accepts a point whose offset is within the stated angle of the face normal", da);
                } else if verdicts.iter().all(|v| *v == Tri::No) {
                    r.check(res.is_none(), "mesh: project_with_tol rejects a point whose offset is NOT within the stated angle of the face normal", da);
                } else if let Some((_, id, _)) = res {
                    // several nearest faces with different verdicts: the reported face must be one that does not reject
                    let k = near.iter().position(|&f| f == id as usize);
                    r.check(k.map(|k| verdicts[k] != Tri::No).unwrap_or(false), "mesh: project_with_tol accepted with a face whose normal is not within the stated angle of the offset", da);
                } else {
                    r.check(verdicts.iter().any(|v| *v != Tri::Yes), "mesh: project_with_tol rejected although every nearest face accepts", da);
                }
                if let Some((prj, id, _)) = res {
                    r.check((id as usize) < nf && le((qq - prj.point).norm(), bb.dmin), "mesh: project_with_tol reports a point at the minimum distance", da);
                }
                if bb.dmin > 1e-6 {
                    r.check(m.project_with_tol(&arg, 0.5 * bb.dmin, ma, *tf).is_none(), "mesh: project_with_tol returns nothing when the true distance exceeds the distance cap", da);
                }
            }
        }
    }
    // indices_in_tol == the indices accepted by project_with_tol
    for tf in [None, Some(&tr), Some(&rot)] {
        for &ma in angles.iter() { for cap in [0.3, 1.25] {
            let got = m.indices_in_tol(&used, cap, ma, tf);
            let want: Vec<usize> = (0..used.len()).filter(|&i| m.project_with_tol(&used[i], cap, ma, tf).is_some()).collect();
            r.check(got == want, "mesh: indices_in_tol lists exactly the indices that project_with_tol accepts, in order", || format!("{} all queries, max_dist {:?} max_angle {:?} transform {}", name, cap, ma, tf.is_some()));
        } }
    }
}

fn meshes(r: &mut Report) {
    let p = |x: f64, y: f64, z: f64| Point3::new(x, y, z);
    let shifted = |w: f64, h: f64, d: f64, s: (f64, f64, f64), solid: bool| { let mut b = Mesh::create_box(w, h, d, solid); b.transform(&Iso3::translation(s.0, s.1, s.2)); b };
    let in_box = |q: &Point3, lo: (f64, f64, f64), hi: (f64, f64, f64)| q.x > lo.0 && q.x < hi.0 && q.y > lo.1 && q.y < hi.1 && q.z > lo.2 && q.z < hi.2;
    let far = [p(50.0, -30.0, 20.0), p(5.0, 1.5, 2.0), p(-4.0, -4.0, -4.0), p(1.0, 1.0, -3.0), p(1.0, 8.0, 2.0), p(0.75, 1.25, 1.125), p(0.125, 2.5, 3.875),
        p(-1.0e6, 2.0e6, 0.0), p(3.0e7, 1.0e7, -2.0e7), p(2.0e5, -1.0e5, 3.0e5), p(1.0, 1.5, 1.0e8)];
    let h = 1.0 / 1024.0;
    for solid in [false, true] {
        // 1. box
        let m = Mesh::create_box(2.0, 3.0, 4.0, solid);
        let mut qs = grid3((-1.0, -1.0, -1.0), (3.0, 4.0, 5.0), (0.5, 0.5, 0.5));
        qs.extend(far);
        check_mesh(r, "box 2x3x4", &m, &|q| in_box(q, (0.0, 0.0, 0.0), (2.0, 3.0, 4.0)), &qs);
        // 2. box + disjoint box
        let mut m = Mesh::create_box(2.0, 3.0, 4.0, solid);
        m.append(&shifted(1.0, 1.0, 1.0, (3.0, 1.0, 1.0), solid)).unwrap();
        let mut qs = grid3((-1.0, -1.0, -1.0), (5.0, 4.0, 5.0), (0.5, 0.5, 1.0));
        qs.extend(far);
        check_mesh(r, "box 2x3x4 + appended unit box at (3,1,1)", &m, &|q| in_box(q, (0.0, 0.0, 0.0), (2.0, 3.0, 4.0)) || in_box(q, (3.0, 1.0, 1.0), (4.0, 2.0, 2.0)), &qs);
        // 3. box + nested box
        let mut m = Mesh::create_box(2.0, 2.0, 2.0, solid);
        m.append(&shifted(1.0, 1.0, 1.0, (0.5, 0.5, 0.5), solid)).unwrap();
        let mut qs = grid3((-0.5, -0.5, -0.5), (2.5, 2.5, 2.5), (0.25, 0.25, 0.5));
        qs.extend(far);
        check_mesh(r, "box 2x2x2 + nested appended unit box at (0.5,0.5,0.5)", &m, &|q| in_box(q, (0.0, 0.0, 0.0), (2.0, 2.0, 2.0)), &qs);
        // 4. non-planar two-triangle strip
        let m = Mesh::new(vec![p(0.0, 0.0, 0.0), p(2.0, 0.0, 0.0), p(0.0, 2.0, 0.0), p(2.0, 2.0, 1.0)], vec![[0, 1, 2], [1, 3, 2]], solid);
        let mut qs = grid3((-1.0, -1.0, -1.0), (3.0, 3.0, 2.0), (0.5, 0.5, 0.5));
        qs.extend(far);
        check_mesh(r, "two-triangle strip", &m, &|_| false, &qs);
        // 5. two nearly coincident triangles
        let m = Mesh::new(vec![p(0.0, 0.0, 0.0), p(4.0, 0.0, 0.0), p(0.0, 4.0, 0.0), p(0.0, 0.0, h), p(4.0, 0.0, h), p(0.0, 4.0, h)], vec![[0, 1, 2], [3, 4, 5]], solid);
        let mut qs = grid3((-1.0, -1.0, -0.5), (5.0, 5.0, 0.5), (0.5, 0.5, 0.25));
        qs.extend([p(1.0, 1.0, h / 4.0), p(1.0, 1.0, 0.75 * h), p(1.0, 1.0, h), p(1.0, 1.0, 2.0 * h), p(3.0, 3.0, 0.75 * h), p(-1.0, 1.0, 0.25 * h)]);
        qs.extend(far);
        check_mesh(r, "two parallel triangles 2^-10 apart", &m, &|_| false, &qs);
        // 6. long thin quad
        let m = Mesh::new(vec![p(0.0, 0.0, 0.0), p(16.0, 0.0, 0.0), p(16.0, 0.25, 0.0), p(0.0, 0.25, 0.0)], vec![[0, 1, 2], [0, 2, 3]], solid);
        let mut qs = grid3((-1.0, -0.5, -0.5), (17.0, 0.75, 0.5), (0.5, 0.125, 0.25));
        qs.extend(far);
        check_mesh(r, "long thin quad 16x0.25", &m, &|_| false, &qs);
    }
}


// ------------------------------------------------------------------------------------------------ near-surface queries
/// base points on the mesh: every vertex (corner), two points inside every triangle edge, one point inside every face
fn base_points(t: &[[Point3; 3]]) -> Vec<(Point3, &'static str)> {
    let mut out: Vec<(Point3, &'static str)> = vec![];
    let mut push = |q: Point3, k: &'static str, out: &mut Vec<(Point3, &'static str)>| { if !out.iter().any(|(x, _)| *x == q) { out.push((q, k)); } };
    for f in t.iter() {
        for k in 0..3 { push(f[k], "corner", &mut out); }
        for k in 0..3 { let (a, b) = (f[k], f[(k + 1) % 3]); push(a + (b - a) * 0.5, "edge", &mut out); push(a + (b - a) * 0.25, "edge", &mut out); }
        push(Point3::from(f[0].coords * 0.5 + f[1].coords * 0.25 + f[2].coords * 0.25), "face", &mut out);
    }
    out
}
/// 6 axis directions and the 24 directions (+-1, +-2, +-3) in cyclic order: oblique to every face, edge and diagonal of the meshes used
fn offset_dirs() -> Vec<Vector3> {
    let mut out = vec![];
    for k in 0..3 { for s in [1.0, -1.0] { let mut v = Vector3::zeros(); v[k] = s; out.push(v); } }
    for c in [(1.0, 2.0, 3.0), (3.0, 1.0, 2.0), (2.0, 3.0, 1.0)] { for sx in [1.0, -1.0] { for sy in [1.0, -1.0] { for sz in [1.0, -1.0] {
        out.push(Vector3::new(sx * c.0, sy * c.1, sz * c.2).normalize());
    } } } }
    out
}
const OFFSETS: [f64; 6] = [1e-7, 1e-6, 1e-5, 1e-4, 1e-3, 1e-2];

/// Mesh::measure_point_deviation and the plain closest-point queries for points 1e-7 .. 1e-2 from the surface
fn check_deviation(r: &mut Report, name: &str, m: &Mesh, inside: &dyn Fn(&Point3) -> bool) {
    use crate::common::DistMode;
    use crate::metrology::Measurement;
    let t = tris(m);
    let nf = t.len();
    let normals: Vec<Vector3> = t.iter().map(tri_normal).collect();
    let name = format!("{} (is_solid={})", name, m.is_solid());
    let tol = |d: f64| 1e-9 * (1.0 + d);
    for (b, kind) in base_points(&t).iter() { for u in offset_dirs().iter() { for h in OFFSETS {
        let q = b + u * h;
        if m.is_solid() && inside(&q) { continue; }
        r.case();
        let br = brute(&t, &q);
        let d = || format!("{} query ({:?}, {:?}, {:?}) = {} point ({:?}, {:?}, {:?}) + {:?} * unit({:?}, {:?}, {:?}); brute-force distance {:?}", name, q.x, q.y, q.z, kind, b.x, b.y, b.z, h, u.x, u.y, u.z, br.dmin);
        let near: Vec<usize> = (0..nf).filter(|&f| br.d[f] <= br.dmin + 1e-12).collect();
        // plain closest-point queries
        let sp = m.surf_closest_to(&q);
        let dp = (q - sp.point).norm();
        r.check((dp - br.dmin).abs() <= tol(br.dmin), "mesh, query 1e-7..1e-2 off the surface: the distance to the reported closest point equals the brute-force minimum distance", d);
        r.check((0..nf).any(|f| (sp.point - tri_closest(&t[f][0], &t[f][1], &t[f][2], &sp.point)).norm() <= EPS * (1.0 + sp.point.coords.norm()) && (normals[f] - sp.normal.into_inner()).norm() <= 1e-9),
            "mesh, query 1e-7..1e-2 off the surface: the reported point lies on a face of the mesh and the reported normal is that face's normal", d);
        // deviation, point mode
        let dev = m.measure_point_deviation(&q, DistMode::ToPoint);
        let val = dev.value();
        let dd = || format!("{}; measure_point_deviation(ToPoint) value {:?} a ({:?}, {:?}, {:?}) direction ({:?}, {:?}, {:?})", d(), val, dev.a.x, dev.a.y, dev.a.z, dev.direction.x, dev.direction.y, dev.direction.z);
        r.check(dev.b == q && ((q - dev.a).norm() - br.dmin).abs() <= tol(br.dmin), "measure_point_deviation: a is a closest point of the mesh (brute force), b is the query", dd);
        if br.dmin >= 1.000001e-6 {
            r.check((val.abs() - br.dmin).abs() <= tol(br.dmin), "measure_point_deviation (ToPoint): the magnitude of the deviation equals the distance from the query to the closest point (brute force)", dd);
        } else {
            // documented: below an epsilon of 1e-6 the measurement is taken along the surface normal
            r.check(val.abs() <= br.dmin + tol(br.dmin) && br.dmin - val.abs() <= 1.000001e-6, "measure_point_deviation (ToPoint), query closer than 1e-6: the magnitude differs from the distance to the closest point by less than the documented epsilon 1e-6 and never exceeds it", dd);
        }
        // sign: only where all nearest faces agree clearly about the side
        let sides: Vec<f64> = near.iter().map(|&f| normals[f].dot(&(q - br.cp[f]))).collect();
        if br.dmin >= 1.000001e-6 && sides.iter().all(|s| *s > 1e-3 * br.dmin) { r.check(val > 0.0, "measure_point_deviation (ToPoint): positive on the outward-normal side of every nearest face", dd); }
        if br.dmin >= 1.000001e-6 && sides.iter().all(|s| *s < -1e-3 * br.dmin) { r.check(val < 0.0, "measure_point_deviation (ToPoint): negative behind every nearest face", dd); }
        // plane mode: the normal component for one of the nearest faces
        let pl = m.measure_point_deviation(&q, DistMode::ToPlane).value();
        r.check(sides.iter().any(|s| (s - pl).abs() <= tol(br.dmin)), "measure_point_deviation (ToPlane): the deviation is the component of the offset along the normal of a nearest face", || format!("{}; ToPlane value {:?}, normal components for the nearest faces {:?}", d(), pl, sides));
    } } }
}

fn near_surface(r: &mut Report) {
    let p = |x: f64, y: f64, z: f64| Point3::new(x, y, z);
    let in_box = |q: &Point3| q.x > 0.0 && q.x < 2.0 && q.y > 0.0 && q.y < 3.0 && q.z > 0.0 && q.z < 4.0;
    for solid in [false, true] {
        check_deviation(r, "box 2x3x4", &Mesh::create_box(2.0, 3.0, 4.0, solid), &in_box);
    }
    let strip = Mesh::new(vec![p(0.0, 0.0, 0.0), p(2.0, 0.0, 0.0), p(0.0, 2.0, 0.0), p(2.0, 2.0, 1.0)], vec![[0, 1, 2], [1, 3, 2]], false);
    check_deviation(r, "two-triangle strip", &strip, &|_| false);
    let quad = Mesh::new(vec![p(0.0, 0.0, 0.0), p(16.0, 0.0, 0.0), p(16.0, 0.25, 0.0), p(0.0, 0.25, 0.0)], vec![[0, 1, 2], [0, 2, 3]], false);
    check_deviation(r, "long thin quad 16x0.25", &quad, &|_| false);
    // an open roof: two rectangles meeting at a ridge, rim edges all around
    let roof = Mesh::new(vec![p(0.0, 0.0, 0.0), p(4.0, 0.0, 0.0), p(0.0, 1.5, 2.0), p(4.0, 1.5, 2.0), p(0.0, 3.0, 0.0), p(4.0, 3.0, 0.0)], vec![[0, 1, 3], [0, 3, 2], [2, 3, 5], [2, 5, 4]], false);
    check_deviation(r, "open roof (ridge y=1.5, z=2)", &roof, &|_| false);
}


// ------------------------------------------------------------------------------------------------ UV wrappers
fn bary(t: &[Point3; 3], p: &Point3) -> [f64; 3] {
    let n = (t[1] - t[0]).cross(&(t[2] - t[0]));
    let n2 = n.norm_squared();
    [(t[1] - p).cross(&(t[2] - p)).dot(&n) / n2, (t[2] - p).cross(&(t[0] - p)).dot(&n) / n2, (t[0] - p).cross(&(t[1] - p)).dot(&n) / n2]
}
/// Mesh::uv_with_tol (the UV wrapper of project_with_tol) against the brute-force oracle: acceptance under the distance cap and
/// the angle filter, uv = image of the closest point in the UV map, depth = offset along the face normal; queries given
/// directly (None) and in another frame (Some(T), T not the identity)
fn check_uv(r: &mut Report, name: &str, m: &Mesh, uvv: &[Point2], uvf: &[[u32; 3]], queries: &[Point3]) {
    let t = tris(m);
    let nf = t.len();
    let normals: Vec<Vector3> = t.iter().map(tri_normal).collect();
    let tfs: Vec<(&str, Option<Iso3>)> = vec![
        ("None", None),
        ("Some(translation (1,-2,3))", Some(Iso3::from_parts(Translation3::new(1.0, -2.0, 3.0), UnitQuaternion::identity()))),
        ("Some(Rz90 then +(-1,0.5,2))", Some(Iso3::from_parts(Translation3::new(-1.0, 0.5, 2.0), UnitQuaternion::from_axis_angle(&Vector3::z_axis(), PI / 2.0)))),
        ("Some(0.7 rad about (1,2,3) then +(0.25,-4,1.5))", Some(Iso3::from_parts(Translation3::new(0.25, -4.0, 1.5), UnitQuaternion::from_axis_angle(&na::Unit::new_normalize(Vector3::new(1.0, 2.0, 3.0)), 0.7)))),
        ("Some(1e-3 rad about x then +(0.5,0,0))", Some(Iso3::from_parts(Translation3::new(0.5, 0.0, 0.0), UnitQuaternion::from_axis_angle(&Vector3::x_axis(), 1e-3)))),
    ];
    let angles = [0.1, 0.5, 1.0, 1.5, 2.0];
    for q in queries { for (tn, tf) in tfs.iter() {
        // the query as the mesh sees it is qq = T * arg; arg is what the caller passes
        let (arg, qq) = match tf { None => (*q, *q), Some(x) => { let a = x.inverse() * q; (a, x * a) } };
        let bb = brute(&t, &qq);
        if bb.dmin < 1e-6 { continue; }
        r.case();
        let near: Vec<usize> = (0..nf).filter(|&f| bb.d[f] <= bb.dmin + EPS * (1.0 + bb.dmin)).collect();
        let mut caps = vec![bb.dmin + 0.5, 0.5 * bb.dmin];
        for c in [0.25, 1.25] { if (bb.dmin - c).abs() > 1e-3 { caps.push(c); } }
        for &cap in caps.iter() { for &ma in angles.iter() {
            let res = m.uv_with_tol(&arg, cap, ma, tf.as_ref());
            let d = || format!("{} query as seen by the mesh ({:?}, {:?}, {:?}), passed as ({:?}, {:?}, {:?}) with transform {}, max_dist {:?}, max_angle {:?}; brute-force distance {:?}; uv_with_tol = {:?}", name, qq.x, qq.y, qq.z, arg.x, arg.y, arg.z, tn, cap, ma, bb.dmin, res);
            if bb.dmin > cap {
                r.check(res.is_none(), "uv_with_tol: nothing is returned when the true distance of (transform * point) exceeds the distance cap", d);
                continue;
            }
            let verdicts: Vec<Tri> = near.iter().map(|&f| accepts(&normals[f], &(qq - bb.cp[f]), ma)).collect();
            if verdicts.iter().all(|v| *v == Tri::Yes) {
                r.check(res.is_some(), "uv_with_tol: a point (transform * point) within the distance cap whose offset is within the stated angle of the face normal is accepted", d);
            } else if verdicts.iter().all(|v| *v == Tri::No) {
                r.check(res.is_none(), "uv_with_tol: a point (transform * point) whose offset is NOT within the stated angle of the face normal is rejected", d);
            }
            if let Some((uv, depth)) = res {
                // the answer must be that of one of the nearest faces that does not reject
                let ok = near.iter().zip(verdicts.iter()).any(|(&f, v)| {
                    if *v == Tri::No { return false; }
                    let bc = bary(&t[f], &bb.cp[f]);
                    let g = uvf[f];
                    let want = uvv[g[0] as usize].coords * bc[0] + uvv[g[1] as usize].coords * bc[1] + uvv[g[2] as usize].coords * bc[2];
                    eq(uv.x, want.x) && eq(uv.y, want.y) && eq(depth, normals[f].dot(&(qq - bb.cp[f])))
                });
                r.check(ok, "uv_with_tol: uv is the image in the UV map of the closest point to (transform * point) and depth its offset along that face's normal", d);
            }
        } }
    } }
}

fn uv_wrappers(r: &mut Report) {
    let p = |x: f64, y: f64, z: f64| Point3::new(x, y, z);
    let u = |x: f64, y: f64| Point2::new(x, y);
    let mk = |v: Vec<Point3>, f: Vec<[u32; 3]>, uvv: &Vec<Point2>, uvf: &Vec<[u32; 3]>| {
        let uv = crate::geom3::UvMapping::new(uvv.clone(), uvf.clone()).unwrap();
        Mesh::new_with_uv(v, f, false, Some(uv))
    };
    let far = [p(5.0, 1.5, 2.0), p(-4.0, -4.0, -4.0), p(1.0, 8.0, 2.0), p(0.75, 1.25, 1.125)];
    // 1. open roof, UV = the unfolded roof (continuous across the ridge)
    let f = vec![[0u32, 1, 3], [0, 3, 2], [2, 3, 5], [2, 5, 4]];
    let uvv = vec![u(0.0, 0.0), u(4.0, 0.0), u(0.0, 2.5), u(4.0, 2.5), u(0.0, 5.0), u(4.0, 5.0)];
    let m = mk(vec![p(0.0, 0.0, 0.0), p(4.0, 0.0, 0.0), p(0.0, 1.5, 2.0), p(4.0, 1.5, 2.0), p(0.0, 3.0, 0.0), p(4.0, 3.0, 0.0)], f.clone(), &uvv, &f);
    let mut qs = grid3((-1.0, -1.0, -1.0), (5.0, 4.0, 3.0), (1.0, 0.5, 0.5));
    qs.extend(far);
    check_uv(r, "UV-mapped open roof (ridge y=1.5, z=2; uv = (x, arc length across))", &m, &uvv, &f, &qs);
    // 2. non-planar two-triangle strip, UV = (x, y)
    let f = vec![[0u32, 1, 2], [1, 3, 2]];
    let uvv = vec![u(0.0, 0.0), u(2.0, 0.0), u(0.0, 2.0), u(2.0, 2.0)];
    let m = mk(vec![p(0.0, 0.0, 0.0), p(2.0, 0.0, 0.0), p(0.0, 2.0, 0.0), p(2.0, 2.0, 1.0)], f.clone(), &uvv, &f);
    let mut qs = grid3((-1.0, -1.0, -1.0), (3.0, 3.0, 2.0), (0.5, 0.5, 0.5));
    qs.extend(far);
    check_uv(r, "UV-mapped two-triangle strip (uv = (x, y))", &m, &uvv, &f, &qs);
    // 3. box 2x3x4 with an atlas: face k is drawn on its own chart at (8k, 0) (discontinuous across every edge)
    let bx = Mesh::create_box(2.0, 3.0, 4.0, false);
    let (bv, bf) = (bx.vertices().to_vec(), bx.faces().to_vec());
    let mut uvv = vec![];
    let mut uvf = vec![];
    for (k, t) in bf.iter().enumerate() {
        let (a, b, c) = (bv[t[0] as usize], bv[t[1] as usize], bv[t[2] as usize]);
        let e = (b - a).normalize();
        let nn = (b - a).cross(&(c - a)).normalize();
        let w = nn.cross(&e);
        let base = uvv.len() as u32;
        for x in [a, b, c] { uvv.push(u(8.0 * k as f64 + (x - a).dot(&e), (x - a).dot(&w))); }
        uvf.push([base, base + 1, base + 2]);
    }
    let m = mk(bv, bf, &uvv, &uvf);
    let mut qs = grid3((-1.0, -1.0, -1.0), (3.0, 4.0, 5.0), (1.0, 1.0, 1.0));
    qs.extend(grid3((0.25, 0.25, -0.75), (1.75, 2.75, 4.75), (0.75, 1.25, 5.5)));
    qs.extend(far);
    check_uv(r, "UV-mapped box 2x3x4 (atlas: face k on its own chart at (8k, 0))", &m, &uvv, &uvf, &qs);
}

pub fn run() -> Option<Report> {
    let mut r = Report::new("curves: all 2..=3-vertex sequences over the 3x3 grid (2D, x force_closed) / over {0,1}^3 (3D), 7 + 5 fixed polylines with 4..=33 vertices (long thin, nested, nearly coincident, self-crossing, doubled back); meshes: box, box + disjoint box, box + nested box, two-triangle strip, two nearly coincident triangles, long thin quad, solid and non-solid; queries on half/quarter-integer grids reaching 1 beyond the bounding box plus far-outside points incl. EXTREMELY far ones (1e5 .. 1e8 units: 1e4 .. 1e8 x the size of the entity) (inside points for non-solid meshes only); caps 0.5*d, d+0.5, 2d+1, 0.25, 1.25, 5 (never within 1e-3 of the true distance d); max_angle in {0.1, 0.5, 1, 1.5, 2} rad with a 1e-6 rad undecided margin; transforms None / translation / quarter turn + translation; oracle = brute force over all segments / triangles, tolerance 1e-9 relative; NEAR-SURFACE: box 2x3x4 (solid and not), two-triangle strip, long thin quad, open roof x base points (every corner, two points inside every triangle edge, one inside every face) x 30 offset directions (6 axes, 24 of type (+-1,+-2,+-3)) x offsets 1e-7, 1e-6, 1e-5, 1e-4, 1e-3, 1e-2: closest point / distance / normal and Mesh::measure_point_deviation (ToPoint magnitude and sign, ToPlane) against the brute-force distance (below the documented 1e-6 epsilon the ToPoint magnitude is judged to 1e-6); UV WRAPPERS: Mesh::uv_with_tol on 3 UV-mapped meshes (open roof with the unfolded UV, two-triangle strip with uv = (x, y), box 2x3x4 with one chart per face) x integer / half-integer query grids reaching 1 beyond the bounding box plus far points (queries closer than 1e-6 skipped) x transform None / Some(translation) / Some(quarter turn + translation) / Some(0.7 rad about (1,2,3) + translation) / Some(1e-3 rad about x + translation) x caps {d+0.5, d/2, 0.25, 1.25} x max_angle {0.1, 0.5, 1, 1.5, 2}: nothing is returned beyond the cap, acceptance follows the angle of the offset of (transform * point) to the normal of the nearest face(s), uv / depth are those of a nearest non-rejecting face (brute force)");
    curves(&mut r);
    meshes(&mut r);
    near_surface(&mut r);
    uv_wrappers(&mut r);
    Some(r)
}
