//! C02 bounded: closest-point / distance queries compared with an exhaustive scan over all elements, on the REAL
//! code (parry's tree search included).
//! Curves 2D: every vertex sequence of length 2..=3 over the 3x3 integer grid (x force_closed) plus a fixed family of
//! 4..=6-vertex polylines (long thin, nested spiral, nearly coincident runs 2^-10 apart, self-crossing, doubled back)
//! and one 33-vertex zigzag; curves 3D: every vertex sequence of length 2..=3 over {0,1}^3 plus a fixed family.
//! Meshes: box 2x3x4, box + disjoint appended box, box + nested appended box, non-planar two-triangle strip, two
//! nearly coincident triangles, long thin quad; each solid and non-solid.  Query points: half-integer (family: quarter)
//! grids reaching 1 beyond the bounding box -- so: on the entity, equidistant from several elements, inside (non-solid
//! meshes only) -- plus far-outside points.  The oracle is a brute-force scan over all segments / triangles written
//! here (plane projection + inside test + three segment projections; it shares no code with parry).
//! Near-surface part: queries 1e-7 .. 1e-2 off faces, edges and corners (oblique offsets) of a box, a strip, a thin quad
//! and an open roof: closest point / distance and Mesh::measure_point_deviation magnitudes against the brute-force distance.
//! UV wrappers (round 3): Mesh::uv_with_tol on UV-mapped meshes (open roof, two-triangle strip, box with one chart per face),
//! queries given directly and in another frame (transform = Some(T), T a translation / quarter turn / general rotation / 1e-3 rad
//! rotation, each with a translation): acceptance under the distance cap and the angle filter for the point T * p moved ONCE,
//! uv = UV image of the brute-force closest point, depth = offset along that face's normal.
use super::Report;
use crate::geom2::{Curve2, Point2};
use crate::geom3::{Curve3, Iso3, Mesh, Point3, Vector3};
use parry3d_f64::na;
use parry3d_f64::na::{Translation3, UnitQuaternion};
use std::f64::consts::PI;

const EPS: f64 = 1e-9;
fn le(a: f64, b: f64) -> bool { a <= b + EPS * (1.0 + a.abs().max(b.abs())) }
fn eq(a: f64, b: f64) -> bool { (a - b).abs() <= EPS * (1.0 + a.abs().max(b.abs())) }

fn seg_closest<const D: usize>(a: &na::Point<f64, D>, b: &na::Point<f64, D>, q: &na::Point<f64, D>) -> na::Point<f64, D> {
    let ab = b - a;
    let l2 = ab.norm_squared();
    if l2 == 0.0 { return *a; }
    let t = ((q - a).dot(&ab) / l2).clamp(0.0, 1.0);
    a + ab * t
}
fn peq<const D: usize>(a: &na::Point<f64, D>, b: &na::Point<f64, D>) -> bool { (a - b).norm() <= EPS * (1.0 + a.coords.norm().max(b.coords.norm())) }

/// closest point of triangle abc (non-degenerate) to p: foot on the plane if it is inside, else the best of the edges
fn tri_closest(a: &Point3, b: &Point3, c: &Point3, p: &Point3) -> Point3 {
    let n = (b - a).cross(&(c - a));
    let pp = p - n * ((p - a).dot(&n) / n.norm_squared());
    let s0 = (b - a).cross(&(pp - a)).dot(&n);
    let s1 = (c - b).cross(&(pp - b)).dot(&n);
    let s2 = (a - c).cross(&(pp - c)).dot(&n);
    if s0 >= 0.0 && s1 >= 0.0 && s2 >= 0.0 { return pp; }
    let mut best = seg_closest(a, b, p);
    for (u, v) in [(b, c), (c, a)] {
        let x = seg_closest(u, v, p);
        if (p - x).norm() < (p - best).norm() { best = x; }
    }
    best
}

// ------------------------------------------------------------------------------------------------ curves
fn check_curve2(r: &mut Report, name: &str, c: &Curve2, queries: &[Point2]) {
    let v = c.points().to_vec();
    let n = v.len();
    let ls = c.lengths().clone();
    for q in queries {
        r.case();
        let d = || format!("{} vertices {:?} query ({:?}, {:?})", name, v.iter().map(|p| (p.x, p.y)).collect::<Vec<_>>(), q.x, q.y);
        let s = c.at_closest_to_point(q);
        let p = s.point();
        let mut dmin = f64::INFINITY;
        let mut on = f64::INFINITY;
        for i in 0..n - 1 {
            dmin = dmin.min((q - seg_closest(&v[i], &v[i + 1], q)).norm());
            on = on.min((p - seg_closest(&v[i], &v[i + 1], &p)).norm());
        }
        let dp = (q - p).norm();
        r.check(on <= EPS * (1.0 + p.coords.norm()), "curve2: the reported closest point lies on the curve", d);
        r.check(le(dp, dmin), "curve2: no vertex or edge is nearer to the query than the reported point (brute force over all segments)", d);
        let dd = c.dist_to_point(q);
        r.check(eq(dd, dp), "curve2: dist_to_point equals the distance from the query to the reported closest point", d);
        r.check(eq(dd, dmin), "curve2: dist_to_point equals the brute-force minimum distance", d);
        let (i, f) = (s.index(), s.fraction());
        r.check(i + 1 < n && f >= 0.0 && f <= 1.0, "curve2: edge index in range and fraction in [0,1]", d);
        if i + 1 < n {
            let lp = v[i] + (v[i + 1] - v[i]) * f;
            r.check(peq(&lp, &p), "curve2: edge index and fraction reproduce the reported point", d);
            let e = (v[i + 1] - v[i]).normalize();
            let dir = s.direction();
            r.check(eq(dir.x, e.x) && eq(dir.y, e.y), "curve2: the reported direction is that edge's direction", d);
            let nn = s.normal();
            r.check(eq(nn.x, e.y) && eq(nn.y, -e.x), "curve2: the reported normal is that edge's normal (direction turned by -90 degrees)", d);
            r.check(eq(s.length_along(), ls[i] + (p - v[i]).norm()), "curve2: length_along is the arc length of the reported point", d);
        }
    }
}

fn check_curve3(r: &mut Report, name: &str, c: &Curve3, queries: &[Point3]) {
    let v = c.points().to_vec();
    let n = v.len();
    let ls = c.lengths().to_vec();
    for q in queries {
        r.case();
        let d = || format!("{} vertices {:?} query ({:?}, {:?}, {:?})", name, v.iter().map(|p| (p.x, p.y, p.z)).collect::<Vec<_>>(), q.x, q.y, q.z);
        let s = c.at_closest_to_point(q);
        let p = s.point();
        let mut dmin = f64::INFINITY;
        let mut on = f64::INFINITY;
        for i in 0..n - 1 {
            dmin = dmin.min((q - seg_closest(&v[i], &v[i + 1], q)).norm());
            on = on.min((p - seg_closest(&v[i], &v[i + 1], &p)).norm());
        }
        let dp = (q - p).norm();
        r.check(on <= EPS * (1.0 + p.coords.norm()), "curve3: the reported closest point lies on the curve", d);
        r.check(le(dp, dmin), "curve3: no vertex or edge is nearer to the query than the reported point (brute force over all segments)", d);
        let dd = c.dist_to_point(q);
        r.check(eq(dd, dp), "curve3: dist_to_point equals the distance from the query to the reported closest point", d);
        r.check(eq(dd, dmin), "curve3: dist_to_point equals the brute-force minimum distance", d);
        let (i, f) = (s.index(), s.fraction());
        r.check(i + 1 < n && f >= 0.0 && f <= 1.0, "curve3: edge index in range and fraction in [0,1]", d);
        if i + 1 < n {
            let lp = v[i] + (v[i + 1] - v[i]) * f;
            r.check(peq(&lp, &p), "curve3: edge index and fraction reproduce the reported point", d);
            let e = (v[i + 1] - v[i]).normalize();
            let dir = s.direction();
            r.check(eq(dir.x, e.x) && eq(dir.y, e.y) && eq(dir.z, e.z), "curve3: the reported direction is that edge's direction", d);
            r.check(eq(s.length_along(), ls[i] + (p - v[i]).norm()), "curve3: length_along is the arc length of the reported point", d);
        }
    }
}

fn grid2(x0: f64, x1: f64, y0: f64, y1: f64, step: f64) -> Vec<Point2> {
    let mut out = vec![];
    let (nx, ny) = (((x1 - x0) / step).round() as i64, ((y1 - y0) / step).round() as i64);
    for i in 0..=nx { for j in 0..=ny { out.push(Point2::new(x0 + i as f64 * step, y0 + j as f64 * step)); } }
    out
}
fn grid3(lo: (f64, f64, f64), hi: (f64, f64, f64), step: (f64, f64, f64)) -> Vec<Point3> {
    let mut out = vec![];
    let n = |a: f64, b: f64, s: f64| ((b - a) / s).round() as i64;
    for i in 0..=n(lo.0, hi.0, step.0) { for j in 0..=n(lo.1, hi.1, step.1) { for k in 0..=n(lo.2, hi.2, step.2) {
        out.push(Point3::new(lo.0 + i as f64 * step.0, lo.1 + j as f64 * step.1, lo.2 + k as f64 * step.2));
    } } }
    out
}

fn curves(r: &mut Report) {
    // 2D, exhaustive small ones
    let g: Vec<Point2> = (0..9).map(|k| Point2::new((k % 3) as f64, (k / 3) as f64)).collect();
    let mut qs = grid2(-1.0, 3.0, -1.0, 3.0, 0.5);
    qs.extend([Point2::new(100.0, -57.0), Point2::new(-40.0, 1.0), Point2::new(1.0, 64.0), Point2::new(0.75, 0.25), Point2::new(1.25, 1.75)]);
    // EXTREMELY far outside (1e5 .. 1e8 x the size of the curve; tolerance 1e-9 relative to the distance)
    qs.extend([Point2::new(-1.0e6, 2.0e6), Point2::new(3.0e7, 1.0e7), Point2::new(2.0e5, -1.0e5), Point2::new(1.0, -1.0e8)]);
    for a in 0..9 { for b in 0..9 {
        for fc in [false, true] {
            if let Ok(c) = Curve2::from_points(&[g[a], g[b]], 1e-6, fc) { check_curve2(r, "Curve2(2 grid points)", &c, &qs); }
        }
        for cc in 0..9 { for fc in [false, true] {
            if let Ok(c) = Curve2::from_points(&[g[a], g[b], g[cc]], 1e-6, fc) { check_curve2(r, "Curve2(3 grid points)", &c, &qs); }
        } }
    } }
    // 2D family
    let h = 1.0 / 1024.0;
    let p = |x: f64, y: f64| Point2::new(x, y);
    let mut fam: Vec<(&str, Vec<Point2>)> = vec![
        ("long thin", vec![p(0.0, 0.0), p(16.0, 0.0), p(16.0, 0.25), p(0.0, 0.25), p(0.0, 0.5), p(16.0, 0.5)]),
        ("nested spiral", vec![p(0.0, 0.0), p(4.0, 0.0), p(4.0, 4.0), p(0.0, 4.0), p(0.0, 1.0), p(3.0, 1.0)]),
        ("nearly coincident runs", vec![p(0.0, 0.0), p(4.0, 0.0), p(4.0, h), p(0.0, h), p(0.0, 2.0 * h), p(4.0, 2.0 * h)]),
        ("self-crossing", vec![p(0.0, 0.0), p(2.0, 2.0), p(2.0, 0.0), p(0.0, 2.0)]),
        ("doubled back", vec![p(0.0, 0.0), p(4.0, 0.0), p(1.0, 0.0), p(1.0, 3.0), p(1.0, 1.0)]),
        ("short and long edges", vec![p(0.0, 0.0), p(0.25, 0.0), p(0.25, 0.25), p(16.0, 0.25), p(16.0, 4.0)]),
    ];
    fam.push(("33-vertex zigzag", (0..33).map(|k| p(k as f64 * 0.5, if k % 2 == 0 { 0.0 } else { 1.0 + (k % 5) as f64 * 0.25 })).collect()));
    let mut fq = grid2(-1.0, 17.0, -1.0, 5.0, 0.5);
    fq.extend(grid2(-0.25, 4.25, -0.25, 0.75, 0.125));
    fq.extend([p(2.0, h / 2.0), p(2.0, 1.5 * h), p(2.0, h), p(1.0, 0.25 * h), p(3.0, 1.75 * h), p(200.0, 100.0), p(-64.0, 0.125)]);
    fq.extend([p(-1.0e6, 2.0e6), p(3.0e7, 1.0e7), p(2.0e6, -1.0e6), p(8.0, -1.0e8), p(-5.0e6, -4.0e6), p(1.0e7, 2.0)]);
    for (name, pts) in fam.iter() {
        for fc in [false, true] {
            if let Ok(c) = Curve2::from_points(pts, 1e-6, fc) { check_curve2(r, name, &c, &fq); }
        }
    }
    // 3D, exhaustive small ones
    let g3: Vec<Point3> = (0..8).map(|k| Point3::new((k % 2) as f64, ((k / 2) % 2) as f64, (k / 4) as f64)).collect();
    let mut q3 = grid3((-1.0, -1.0, -1.0), (2.0, 2.0, 2.0), (0.5, 0.5, 0.5));
    q3.extend([Point3::new(100.0, -57.0, 20.0), Point3::new(0.25, 0.75, 0.125), Point3::new(-30.0, 0.5, 0.5)]);
    q3.extend([Point3::new(-1.0e6, 2.0e6, 0.0), Point3::new(3.0e7, 1.0e7, -2.0e7), Point3::new(2.0e5, -1.0e5, 3.0e5), Point3::new(0.5, 0.5, 1.0e8)]);
    for a in 0..8 { for b in 0..8 {
        if let Ok(c) = Curve3::from_points(&[g3[a], g3[b]], 1e-6) { check_curve3(r, "Curve3(2 cube corners)", &c, &q3); }
        for cc in 0..8 {
            if let Ok(c) = Curve3::from_points(&[g3[a], g3[b], g3[cc]], 1e-6) { check_curve3(r, "Curve3(3 cube corners)", &c, &q3); }
        }
    } }
    let p3 = |x: f64, y: f64, z: f64| Point3::new(x, y, z);
    let fam3: Vec<(&str, Vec<Point3>)> = vec![
        ("staircase", vec![p3(0.0, 0.0, 0.0), p3(2.0, 0.0, 0.0), p3(2.0, 2.0, 0.0), p3(2.0, 2.0, 2.0), p3(0.0, 2.0, 2.0), p3(0.0, 0.0, 2.0)]),
        ("long thin 3D", vec![p3(0.0, 0.0, 0.0), p3(16.0, 0.0, 0.0), p3(16.0, 0.25, 0.25), p3(0.0, 0.25, 0.25), p3(0.0, 0.5, 0.0), p3(16.0, 0.5, 0.0)]),
        ("nearly coincident 3D", vec![p3(0.0, 0.0, 0.0), p3(4.0, 0.0, 0.0), p3(4.0, 0.0, h), p3(0.0, 0.0, h), p3(0.0, h, h), p3(4.0, h, h)]),
        ("closed square loop", vec![p3(0.0, 0.0, 1.0), p3(2.0, 0.0, 1.0), p3(2.0, 2.0, 1.0), p3(0.0, 2.0, 1.0), p3(0.0, 0.0, 1.0)]),
        ("33-vertex helix-like", (0..33).map(|k| p3((k % 4 / 2) as f64 * 2.0, ((k + 1) % 4 / 2) as f64 * 2.0, k as f64 * 0.25)).collect()),
    ];
    let mut fq3 = grid3((-1.0, -1.0, -1.0), (5.0, 3.0, 3.0), (0.5, 0.5, 0.5));
    fq3.extend(grid3((0.0, -0.25, -0.25), (16.0, 0.75, 0.5), (2.0, 0.125, 0.125)));
    fq3.extend([p3(2.0, 0.0, h / 2.0), p3(2.0, h / 2.0, h), p3(1.0, 0.75 * h, 0.25 * h), p3(200.0, 100.0, -50.0), p3(1.0, 1.0, 1.0), p3(1.0, 1.0, 4.0)]);
    fq3.extend([p3(-1.0e6, 2.0e6, 0.0), p3(3.0e7, 1.0e7, -2.0e7), p3(2.0e6, -1.0e6, 3.0e6), p3(8.0, 0.25, 1.0e8), p3(-5.0e6, -4.0e6, 1.0e6), p3(1.0e7, 2.0, 1.0)]);
    for (name, pts) in fam3.iter() {
        if let Ok(c) = Curve3::from_points(pts, 1e-6) { check_curve3(r, name, &c, &fq3); }
    }
}

// ------------------------------------------------------------------------------------------------ meshes
struct Brute { d: Vec<f64>, cp: Vec<Point3>, dmin: f64 }
fn tris(m: &Mesh) -> Vec<[Point3; 3]> { m.faces().iter().map(|f| [m.vertices()[f[0] as usize], m.vertices()[f[1] as usize], m.vertices()[f[2] as usize]]).collect() }
fn brute(t: &[[Point3; 3]], q: &Point3) -> Brute {
    let cp: Vec<Point3> = t.iter().map(|x| tri_closest(&x[0], &x[1], &x[2], q)).collect();
    let d: Vec<f64> = cp.iter().map(|c| (q - c).norm()).collect();
    let dmin = d.iter().cloned().fold(f64::INFINITY, f64::min);
    Brute { d, cp, dmin }
}
fn tri_normal(t: &[Point3; 3]) -> Vector3 { (t[1] - t[0]).cross(&(t[2] - t[0])).normalize() }
/// unsigned angle between a and b in [0, pi] (0 for a zero vector, as nalgebra defines it)
fn angle(a: &Vector3, b: &Vector3) -> f64 { if a.norm() == 0.0 || b.norm() == 0.0 { 0.0 } else { a.cross(b).norm().atan2(a.dot(b)) } }

#[derive(PartialEq, Clone, Copy)]
enum Tri { Yes, No, Unsure }
/// is the offset q - cp within max_angle of +/- the face normal? (margin 1e-6 rad around the threshold = Unsure)
fn accepts(n: &Vector3, off: &Vector3, max_angle: f64) -> Tri {
    let a = angle(n, off);
    let dev = a.min(PI - a);
    if dev < max_angle - 1e-6 { Tri::Yes } else if dev > max_angle + 1e-6 { Tri::No } else { Tri::Unsure }
}

fn check_mesh(r: &mut Report, name: &str, m: &Mesh, inside: &dyn Fn(&Point3) -> bool, queries: &[Point3]) {
    let t = tris(m);
    let nf = t.len();
    let normals: Vec<Vector3> = t.iter().map(tri_normal).collect();
    let name = format!("{} (is_solid={})", name, m.is_solid());
    let tr = Iso3::from_parts(Translation3::new(1.0, -2.0, 3.0), UnitQuaternion::identity());
    let rot = Iso3::from_parts(Translation3::new(-1.0, 0.5, 2.0), UnitQuaternion::from_axis_angle(&Vector3::z_axis(), PI / 2.0));
    let angles = [0.1, 0.5, 1.0, 1.5, 2.0];
    let mut used: Vec<Point3> = vec![];
    for q in queries {
        // the statement quantifies over inside points for non-solid meshes only
        if m.is_solid() && inside(q) { continue; }
        used.push(*q);
        r.case();
        let d = || format!("{} query ({:?}, {:?}, {:?})", name, q.x, q.y, q.z);
        let b = brute(&t, q);
        let sp = m.surf_closest_to(q);
        let on: Vec<usize> = (0..nf).filter(|&f| (sp.point - tri_closest(&t[f][0], &t[f][1], &t[f][2], &sp.point)).norm() <= EPS * (1.0 + sp.point.coords.norm())).collect();
        r.check(!on.is_empty(), "mesh: the reported closest point lies on a face of the mesh", d);
        let dp = (q - sp.point).norm();
        r.check(le(dp, b.dmin), "mesh: no vertex, edge or face is nearer to the query than the reported point (brute force over all triangles)", d);
        r.check(on.iter().any(|&f| (normals[f] - sp.normal.into_inner()).norm() <= 1e-9), "mesh: the reported normal is the normal of a face containing the reported point", d);
        let pc = m.point_closest_to(q);
        r.check(peq(&pc, &sp.point), "mesh: point_closest_to and surf_closest_to report the same point", d);

        // distance cap: caps well away from the true distance
        let mut caps = vec![b.dmin + 0.5, 2.0 * b.dmin + 1.0];
        if b.dmin > 1e-6 { caps.push(0.5 * b.dmin); }
        for c in [0.25, 1.25, 5.0] { if (b.dmin - c).abs() > 1e-3 { caps.push(c); } }
        for cap in caps.iter() {
            let dc = || format!("{} cap {:?} (true distance {:?})", d(), cap, b.dmin);
            let res = m.project_with_max_dist(q, *cap);
            r.check(res.is_some() == (b.dmin <= *cap), "mesh: with a distance cap a result is returned exactly when the true distance is within the cap", dc);
            if let Some((prj, id, loc)) = res {
                r.check((id as usize) < nf, "mesh: capped projection reports a face of the mesh", dc);
                r.check(le((q - prj.point).norm(), b.dmin), "mesh: capped projection reports a point at the minimum distance", dc);
                if (id as usize) < nf {
                    match loc.barycentric_coordinates() {
                        Some(bc) => {
                            let f = &t[id as usize];
                            let rp = Point3::from(f[0].coords * bc[0] + f[1].coords * bc[1] + f[2].coords * bc[2]);
                            r.check(bc.iter().all(|x| *x >= -EPS && *x <= 1.0 + EPS) && eq(bc[0] + bc[1] + bc[2], 1.0), "mesh: barycentric location is a convex combination", dc);
                            r.check(peq(&rp, &prj.point), "mesh: face id and barycentric location reproduce the reported point", dc);
                        }
                        None => r.check(false, "mesh: the reported location has barycentric coordinates", dc),
                    }
                }
            }
        }

        // angle-filtered projection
        for (ti, tf) in [None, Some(&tr), Some(&rot)].iter().enumerate() {
            let (arg, qq) = match tf { None => (*q, *q), Some(x) => { let a = x.inverse() * q; (a, *x * a) } };
            let bb = if ti == 0 { brute(&t, q) } else { brute(&t, &qq) };
            // a query within rounding of the surface but not exactly on it (oblique faces, rotated queries) has an
            // offset without a meaningful direction: not decidable by this oracle
            if bb.dmin != 0.0 && bb.dmin < 1e-6 { continue; }
            // exactly on the surface: did parry return the query itself (offset exactly zero) or a point that differs
            // from it by rounding (face coordinates that are not dyadic)?
            let exact_zero = bb.dmin == 0.0 && m.point_closest_to(&qq) == qq;
            let near: Vec<usize> = (0..nf).filter(|&f| bb.d[f] <= bb.dmin + EPS * (1.0 + bb.dmin)).collect();
            for &ma in angles.iter() {
                let da = || format!("{} transform {} max_dist {:?} max_angle {:?}", d(), ["None", "Some(translation (1,-2,3))", "Some(Rz90 then +(-1,0.5,2))"][ti], bb.dmin + 0.5, ma);
                let verdicts: Vec<Tri> = near.iter().map(|&f| accepts(&normals[f], &(qq - bb.cp[f]), ma)).collect();
                let res = m.project_with_tol(&arg, bb.dmin + 0.5, ma, *tf);
                if exact_zero {
                    r.check(res.is_some(), "mesh: project_with_tol accepts a query exactly on the surface (offset exactly zero) within the distance cap", da);
                } else if bb.dmin == 0.0 {
                    // own clause name: the real code tests the direction of a rounding-sized offset
                    if ma < PI / 2.0 {
                        r.check(res.is_some(), "[on-surface query, projection off by rounding] project_with_tol accepts a query exactly on the surface", da);
                    }
                } else if verdicts.iter().all(|v| *v == Tri::Yes) {
                    r.check(res.is_some(), "mesh: project_with_tol accepts a point whose offset is within the stated angle of the face normal", da);
                } else if verdicts.iter().all(|v| *v == Tri::No) {
                    r.check(res.is_none(), "mesh: project_with_tol rejects a point whose offset is NOT within the stated angle of the face normal", da);
                } else if let Some((_, id, _)) = res {
                    // several nearest faces with different verdicts: the reported face must be one that does not reject
                    let k = near.iter().position(|&f| f == id as usize);
                    r.check(k.map(|k| verdicts[k] != Tri::No).unwrap_or(false), "mesh: project_with_tol accepted with a face whose normal is not within the stated angle of the offset", da);
                } else {
                    r.check(verdicts.iter().any(|v| *v != Tri::Yes), "mesh: project_with_tol rejected although every nearest face accepts", da);
                }
                if let Some((prj, id, _)) = res {
                    r.check((id as usize) < nf && le((qq - prj.point).norm(), bb.dmin), "mesh: project_with_tol reports a point at the minimum distance", da);
                }
                if bb.dmin > 1e-6 {
                    r.check(m.project_with_tol(&arg, 0.5 * bb.dmin, ma, *tf).is_none(), "mesh: project_with_tol returns nothing when the true distance exceeds the distance cap", da);
                }
            }
        }
    }
    // indices_in_tol == the indices accepted by project_with_tol
    for tf in [None, Some(&tr), Some(&rot)] {
        for &ma in angles.iter() { for cap in [0.3, 1.25] {
            let got = m.indices_in_tol(&used, cap, ma, tf);
            let want: Vec<usize> = (0..used.len()).filter(|&i| m.project_with_tol(&used[i], cap, ma, tf).is_some()).collect();
            r.check(got == want, "mesh: indices_in_tol lists exactly the indices that project_with_tol accepts, in order", || format!("{} all queries, max_dist {:?} max_angle {:?} transform {}", name, cap, ma, tf.is_some()));
        } }
    }
}

fn meshes(r: &mut Report) {
    let p = |x: f64, y: f64, z: f64| Point3::new(x, y, z);
    let shifted = |w: f64, h: f64, d: f64, s: (f64, f64, f64), solid: bool| { let mut b = Mesh::create_box(w, h, d, solid); b.transform(&Iso3::translation(s.0, s.1, s.2)); b };
    let in_box = |q: &Point3, lo: (f64, f64, f64), hi: (f64, f64, f64)| q.x > lo.0 && q.x < hi.0 && q.y > lo.1 && q.y < hi.1 && q.z > lo.2 && q.z < hi.2;
    let far = [p(50.0, -30.0, 20.0), p(5.0, 1.5, 2.0), p(-4.0, -4.0, -4.0), p(1.0, 1.0, -3.0), p(1.0, 8.0, 2.0), p(0.75, 1.25, 1.125), p(0.125, 2.5, 3.875),
        p(-1.0e6, 2.0e6, 0.0), p(3.0e7, 1.0e7, -2.0e7), p(2.0e5, -1.0e5, 3.0e5), p(1.0, 1.5, 1.0e8)];
    let h = 1.0 / 1024.0;
    for solid in [false, true] {
        // 1. box
        let m = Mesh::create_box(2.0, 3.0, 4.0, solid);
        let mut qs = grid3((-1.0, -1.0, -1.0), (3.0, 4.0, 5.0), (0.5, 0.5, 0.5));
        qs.extend(far);
        check_mesh(r, "box 2x3x4", &m, &|q| in_box(q, (0.0, 0.0, 0.0), (2.0, 3.0, 4.0)), &qs);
        // 2. box + disjoint box
        let mut m = Mesh::create_box(2.0, 3.0, 4.0, solid);
        m.append(&shifted(1.0, 1.0, 1.0, (3.0, 1.0, 1.0), solid)).unwrap();
        let mut qs = grid3((-1.0, -1.0, -1.0), (5.0, 4.0, 5.0), (0.5, 0.5, 1.0));
        qs.extend(far);
        check_mesh(r, "box 2x3x4 + appended unit box at (3,1,1)", &m, &|q| in_box(q, (0.0, 0.0, 0.0), (2.0, 3.0, 4.0)) || in_box(q, (3.0, 1.0, 1.0), (4.0, 2.0, 2.0)), &qs);
        // 3. box + nested box
        let mut m = Mesh::create_box(2.0, 2.0, 2.0, solid);
        m.append(&shifted(1.0, 1.0, 1.0, (0.5, 0.5, 0.5), solid)).unwrap();
        let mut qs = grid3((-0.5, -0.5, -0.5), (2.5, 2.5, 2.5), (0.25, 0.25, 0.5));
        qs.extend(far);
        check_mesh(r, "box 2x2x2 + nested appended unit box at (0.5,0.5,0.5)", &m, &|q| in_box(q, (0.0, 0.0, 0.0), (2.0, 2.0, 2.0)), &qs);
        // 4. non-planar two-triangle strip
        let m = Mesh::new(vec![p(0.0, 0.0, 0.0), p(2.0, 0.0, 0.0), p(0.0, 2.0, 0.0), p(2.0, 2.0, 1.0)], vec![[0, 1, 2], [1, 3, 2]], solid);
        let mut qs = grid3((-1.0, -1.0, -1.0), (3.0, 3.0, 2.0), (0.5, 0.5, 0.5));
        qs.extend(far);
        check_mesh(r, "two-triangle strip", &m, &|_| false, &qs);
        // 5. two nearly coincident triangles
        let m = Mesh::new(vec![p(0.0, 0.0, 0.0), p(4.0, 0.0, 0.0), p(0.0, 4.0, 0.0), p(0.0, 0.0, h), p(4.0, 0.0, h), p(0.0, 4.0, h)], vec![[0, 1, 2], [3, 4, 5]], solid);
        let mut qs = grid3((-1.0, -1.0, -0.5), (5.0, 5.0, 0.5), (0.5, 0.5, 0.25));
        qs.extend([p(1.0, 1.0, h / 4.0), p(1.0, 1.0, 0.75 * h), p(1.0, 1.0, h), p(1.0, 1.0, 2.0 * h), p(3.0, 3.0, 0.75 * h), p(-1.0, 1.0, 0.25 * h)]);
        qs.extend(far);
        check_mesh(r, "two parallel triangles 2^-10 apart", &m, &|_| false, &qs);
        // 6. long thin quad
        let m = Mesh::new(vec![p(0.0, 0.0, 0.0), p(16.0, 0.0, 0.0), p(16.0, 0.25, 0.0), p(0.0, 0.25, 0.0)], vec![[0, 1, 2], [0, 2, 3]], solid);
        let mut qs = grid3((-1.0, -0.5, -0.5), (17.0, 0.75, 0.5), (0.5, 0.125, 0.25));
        qs.extend(far);
        check_mesh(r, "long thin quad 16x0.25", &m, &|_| false, &qs);
    }
}


// ------------------------------------------------------------------------------------------------ near-surface queries
/// base points on the mesh: every vertex (corner), two points inside every triangle edge, one point inside every face
fn base_points(t: &[[Point3; 3]]) -> Vec<(Point3, &'static str)> {
    let mut out: Vec<(Point3, &'static str)> = vec![];
    let mut push = |q: Point3, k: &'static str, out: &mut Vec<(Point3, &'static str)>| { if !out.iter().any(|(x, _)| *x == q) { out.push((q, k)); } };
    for f in t.iter() {
        for k in 0..3 { push(f[k], "corner", &mut out); }
        for k in 0..3 { let (a, b) = (f[k], f[(k + 1) % 3]); push(a + (b - a) * 0.5, "edge", &mut out); push(a + (b - a) * 0.25, "edge", &mut out); }
        push(Point3::from(f[0].coords * 0.5 + f[1].coords * 0.25 + f[2].coords * 0.25), "face", &mut out);
    }
    out
}
/// 6 axis directions and the 24 directions (+-1, +-2, +-3) in cyclic order: oblique to every face, edge and diagonal of the meshes used
fn offset_dirs() -> Vec<Vector3> {
    let mut out = vec![];
    for k in 0..3 { for s in [1.0, -1.0] { let mut v = Vector3::zeros(); v[k] = s; out.push(v); } }
    for c in [(1.0, 2.0, 3.0), (3.0, 1.0, 2.0), (2.0, 3.0, 1.0)] { for sx in [1.0, -1.0] { for sy in [1.0, -1.0] { for sz in [1.0, -1.0] {
        out.push(Vector3::new(sx * c.0, sy * c.1, sz * c.2).normalize());
    } } } }
    out
}
const OFFSETS: [f64; 6] = [1e-7, 1e-6, 1e-5, 1e-4, 1e-3, 1e-2];

/// Mesh::measure_point_deviation and the plain closest-point queries for points 1e-7 .. 1e-2 from the surface
fn check_deviation(r: &mut Report, name: &str, m: &Mesh, inside: &dyn Fn(&Point3) -> bool) {
    use crate::common::DistMode;
    use crate::metrology::Measurement;
    let t = tris(m);
    let nf = t.len();
    let normals: Vec<Vector3> = t.iter().map(tri_normal).collect();
    let name = format!("{} (is_solid={})", name, m.is_solid());
    let tol = |d: f64| 1e-9 * (1.0 + d);
    for (b, kind) in base_points(&t).iter() { for u in offset_dirs().iter() { for h in OFFSETS {
        let q = b + u * h;
        if m.is_solid() && inside(&q) { continue; }
        r.case();
        let br = brute(&t, &q);
        let d = || format!("{} query ({:?}, {:?}, {:?}) = {} point ({:?}, {:?}, {:?}) + {:?} * unit({:?}, {:?}, {:?}); brute-force distance {:?}", name, q.x, q.y, q.z, kind, b.x, b.y, b.z, h, u.x, u.y, u.z, br.dmin);
        let near: Vec<usize> = (0..nf).filter(|&f| br.d[f] <= br.dmin + 1e-12).collect();
        // plain closest-point queries
        let sp = m.surf_closest_to(&q);
        let dp = (q - sp.point).norm();
        r.check((dp - br.dmin).abs() <= tol(br.dmin), "mesh, query 1e-7..1e-2 off the surface: the distance to the reported closest point equals the brute-force minimum distance", d);
        r.check((0..nf).any(|f| (sp.point - tri_closest(&t[f][0], &t[f][1], &t[f][2], &sp.point)).norm() <= EPS * (1.0 + sp.point.coords.norm()) && (normals[f] - sp.normal.into_inner()).norm() <= 1e-9),
            "mesh, query 1e-7..1e-2 off the surface: the reported point lies on a face of the mesh and the reported normal is that face's normal", d);
        // deviation, point mode
        let dev = m.measure_point_deviation(&q, DistMode::ToPoint);
        let val = dev.value();
        let dd = || format!("{}; measure_point_deviation(ToPoint) value {:?} a ({:?}, {:?}, {:?}) direction ({:?}, {:?}, {:?})", d(), val, dev.a.x, dev.a.y, dev.a.z, dev.direction.x, dev.direction.y, dev.direction.z);
        r.check(dev.b == q && ((q - dev.a).norm() - br.dmin).abs() <= tol(br.dmin), "measure_point_deviation: a is a closest point of the mesh (brute force), b is the query", dd);
        if br.dmin >= 1.000001e-6 {
            r.check((val.abs() - br.dmin).abs() <= tol(br.dmin), "measure_point_deviation (ToPoint): the magnitude of the deviation equals the distance from the query to the closest point (brute force)", dd);
        } else {
            // documented: below an epsilon of 1e-6 the measurement is taken along the surface normal
            r.check(val.abs() <= br.dmin + tol(br.dmin) && br.dmin - val.abs() <= 1.000001e-6, "measure_point_deviation (ToPoint), query closer than 1e-6: the magnitude differs from the distance to the closest point by less than the documented epsilon 1e-6 and never exceeds it", dd);
        }
        // sign: only where all nearest faces agree clearly about the side
        let sides: Vec<f64> = near.iter().map(|&f| normals[f].dot(&(q - br.cp[f]))).collect();
        if br.dmin >= 1.000001e-6 && sides.iter().all(|s| *s > 1e-3 * br.dmin) { r.check(val > 0.0, "measure_point_deviation (ToPoint): positive on the outward-normal side of every nearest face", dd); }
        if br.dmin >= 1.000001e-6 && sides.iter().all(|s| *s < -1e-3 * br.dmin) { r.check(val < 0.0, "measure_point_deviation (ToPoint): negative behind every nearest face", dd); }
        // plane mode: the normal component for one of the nearest faces
        let pl = m.measure_point_deviation(&q, DistMode::ToPlane).value();
        r.check(sides.iter().any(|s| (s - pl).abs() <= tol(br.dmin)), "measure_point_deviation (ToPlane): the deviation is the component of the offset along the normal of a nearest face", || format!("{}; ToPlane value {:?}, normal components for the nearest faces {:?}", d(), pl, sides));
    } } }
}

fn near_surface(r: &mut Report) {
    let p = |x: f64, y: f64, z: f64| Point3::new(x, y, z);
    let in_box = |q: &Point3| q.x > 0.0 && q.x < 2.0 && q.y > 0.0 && q.y < 3.0 && q.z > 0.0 && q.z < 4.0;
    for solid in [false, true] {
        check_deviation(r, "box 2x3x4", &Mesh::create_box(2.0, 3.0, 4.0, solid), &in_box);
    }
    let strip = Mesh::new(vec![p(0.0, 0.0, 0.0), p(2.0, 0.0, 0.0), p(0.0, 2.0, 0.0), p(2.0, 2.0, 1.0)], vec![[0, 1, 2], [1, 3, 2]], false);
    check_deviation(r, "two-triangle strip", &strip, &|_| false);
    let quad = Mesh::new(vec![p(0.0, 0.0, 0.0), p(16.0, 0.0, 0.0), p(16.0, 0.25, 0.0), p(0.0, 0.25, 0.0)], vec![[0, 1, 2], [0, 2, 3]], false);
    check_deviation(r, "long thin quad 16x0.25", &quad, &|_| false);
    // an open roof: two rectangles meeting at a ridge, rim edges all around
    let roof = Mesh::new(vec![p(0.0, 0.0, 0.0), p(4.0, 0.0, 0.0), p(0.0, 1.5, 2.0), p(4.0, 1.5, 2.0), p(0.0, 3.0, 0.0), p(4.0, 3.0, 0.0)], vec![[0, 1, 3], [0, 3, 2], [2, 3, 5], [2, 5, 4]], false);
    check_deviation(r, "open roof (ridge y=1.5, z=2)", &roof, &|_| false);
}


// ------------------------------------------------------------------------------------------------ UV wrappers
fn bary(t: &[Point3; 3], p: &Point3) -> [f64; 3] {
    let n = (t[1] - t[0]).cross(&(t[2] - t[0]));
    let n2 = n.norm_squared();
    [(t[1] - p).cross(&(t[2] - p)).dot(&n) / n2, (t[2] - p).cross(&(t[0] - p)).dot(&n) / n2, (t[0] - p).cross(&(t[1] - p)).dot(&n) / n2]
}
/// Mesh::uv_with_tol (the UV wrapper of project_with_tol) against the brute-force oracle: acceptance under the distance cap and
/// the angle filter, uv = image of the closest point in the UV map, depth = offset along the face normal; queries given
/// directly (None) and in another frame (Some(T), T not the identity)
fn check_uv(r: &mut Report, name: &str, m: &Mesh, uvv: &[Point2], uvf: &[[u32; 3]], queries: &[Point3]) {
    let t = tris(m);
    let nf = t.len();
    let normals: Vec<Vector3> = t.iter().map(tri_normal).collect();
    let tfs: Vec<(&str, Option<Iso3>)> = vec![
        ("None", None),
        ("Some(translation (1,-2,3))", Some(Iso3::from_parts(Translation3::new(1.0, -2.0, 3.0), UnitQuaternion::identity()))),
        ("Some(Rz90 then +(-1,0.5,2))", Some(Iso3::from_parts(Translation3::new(-1.0, 0.5, 2.0), UnitQuaternion::from_axis_angle(&Vector3::z_axis(), PI / 2.0)))),
        ("Some(0.7 rad about (1,2,3) then +(0.25,-4,1.5))", Some(Iso3::from_parts(Translation3::new(0.25, -4.0, 1.5), UnitQuaternion::from_axis_angle(&na::Unit::new_normalize(Vector3::new(1.0, 2.0, 3.0)), 0.7)))),
        ("Some(1e-3 rad about x then +(0.5,0,0))", Some(Iso3::from_parts(Translation3::new(0.5, 0.0, 0.0), UnitQuaternion::from_axis_angle(&Vector3::x_axis(), 1e-3)))),
    ];
    let angles = [0.1, 0.5, 1.0, 1.5, 2.0];
    for q in queries { for (tn, tf) in tfs.iter() {
        // the query as the mesh sees it is qq = T * arg; arg is what the caller passes
        let (arg, qq) = match tf { None => (*q, *q), Some(x) => { let a = x.inverse() * q; (a, x * a) } };
        let bb = brute(&t, &qq);
        if bb.dmin < 1e-6 { continue; }
        r.case();
        let near: Vec<usize> = (0..nf).filter(|&f| bb.d[f] <= bb.dmin + EPS * (1.0 + bb.dmin)).collect();
        let mut caps = vec![bb.dmin + 0.5, 0.5 * bb.dmin];
        for c in [0.25, 1.25] { if (bb.dmin - c).abs() > 1e-3 { caps.push(c); } }
        for &cap in caps.iter() { for &ma in angles.iter() {
            let res = m.uv_with_tol(&arg, cap, ma, tf.as_ref());
            let d = || format!("{} query as seen by the mesh ({:?}, {:?}, {:?}), passed as ({:?}, {:?}, {:?}) with transform {}, max_dist {:?}, max_angle {:?}; brute-force distance {:?}; uv_with_tol = {:?}", name, qq.x, qq.y, qq.z, arg.x, arg.y, arg.z, tn, cap, ma, bb.dmin, res);
            if bb.dmin > cap {
                r.check(res.is_none(), "uv_with_tol: nothing is returned when the true distance of (transform * point) exceeds the distance cap", d);
                continue;
            }
            let verdicts: Vec<Tri> = near.iter().map(|&f| accepts(&normals[f], &(qq - bb.cp[f]), ma)).collect();
            if verdicts.iter().all(|v| *v == Tri::Yes) {
                r.check(res.is_some(), "uv_with_tol: a point (transform * point) within the distance cap whose offset is within the stated angle of the face normal is accepted", d);
            } else if verdicts.iter().all(|v| *v == Tri::No) {
                r.check(res.is_none(), "uv_with_tol: a point (transform * point) whose offset is NOT within the stated angle of the face normal is rejected", d);
            }
            if let Some((uv, depth)) = res {
                // the answer must be that of one of the nearest faces that does not reject
                let ok = near.iter().zip(verdicts.iter()).any(|(&f, v)| {
                    if *v == Tri::No { return false; }
                    let bc = bary(&t[f], &bb.cp[f]);
                    let g = uvf[f];
                    let want = uvv[g[0] as usize].coords * bc[0] + uvv[g[1] as usize].coords * bc[1] + uvv[g[2] as usize].coords * bc[2];
                    eq(uv.x, want.x) && eq(uv.y, want.y) && eq(depth, normals[f].dot(&(qq - bb.cp[f])))
                });
                r.check(ok, "uv_with_tol: uv is the image in the UV map of the closest point to (transform * point) and depth its offset along that face's normal", d);
            }
        } }
    } }
}

fn uv_wrappers(r: &mut Report) {
    let p = |x: f64, y: f64, z: f64| Point3::new(x, y, z);
    let u = |x: f64, y: f64| Point2::new(x, y);
    let mk = |v: Vec<Point3>, f: Vec<[u32; 3]>, uvv: &Vec<Point2>, uvf: &Vec<[u32; 3]>| {
        let uv = crate::geom3::UvMapping::new(uvv.clone(), uvf.clone()).unwrap();
        Mesh::new_with_uv(v, f, false, Some(uv))
    };
    let far = [p(5.0, 1.5, 2.0), p(-4.0, -4.0, -4.0), p(1.0, 8.0, 2.0), p(0.75, 1.25, 1.125)];
    // 1. open roof, UV = the unfolded roof (continuous across the ridge)
    let f = vec![[0u32, 1, 3], [0, 3, 2], [2, 3, 5], [2, 5, 4]];
    let uvv = vec![u(0.0, 0.0), u(4.0, 0.0), u(0.0, 2.5), u(4.0, 2.5), u(0.0, 5.0), u(4.0, 5.0)];
    let m = mk(vec![p(0.0, 0.0, 0.0), p(4.0, 0.0, 0.0), p(0.0, 1.5, 2.0), p(4.0, 1.5, 2.0), p(0.0, 3.0, 0.0), p(4.0, 3.0, 0.0)], f.clone(), &uvv, &f);
    let mut qs = grid3((-1.0, -1.0, -1.0), (5.0, 4.0, 3.0), (1.0, 0.5, 0.5));
    qs.extend(far);
    check_uv(r, "UV-mapped open roof (ridge y=1.5, z=2; uv = (x, arc length across))", &m, &uvv, &f, &qs);
    // 2. non-planar two-triangle strip, UV = (x, y)
    let f = vec![[0u32, 1, 2], [1, 3, 2]];
    let uvv = vec![u(0.0, 0.0), u(2.0, 0.0), u(0.0, 2.0), u(2.0, 2.0)];
    let m = mk(vec![p(0.0, 0.0, 0.0), p(2.0, 0.0, 0.0), p(0.0, 2.0, 0.0), p(2.0, 2.0, 1.0)], f.clone(), &uvv, &f);
    let mut qs = grid3((-1.0, -1.0, -1.0), (3.0, 3.0, 2.0), (0.5, 0.5, 0.5));
    qs.extend(far);
    check_uv(r, "UV-mapped two-triangle strip (uv = (x, y))", &m, &uvv, &f, &qs);
    // 3. box 2x3x4 with an atlas: face k is drawn on its own chart at (8k, 0) (discontinuous across every edge)
    let bx = Mesh::create_box(2.0, 3.0, 4.0, false);
    let (bv, bf) = (bx.vertices().to_vec(), bx.faces().to_vec());
    let mut uvv = vec![];
    let mut uvf = vec![];
    for (k, t) in bf.iter().enumerate() {
        let (a, b, c) = (bv[t[0] as usize], bv[t[1] as usize], bv[t[2] as usize]);
        let e = (b - a).normalize();
        let nn = (b - a).cross(&(c - a)).normalize();
        let w = nn.cross(&e);
        let base = uvv.len() as u32;
        for x in [a, b, c] { uvv.push(u(8.0 * k as f64 + (x - a).dot(&e), (x - a).dot(&w))); }
        uvf.push([base, base + 1, base + 2]);
    }
    let m = mk(bv, bf, &uvv, &uvf);
    let mut qs = grid3((-1.0, -1.0, -1.0), (3.0, 4.0, 5.0), (1.0, 1.0, 1.0));
    qs.extend(grid3((0.25, 0.25, -0.75), (1.75, 2.75, 4.75), (0.75, 1.25, 5.5)));
    qs.extend(far);
    check_uv(r, "UV-mapped box 2x3x4 (atlas: face k on its own chart at (8k, 0))", &m, &uvv, &uvf, &qs);
}


// ------------------------------------------------------------------------------------------------ wave 5: parameter-space audit
// The families below vary what the fixed examples above keep constant: the number of elements (33 .. 70001 vertices,
// 32 .. 4232 faces: every size class of the bounding-volume tree), the frame (coordinates 2^10 .. 2^26 from the origin,
// extents 2^-20 / 2^-30 / 2^10), the numbering (reversed), closure (open / explicitly closed / force_closed / closed
// within the tolerance only), edge-length ratios (5 * 2^-18 next to 25), caps just above / below the true distance,
// max_angle 0 / pi/2 / pi / > pi, Some(identity) and Some(far translation), index lists with 0 / 1 / 2 points and
// duplicates.  All coordinates are dyadic and chosen so that scaling / shifting is exact; the oracle is the same
// brute-force scan, its tolerance follows the frame (Tc).

/// tolerance context: `s` = size scale of the entity (1 for the unit families), `m` = largest |coordinate| involved
fn timing() -> bool { std::env::var("VERIF_C02_TIMING").is_ok() }
#[derive(Clone, Copy)]
struct Tc { s: f64, m: f64 }
impl Tc {
    /// admissible error of a length of size d: 1e-9 relative to the scale of the entity (or to d) + 16 ulp of the coordinates
    fn t(&self, d: f64) -> f64 { 1e-9 * (self.s + d.abs()) + 16.0 * f64::EPSILON * self.m }
}
/// a frame: x -> x * s + o (s a power of two, o dyadic: exact for the coordinates used)
#[derive(Clone, Copy)]
struct Frame { s: f64, o: [f64; 3], tag: &'static str }
const P10: f64 = 1024.0;
const P20: f64 = 1048576.0;
const P26: f64 = 67108864.0;
fn frames_all() -> Vec<Frame> {
    vec![
        Frame { s: 1.0, o: [0.0, 0.0, 0.0], tag: "as is" },
        Frame { s: 1.0, o: [P10, -P10, 3.0 * P10], tag: "shifted by (2^10, -2^10, 3*2^10)" },
        Frame { s: 1.0, o: [P20, P20, -2.0 * P20], tag: "shifted by (2^20, 2^20, -2^21)" },
        Frame { s: 1.0, o: [P26, -0.5 * P26, 0.25 * P26], tag: "shifted by (2^26, -2^25, 2^24)" },
        Frame { s: 1.0 / P20, o: [0.0, 0.0, 0.0], tag: "scaled by 2^-20" },
        Frame { s: 1.0 / P20 / P10, o: [0.0, 0.0, 0.0], tag: "scaled by 2^-30" },
        Frame { s: 1.0 / P20, o: [1.0, -1.0, 0.5], tag: "scaled by 2^-20 then shifted by (1, -1, 0.5)" },
        Frame { s: P10, o: [0.0, 0.0, 0.0], tag: "scaled by 2^10" },
    ]
}
fn frames_few() -> Vec<Frame> { let f = frames_all(); vec![f[0], f[2], f[4]] }

struct StaG<const D: usize> { p: na::Point<f64, D>, i: usize, f: f64, dir: na::SVector<f64, D>, nrm: Option<na::SVector<f64, D>>, la: f64, dd: f64 }

/// the curve clauses of check_curve2 / check_curve3 with a frame-aware tolerance; `at` evaluates the real code
fn check_curve_g<const D: usize>(r: &mut Report, dim: &str, name: &str, v: &[na::Point<f64, D>], tc0: Tc, queries: &[na::Point<f64, D>], at: &dyn Fn(&na::Point<f64, D>) -> StaG<D>) {
    let n = v.len();
    let mut ls = vec![0.0];
    for i in 0..n - 1 { let l = ls[i] + (v[i + 1] - v[i]).norm(); ls.push(l); }
    let cl = |x: &str| format!("{}: {}", dim, x);
    for q in queries {
        r.case();
        let tc = Tc { s: tc0.s, m: tc0.m.max(q.coords.amax()) };
        let s = at(q);
        let p = s.p;
        let d = || format!("{} ({} vertices) query {:?} -> point {:?} index {} fraction {:?} length_along {:?} dist_to_point {:?}", name, n, q.coords.as_slice(), p.coords.as_slice(), s.i, s.f, s.la, s.dd);
        let mut dmin = f64::INFINITY;
        let mut on = f64::INFINITY;
        for i in 0..n - 1 {
            dmin = dmin.min((q - seg_closest(&v[i], &v[i + 1], q)).norm());
            on = on.min((p - seg_closest(&v[i], &v[i + 1], &p)).norm());
        }
        let dp = (q - p).norm();
        r.check(on <= tc.t(0.0), &cl("the reported closest point lies on the curve"), d);
        r.check(dp <= dmin + tc.t(dmin), &cl("no vertex or edge is nearer to the query than the reported point (brute force over all segments)"), d);
        r.check((s.dd - dp).abs() <= tc.t(dp), &cl("dist_to_point equals the distance from the query to the reported closest point"), d);
        r.check((s.dd - dmin).abs() <= tc.t(dmin), &cl("dist_to_point equals the brute-force minimum distance"), d);
        r.check(s.i + 1 < n && s.f >= 0.0 && s.f <= 1.0, &cl("edge index in range and fraction in [0,1]"), d);
        if s.i + 1 < n {
            let i = s.i;
            let lp = v[i] + (v[i + 1] - v[i]) * s.f;
            r.check((lp - p).norm() <= tc.t(0.0), &cl("edge index and fraction reproduce the reported point"), d);
            let e = (v[i + 1] - v[i]).normalize();
            r.check((s.dir - e).amax() <= 1e-9, &cl("the reported direction is that edge's direction"), d);
            if let Some(nn) = s.nrm {
                r.check((nn[0] - e[1]).abs() <= 1e-9 && (nn[1] + e[0]).abs() <= 1e-9, &cl("the reported normal is that edge's normal (direction turned by -90 degrees)"), d);
            }
            let want = ls[i] + (p - v[i]).norm();
            r.check((s.la - want).abs() <= tc.t(want), &cl("length_along is the arc length of the reported point"), d);
        }
    }
}

// ---- 2D vertex families in the unit frame (dyadic coordinates)
fn fam_zigzag(n: usize) -> Vec<(f64, f64)> { (0..n).map(|k| (k as f64 * 0.5, if k % 2 == 0 { 0.0 } else { 1.0 + (k % 5) as f64 * 0.25 })).collect() }
/// square spiral outwards: legs of 1, 1, 2, 2, 3, 3, ... half units (arms 0.5 apart, all nested)
fn fam_spiral(n: usize) -> Vec<(f64, f64)> {
    let mut out = vec![(0.0, 0.0)];
    let dirs = [(0.5, 0.0), (0.0, 0.5), (-0.5, 0.0), (0.0, -0.5)];
    let (mut x, mut y, mut leg) = (0.0, 0.0, 0usize);
    while out.len() < n {
        let len = (leg / 2 + 1) as f64;
        x += dirs[leg % 4].0 * len; y += dirs[leg % 4].1 * len;
        out.push((x, y));
        leg += 1;
    }
    out
}
/// hairpin runs of length 4, h apart (nearly coincident for h = 2^-10)
fn fam_serpentine(rows: usize, h: f64) -> Vec<(f64, f64)> {
    let mut out = vec![];
    for k in 0..rows { let y = k as f64 * h; if k % 2 == 0 { out.push((0.0, y)); out.push((4.0, y)); } else { out.push((4.0, y)); out.push((0.0, y)); } }
    out
}
/// rectangle 8 x 3 walked from the middle of the bottom side: short edges (0.5) below, long ones (8/3 is avoided: 2) above, single
/// edges on the sides; `gap`: the last vertex stops this far short of the first one (0 = explicitly closed)
fn fam_ring(gap: f64) -> Vec<(f64, f64)> {
    let mut out = vec![];
    for k in 0..=8 { out.push((4.0 + 0.5 * k as f64, 0.0)); }
    out.push((8.0, 3.0));
    for k in 1..=4 { out.push((8.0 - 2.0 * k as f64, 3.0)); }
    out.push((0.0, 0.0));
    for k in 1..8 { out.push((0.5 * k as f64, 0.0)); }
    out.push((4.0 - gap, 0.0));
    out
}
/// long edges with irrational lengths (so that cumulative lengths carry rounding), with edges of length 5 * 2^-18 at the
/// front, in the middle and at the back (ratio > 1e6 : 1)
fn fam_long_tiny() -> Vec<(f64, f64)> {
    let t = 1.0 / 262144.0;
    let mut out = vec![(0.0, 0.0), (3.0 * t, 4.0 * t)];
    let (mut x, mut y) = (3.0 * t, 4.0 * t);
    for k in 0..40usize {
        x += 24.0; y += ((k * k) % 7) as f64 - 3.0;
        out.push((x, y));
        if k == 19 { x += 3.0 * t; y -= 4.0 * t; out.push((x, y)); x += 4.0 * t; y += 3.0 * t; out.push((x, y)); }
    }
    x -= 4.0 * t; y += 3.0 * t; out.push((x, y));
    out
}
/// the neighbouring double away from zero (the smallest subnormal for 0)
fn ulp_out(x: f64) -> f64 { if x == 0.0 { f64::from_bits(1) } else { f64::from_bits(x.to_bits() + 1) } }
/// the neighbouring double towards zero
fn ulp_in(x: f64) -> f64 { if x == 0.0 { -f64::from_bits(1) } else { f64::from_bits(x.to_bits() - 1) } }
fn pow2_ge(x: f64) -> f64 { let mut p = 1.0 / 1024.0; while p < x { p *= 2.0; } p }
/// queries for a polyline, unit frame: two grids reaching 1 beyond the box (one off the lattice), for up to `nv` spread-out
/// vertices: the vertex itself, the midpoint of its edge, both displaced by +-fine obliquely; far points (2^20 .. 2^27)
fn fam_queries(v: &[(f64, f64)], fine: f64, nv: usize, grid: bool) -> Vec<(f64, f64)> {
    let (mut x0, mut x1, mut y0, mut y1) = (f64::INFINITY, -f64::INFINITY, f64::INFINITY, -f64::INFINITY);
    for p in v { x0 = x0.min(p.0); x1 = x1.max(p.0); y0 = y0.min(p.1); y1 = y1.max(p.1); }
    let mut out = vec![];
    if grid {
        let step = pow2_ge(((x1 - x0).max(y1 - y0) + 2.0) / 16.0).max(0.5);
        let (gx0, gy0) = ((x0 / step).floor() * step - step.min(1.0), (y0 / step).floor() * step - step.min(1.0));
        let mut gx = gx0;
        while gx <= x1 + 1.0 { let mut gy = gy0; while gy <= y1 + 1.0 { out.push((gx, gy)); out.push((gx + 0.25, gy + 0.125)); gy += step; } gx += step; }
    }
    let n = v.len();
    let mut picks: Vec<usize> = vec![0, 1, n / 2, n - 2, n - 1];
    for k in 0..nv { picks.push(k * (n - 1) / nv.max(1)); }
    picks.sort(); picks.dedup();
    for &k in picks.iter() {
        let a = v[k];
        out.push(a);
        for sg in [1.0, -1.0] { out.push((a.0 + sg * fine, a.1 + sg * fine * 0.5)); out.push((a.0 - sg * fine * 0.5, a.1 + sg * fine)); }
        if k + 1 < n {
            let b = v[k + 1];
            let mid = ((a.0 + b.0) * 0.5, (a.1 + b.1) * 0.5);
            out.push(mid);
            for sg in [1.0, -1.0] { out.push((mid.0 + sg * fine * 0.25, mid.1 + sg * fine * 0.5)); }
            out.push((a.0 * 0.75 + b.0 * 0.25, a.1 * 0.75 + b.1 * 0.25));
        }
    }
    out.extend([(-P20, 2.0 * P20), (3.0 * P20 * 8.0, P20 * 8.0), (1.0, -2.0 * P26), (x1 + P20, y0 - 0.5 * P20)]);
    out
}

fn curves_w5(r: &mut Report) {
    // (name, unit-frame vertices, fine displacement, number of picked vertices, grid?, all frames?, tolerance factor)
    let h = 1.0 / 1024.0;
    struct Fam { name: String, v: Vec<(f64, f64)>, fine: f64, nv: usize, grid: bool, all: bool, ctol: f64 }
    let mut fams: Vec<Fam> = vec![];
    for n in [33usize, 65, 100, 1000, 4097] { fams.push(Fam { name: format!("zigzag (k/2, k even ? 0 : 1 + (k%5)/4), k < {}", n), v: fam_zigzag(n), fine: 0.125, nv: 24, grid: true, all: n <= 100, ctol: 1.0 / P20 }); }
    for n in [40usize, 200, 1025] { fams.push(Fam { name: format!("square spiral outwards, {} vertices, arms 0.5 apart", n), v: fam_spiral(n), fine: 0.125, nv: 24, grid: true, all: n <= 200, ctol: 1.0 / P20 }); }
    for rows in [6usize, 40] { fams.push(Fam { name: format!("serpentine, {} hairpin runs of length 4, 2^-10 apart", rows), v: fam_serpentine(rows, h), fine: h / 4.0, nv: 24, grid: true, all: true, ctol: 1.0 / P20 }); }
    fams.push(Fam { name: "rectangle 8x3 from the middle of the bottom side, explicitly closed (short edges below, long above)".into(), v: fam_ring(0.0), fine: 0.125, nv: 30, grid: true, all: true, ctol: 1.0 / P20 });
    fams.push(Fam { name: "rectangle 8x3 from the middle of the bottom side, last vertex 0.25 short of the first".into(), v: fam_ring(0.25), fine: 0.125, nv: 30, grid: true, all: true, ctol: 1.0 / P20 });
    fams.push(Fam { name: "rectangle 8x3 from the middle of the bottom side, last vertex 1/16 short of the first, curve tolerance 1/8 (closed within the tolerance only)".into(), v: fam_ring(0.0625), fine: 0.125, nv: 30, grid: true, all: true, ctol: 0.125 });
    fams.push(Fam { name: "long edges (24 x, irrational lengths) with edges of length 5*2^-18 at the front, in the middle, at the back".into(), v: fam_long_tiny(), fine: 1.0 / P20, nv: 44, grid: true, all: false, ctol: 1.0 / P20 / 4.0 });
    let big = if super::thorough() { 200001 } else { 70001 };
    fams.push(Fam { name: format!("zigzag (k/2, k even ? 0 : 1 + (k%5)/4), k < {} (edge ids >= 2^16)", big), v: fam_zigzag(big), fine: 0.125, nv: 6, grid: false, all: false, ctol: 1.0 / P20 });

    for fam in fams.iter() {
        let t0 = std::time::Instant::now();
        let qs = fam_queries(&fam.v, fam.fine, fam.nv, fam.grid);
        let frames = if fam.all { frames_all() } else if fam.v.len() > 5000 { vec![frames_all()[0]] } else { frames_few() };
        for (fi, fr) in frames.iter().enumerate() {
            for rev in [false, true] {
                if rev && (fi > 0 && !fam.all) { continue; }
                let mut uv = fam.v.clone();
                if rev { uv.reverse(); }
                let name = format!("{}{}, {}", fam.name, if rev { ", numbering reversed" } else { "" }, fr.tag);
                let m = uv.iter().fold(0.0f64, |a, p| a.max((p.0 * fr.s + fr.o[0]).abs()).max((p.1 * fr.s + fr.o[1]).abs()));
                let tc = Tc { s: fr.s, m };
                // 2D
                let pts: Vec<Point2> = uv.iter().map(|p| Point2::new(p.0 * fr.s + fr.o[0], p.1 * fr.s + fr.o[1])).collect();
                let mut q2: Vec<Point2> = qs.iter().map(|p| Point2::new(p.0 * fr.s + fr.o[0], p.1 * fr.s + fr.o[1])).collect();
                // one ulp either side of some vertices (in this frame)
                for k in [0, 1, pts.len() / 2, pts.len() - 2, pts.len() - 1] {
                    let a = pts[k];
                    q2.extend([Point2::new(ulp_out(a.x), a.y), Point2::new(a.x, ulp_in(a.y)), Point2::new(ulp_in(a.x), ulp_out(a.y))]);
                }
                for fc in [false, true] {
                    if fc && fam.v.len() > 5000 { continue; }
                    if let Ok(c) = Curve2::from_points(&pts, fam.ctol * fr.s, fc) {
                        let nm = format!("Curve2 {} (tol {:?}, force_closed {}, is_closed {})", name, fam.ctol * fr.s, fc, c.is_closed());
                        check_curve_g::<2>(r, "curve2", &nm, c.points(), tc, &q2, &|q| {
                            let s = c.at_closest_to_point(q);
                            StaG { p: s.point(), i: s.index(), f: s.fraction(), dir: s.direction().into_inner(), nrm: Some(s.normal().into_inner()), la: s.length_along(), dd: c.dist_to_point(q) }
                        });
                    }
                }
                // 3D: the same polyline lifted out of the plane (z = ((7k) % 4) * fine)
                let nv = uv.len();
                let zk = |k: usize| ((k * 7) % 4) as f64 * fam.fine;
                let pts3: Vec<Point3> = (0..nv).map(|k| Point3::new(uv[k].0 * fr.s + fr.o[0], uv[k].1 * fr.s + fr.o[1], zk(k) * fr.s + fr.o[2])).collect();
                let mut q3: Vec<Point3> = qs.iter().enumerate().map(|(k, p)| Point3::new(p.0 * fr.s + fr.o[0], p.1 * fr.s + fr.o[1], ((k % 5) as f64 - 1.0) * fam.fine * fr.s + fr.o[2])).collect();
                for k in [0, 1, nv / 2, nv - 2, nv - 1] {
                    let a = pts3[k];
                    q3.extend([a, Point3::new(ulp_out(a.x), a.y, a.z), Point3::new(a.x, ulp_in(a.y), ulp_out(a.z)), Point3::new(ulp_in(a.x), ulp_out(a.y), ulp_in(a.z))]);
                }
                if let Ok(c) = Curve3::from_points(&pts3, fam.ctol * fr.s) {
                    let nm = format!("Curve3 {} lifted by z = ((7k)%4)*{:?} (tol {:?})", name, fam.fine, fam.ctol * fr.s);
                    let tc3 = Tc { s: fr.s, m: m.max(fr.o[2].abs() + 4.0 * fam.fine * fr.s) };
                    check_curve_g::<3>(r, "curve3", &nm, c.points(), tc3, &q3, &|q| {
                        let s = c.at_closest_to_point(q);
                        StaG { p: s.point(), i: s.index(), f: s.fraction(), dir: s.direction().into_inner(), nrm: None, la: s.length_along(), dd: c.dist_to_point(q) }
                    });
                }
            }
        }
        if timing() { eprintln!("C02 timing: {:.2} s, {} queries: {}", t0.elapsed().as_secs_f64(), qs.len(), fam.name); }
    }
}


// ---- wave 5, meshes
type V3 = (f64, f64, f64);
/// (nx x ny cells of size dx x dy, z = ((3i + 5j) % 4) * dz: non-planar), two triangles per cell with alternating diagonals;
/// `flip`: every third face is listed with the opposite winding; `renum`: vertex ids reversed (interior / first row last)
fn gen_heightfield(nx: usize, ny: usize, dx: f64, dy: f64, dz: f64, flip: bool, renum: bool) -> (Vec<V3>, Vec<[u32; 3]>) {
    let nvert = (nx + 1) * (ny + 1);
    let mut v = vec![(0.0, 0.0, 0.0); nvert];
    let id = |i: usize, j: usize| { let k = j * (nx + 1) + i; (if renum { nvert - 1 - k } else { k }) as u32 };
    for j in 0..=ny { for i in 0..=nx { v[id(i, j) as usize] = (i as f64 * dx, j as f64 * dy, ((3 * i + 5 * j) % 4) as f64 * dz); } }
    let mut f = vec![];
    for j in 0..ny { for i in 0..nx {
        let (a, b, c, d) = (id(i, j), id(i + 1, j), id(i + 1, j + 1), id(i, j + 1));
        if (i + j) % 2 == 0 { f.push([a, b, c]); f.push([a, c, d]); } else { f.push([a, b, d]); f.push([b, c, d]); }
    } }
    if flip { for (k, t) in f.iter_mut().enumerate() { if k % 3 == 1 { t.swap(1, 2); } } }
    (v, f)
}
/// box w x h x d, every side a k x k grid of its own (vertices along the box edges are duplicated), outward winding
fn gen_tess_box(w: f64, h: f64, d: f64, k: usize) -> (Vec<V3>, Vec<[u32; 3]>) {
    let sides: [(V3, V3, V3); 6] = [
        ((0.0, 0.0, 0.0), (0.0, h, 0.0), (w, 0.0, 0.0)), ((0.0, 0.0, d), (w, 0.0, 0.0), (0.0, h, 0.0)),
        ((0.0, 0.0, 0.0), (w, 0.0, 0.0), (0.0, 0.0, d)), ((0.0, h, 0.0), (0.0, 0.0, d), (w, 0.0, 0.0)),
        ((0.0, 0.0, 0.0), (0.0, 0.0, d), (0.0, h, 0.0)), ((w, 0.0, 0.0), (0.0, h, 0.0), (0.0, 0.0, d)),
    ];
    let (mut v, mut f) = (vec![], vec![]);
    for (o, a, b) in sides.iter() {
        let base = v.len() as u32;
        for j in 0..=k { for i in 0..=k {
            let (s, t) = (i as f64 / k as f64, j as f64 / k as f64);
            v.push((o.0 + a.0 * s + b.0 * t, o.1 + a.1 * s + b.1 * t, o.2 + a.2 * s + b.2 * t));
        } }
        let id = |i: usize, j: usize| base + (j * (k + 1) + i) as u32;
        for j in 0..k { for i in 0..k {
            let (p, q, rr, s) = (id(i, j), id(i + 1, j), id(i + 1, j + 1), id(i, j + 1));
            if (i + j) % 2 == 0 { f.push([p, q, rr]); f.push([p, rr, s]); } else { f.push([p, q, s]); f.push([q, rr, s]); }
        } }
    }
    (v, f)
}
fn gen_octahedron(a: f64) -> (Vec<V3>, Vec<[u32; 3]>) {
    let v = vec![(a, 0.0, 0.0), (-a, 0.0, 0.0), (0.0, a, 0.0), (0.0, -a, 0.0), (0.0, 0.0, a), (0.0, 0.0, -a)];
    let f = vec![[0, 2, 4], [2, 1, 4], [1, 3, 4], [3, 0, 4], [2, 0, 5], [1, 2, 5], [3, 1, 5], [0, 3, 5]];
    (v, f)
}
/// queries for a mesh, unit frame: two grids reaching 1 beyond the box (one off the lattice); for up to `nv` spread-out faces:
/// every corner, the midpoint of every edge and an interior point, each as is and displaced by +-fine along z and obliquely;
/// far points (2^20 .. 2^27)
fn mesh_queries_w(v: &[V3], f: &[[u32; 3]], fine: f64, nv: usize, gridn: f64) -> Vec<V3> {
    let (mut lo, mut hi) = ([f64::INFINITY; 3], [-f64::INFINITY; 3]);
    for p in v { for (k, x) in [p.0, p.1, p.2].iter().enumerate() { lo[k] = lo[k].min(*x); hi[k] = hi[k].max(*x); } }
    let ext = (hi[0] - lo[0]).max(hi[1] - lo[1]).max(hi[2] - lo[2]);
    let step = pow2_ge((ext + 2.0) / gridn).max(0.5);
    let mut out = vec![];
    let g0: Vec<f64> = (0..3).map(|k| (lo[k] / step).floor() * step - step.min(1.0)).collect();
    let mut x = g0[0];
    while x <= hi[0] + 1.0 { let mut y = g0[1]; while y <= hi[1] + 1.0 { let mut z = g0[2]; while z <= hi[2] + 1.0 {
        out.push((x, y, z)); out.push((x + 0.25, y + 0.125, z + 0.375));
        z += step; } y += step; } x += step; }
    let nf = f.len();
    let mut picks: Vec<usize> = vec![0, nf / 2, nf - 1];
    for k in 0..nv { picks.push(k * (nf - 1) / nv.max(1)); }
    picks.sort(); picks.dedup();
    for &k in picks.iter() {
        let t = [v[f[k][0] as usize], v[f[k][1] as usize], v[f[k][2] as usize]];
        let mut base = vec![t[0], t[1], t[2]];
        for e in 0..3 { let (a, b) = (t[e], t[(e + 1) % 3]); base.push(((a.0 + b.0) * 0.5, (a.1 + b.1) * 0.5, (a.2 + b.2) * 0.5)); }
        base.push((t[0].0 * 0.5 + t[1].0 * 0.25 + t[2].0 * 0.25, t[0].1 * 0.5 + t[1].1 * 0.25 + t[2].1 * 0.25, t[0].2 * 0.5 + t[1].2 * 0.25 + t[2].2 * 0.25));
        for b in base.iter() {
            out.push(*b);
            for sg in [1.0, -1.0] { out.push((b.0, b.1, b.2 + sg * fine)); out.push((b.0 + sg * fine * 0.5, b.1 - sg * fine * 0.25, b.2 + sg * fine)); out.push((b.0 + sg * fine, b.1 + sg * fine * 0.5, b.2)); }
        }
    }
    out.extend([(-P20, 2.0 * P20, 0.0), (24.0 * P20, 8.0 * P20, -16.0 * P20), (1.0, 1.5, 2.0 * P26), (hi[0] + P20, lo[1] - 0.5 * P20, 0.25 * P20)]);
    out
}

struct MeshOpts { deviation: bool, transforms: bool, maxq: usize }

/// the mesh clauses of check_mesh with a frame-aware tolerance (all absolute quantities follow the scale tc0.s), more caps
/// (just above / below the true distance), max_angle 0 / pi/2 / pi / 4, Some(identity) and a far Some(translation), index lists
/// with 0 / 1 / 2 points and duplicates, and Mesh::measure_point_deviation at every distance
fn check_mesh_w(r: &mut Report, name: &str, m: &Mesh, tc0: Tc, inside: &dyn Fn(&Point3) -> bool, queries: &[Point3], opts: &MeshOpts) {
    use crate::common::DistMode;
    use crate::metrology::Measurement;
    let t = tris(m);
    let nf = t.len();
    let sc = tc0.s;
    let normals: Vec<Vector3> = t.iter().map(tri_normal).collect();
    let name = format!("{} ({} faces, is_solid={})", name, nf, m.is_solid());
    let ident = Iso3::identity();
    let tr = Iso3::from_parts(Translation3::new(1.0 * sc, -2.0 * sc, 3.0 * sc), UnitQuaternion::identity());
    let rot = Iso3::from_parts(Translation3::new(-1.0 * sc, 0.5 * sc, 2.0 * sc), UnitQuaternion::from_axis_angle(&Vector3::z_axis(), PI / 2.0));
    let far_t = Iso3::from_parts(Translation3::new(P20 * sc, -2.0 * P20 * sc, 0.5 * P20 * sc), UnitQuaternion::identity());
    let pure_rot = Iso3::from_parts(Translation3::new(0.0, 0.0, 0.0), UnitQuaternion::from_axis_angle(&Vector3::x_axis(), PI / 2.0));
    let tfs: Vec<(&str, Option<&Iso3>)> = if opts.transforms {
        vec![("None", None), ("Some(identity)", Some(&ident)), ("Some(translation (1,-2,3) * scale)", Some(&tr)), ("Some(Rz90 then +(-1,0.5,2) * scale)", Some(&rot)), ("Some(translation (2^20,-2^21,2^19) * scale)", Some(&far_t)), ("Some(quarter turn about x, no translation)", Some(&pure_rot))]
    } else { vec![("None", None), ("Some(translation (2^20,-2^21,2^19) * scale)", Some(&far_t))] };
    let angles = [0.0, 0.1, 0.5, 1.0, 1.5, PI / 2.0, 2.0, PI, 4.0];
    let mut used: Vec<Point3> = vec![];
    for q in queries {
        if m.is_solid() && inside(q) { continue; }
        used.push(*q);
        r.case();
        let tc = Tc { s: sc, m: tc0.m.max(q.coords.amax()) };
        let tiny = 1e-6 * sc + 64.0 * f64::EPSILON * tc.m;
        let d = || format!("{} query ({:?}, {:?}, {:?})", name, q.x, q.y, q.z);
        let b = brute(&t, q);
        let sp = m.surf_closest_to(q);
        let on: Vec<usize> = (0..nf).filter(|&f| (sp.point - tri_closest(&t[f][0], &t[f][1], &t[f][2], &sp.point)).norm() <= tc.t(0.0)).collect();
        r.check(!on.is_empty(), "mesh: the reported closest point lies on a face of the mesh", d);
        let dp = (q - sp.point).norm();
        r.check(dp <= b.dmin + tc.t(b.dmin), "mesh: no vertex, edge or face is nearer to the query than the reported point (brute force over all triangles)", d);
        r.check(on.iter().any(|&f| (normals[f] - sp.normal.into_inner()).norm() <= 1e-9), "mesh: the reported normal is the normal of a face containing the reported point", d);
        let pc = m.point_closest_to(q);
        r.check((pc - sp.point).norm() <= tc.t(0.0), "mesh: point_closest_to and surf_closest_to report the same point", d);

        // distance cap, in both relations to the true distance, also just above / below it (1e-6 relative, far above rounding)
        let mut caps = vec![b.dmin + 0.5 * sc, 2.0 * b.dmin + sc, 1.0e9 * sc + 8.0 * b.dmin];
        if b.dmin > tiny { caps.push(0.5 * b.dmin); caps.push(b.dmin * (1.0 + 1e-6) + 4.0 * tc.t(b.dmin)); caps.push(b.dmin * (1.0 - 1e-6) - 4.0 * tc.t(b.dmin)); }
        for c in [0.25 * sc, 1.25 * sc, 5.0 * sc] { if (b.dmin - c).abs() > 1e-3 * sc { caps.push(c); } }
        for cap in caps.iter() {
            if *cap <= 0.0 { continue; }
            let dc = || format!("{} cap {:?} (true distance {:?})", d(), cap, b.dmin);
            let res = m.project_with_max_dist(q, *cap);
            r.check(res.is_some() == (b.dmin <= *cap), "mesh: with a distance cap a result is returned exactly when the true distance is within the cap", dc);
            if let Some((prj, id, loc)) = res {
                r.check((id as usize) < nf, "mesh: capped projection reports a face of the mesh", dc);
                r.check((q - prj.point).norm() <= b.dmin + tc.t(b.dmin), "mesh: capped projection reports a point at the minimum distance", dc);
                if (id as usize) < nf {
                    match loc.barycentric_coordinates() {
                        Some(bc) => {
                            let f = &t[id as usize];
                            // convex combination evaluated relative to the first corner (exact differences far from the origin)
                            let rp = f[0] + (f[1] - f[0]) * bc[1] + (f[2] - f[0]) * bc[2];
                            r.check(bc.iter().all(|x| *x >= -EPS && *x <= 1.0 + EPS) && eq(bc[0] + bc[1] + bc[2], 1.0), "mesh: barycentric location is a convex combination", dc);
                            r.check((rp - prj.point).norm() <= tc.t(0.0), "mesh: face id and barycentric location reproduce the reported point", dc);
                        }
                        None => r.check(false, "mesh: the reported location has barycentric coordinates", dc),
                    }
                }
            }
        }

        // angle-filtered projection
        for (tn, tf) in tfs.iter() {
            let (arg, qq) = match tf { None => (*q, *q), Some(x) => { let a = x.inverse() * q; (a, *x * a) } };
            let bb = brute(&t, &qq);
            if bb.dmin != 0.0 && bb.dmin < tiny { continue; }
            let near: Vec<usize> = (0..nf).filter(|&f| bb.d[f] <= bb.dmin + tc.t(bb.dmin)).collect();
            for &ma in angles.iter() {
                let cap = bb.dmin + 0.5 * sc;
                let da = || format!("{} passed as ({:?}, {:?}, {:?}) with transform {} max_dist {:?} max_angle {:?} (true distance {:?})", d(), arg.x, arg.y, arg.z, tn, cap, ma, bb.dmin);
                let verdicts: Vec<Tri> = near.iter().map(|&f| accepts(&normals[f], &(qq - bb.cp[f]), ma)).collect();
                let res = m.project_with_tol(&arg, cap, ma, *tf);
                if bb.dmin == 0.0 {
                    if ma > 0.0 { r.check(res.is_some(), "mesh: project_with_tol accepts a query exactly on the surface (offset exactly zero) within the distance cap", da); }
                } else if verdicts.iter().all(|v| *v == Tri::Yes) {
                    r.check(res.is_some(), "mesh: project_with_tol accepts a point whose offset is within the stated angle of the face normal", da);
                } else if verdicts.iter().all(|v| *v == Tri::No) {
                    r.check(res.is_none(), "mesh: project_with_tol rejects a point whose offset is NOT within the stated angle of the face normal", da);
                } else if let Some((_, id, _)) = res {
                    let k = near.iter().position(|&f| f == id as usize);
                    r.check(k.map(|k| verdicts[k] != Tri::No).unwrap_or(false), "mesh: project_with_tol accepted with a face whose normal is not within the stated angle of the offset", da);
                } else {
                    r.check(verdicts.iter().any(|v| *v != Tri::Yes), "mesh: project_with_tol rejected although every nearest face accepts", da);
                }
                if let Some((prj, id, _)) = res {
                    r.check((id as usize) < nf && (qq - prj.point).norm() <= bb.dmin + tc.t(bb.dmin), "mesh: project_with_tol reports a point at the minimum distance", da);
                }
                if bb.dmin > tiny {
                    r.check(m.project_with_tol(&arg, 0.5 * bb.dmin, ma, *tf).is_none(), "mesh: project_with_tol returns nothing when the true distance exceeds the distance cap", da);
                }
            }
        }

        // deviation of the query from the mesh, both modes, at every distance and on both sides
        if opts.deviation {
            let near: Vec<usize> = (0..nf).filter(|&f| b.d[f] <= b.dmin + tc.t(b.dmin)).collect();
            let dev = m.measure_point_deviation(q, DistMode::ToPoint);
            let val = dev.value();
            let dd = || format!("{}; brute-force distance {:?}; measure_point_deviation(ToPoint) value {:?} a ({:?}, {:?}, {:?})", d(), b.dmin, val, dev.a.x, dev.a.y, dev.a.z);
            r.check(dev.b == *q && ((q - dev.a).norm() - b.dmin).abs() <= tc.t(b.dmin), "measure_point_deviation: a is a closest point of the mesh (brute force), b is the query", dd);
            if b.dmin >= 1.000001e-6 + tc.t(b.dmin) {
                r.check((val.abs() - b.dmin).abs() <= tc.t(b.dmin), "measure_point_deviation (ToPoint): the magnitude of the deviation equals the distance from the query to the closest point (brute force)", dd);
            } else {
                r.check(val.abs() <= b.dmin + tc.t(b.dmin) && b.dmin - val.abs() <= 1.000001e-6 + tc.t(b.dmin), "measure_point_deviation (ToPoint), query closer than 1e-6: the magnitude differs from the distance to the closest point by less than the documented epsilon 1e-6 and never exceeds it", dd);
            }
            let sides: Vec<f64> = near.iter().map(|&f| normals[f].dot(&(q - b.cp[f]))).collect();
            if b.dmin >= 1.000001e-6 + tiny && sides.iter().all(|s| *s > 1e-3 * b.dmin) { r.check(val > 0.0, "measure_point_deviation (ToPoint): positive on the outward-normal side of every nearest face", dd); }
            if b.dmin >= 1.000001e-6 + tiny && sides.iter().all(|s| *s < -1e-3 * b.dmin) { r.check(val < 0.0, "measure_point_deviation (ToPoint): negative behind every nearest face", dd); }
            let pl = m.measure_point_deviation(q, DistMode::ToPlane).value();
            r.check(sides.iter().any(|s| (s - pl).abs() <= tc.t(b.dmin)), "measure_point_deviation (ToPlane): the deviation is the component of the offset along the normal of a nearest face", || format!("{}; ToPlane value {:?}, normal components for the nearest faces {:?}", d(), pl, sides));
        }
    }
    // indices_in_tol == the indices accepted by project_with_tol: the whole list, the empty list, 1 and 2 points, duplicates
    let k = used.len();
    let mut lists: Vec<(&str, Vec<Point3>)> = vec![("all queries", used.clone()), ("no point", vec![])];
    if k >= 3 {
        lists.push(("one point", vec![used[k / 2]]));
        lists.push(("two points", vec![used[0], used[k - 1]]));
        lists.push(("the same point twice", vec![used[k / 3], used[k / 3]]));
        let mut dup = vec![];
        for (i, p) in used.iter().enumerate() { dup.push(*p); if i % 3 == 0 { dup.push(*p); } if i % 7 == 0 { dup.push(used[0]); } }
        lists.push(("all queries, every third one twice in a row and the first one again after every seventh", dup));
    }
    for (ln, list) in lists.iter() {
        for (tn, tf) in tfs.iter() {
            for &ma in [0.0, 0.5, 1.5, PI].iter() { for cap in [0.3 * sc, 1.25 * sc] {
                // indices whose verdict hangs on rounding (distance within tolerance of the cap) are not compared here: the list is
                // compared with the single-point function, which takes the same decision
                let got = m.indices_in_tol(list, cap, ma, *tf);
                let want: Vec<usize> = (0..list.len()).filter(|&i| m.project_with_tol(&list[i], cap, ma, *tf).is_some()).collect();
                r.check(got == want, "mesh: indices_in_tol lists exactly the indices that project_with_tol accepts, in order", || format!("{} list: {} ({} points), max_dist {:?} max_angle {:?} transform {}; got {} indices, expected {}", name, ln, list.len(), cap, ma, tn, got.len(), want.len()));
            } }
        }
    }
}

fn meshes_w5(r: &mut Report) {
    struct MF { name: String, v: Vec<V3>, f: Vec<[u32; 3]>, fine: f64, nv: usize, gridn: f64, frames: Vec<Frame>, solid: Vec<bool>, inside: Option<fn(&V3) -> bool>, opts: MeshOpts }
    let fa = frames_all();
    // meshes are not taken to 2^-30: parry's Triangle::normal() treats faces with |cross product| < 2.2e-16 as degenerate
    // (known finding: Mesh::surf_closest_to panics there)
    let mesh_frames_all = || vec![fa[0], fa[1], fa[2], fa[3], fa[4], fa[6], fa[7]];
    let mesh_frames_few = || vec![fa[0], fa[2], fa[4]];
    let mut fams: Vec<MF> = vec![];
    for (nx, ny) in [(4usize, 4usize), (7, 5), (23, 23), (46, 46)] {
        let (v, f) = gen_heightfield(nx, ny, 1.0, 1.0, 0.25, false, false);
        let small = nx * ny <= 64;
        fams.push(MF { name: format!("height field {}x{} unit cells, z = ((3i+5j)%4)/4, alternating diagonals", nx, ny), v, f, fine: 0.125, nv: if small { 12 } else { 8 }, gridn: if small { 8.0 } else { 6.0 }, frames: if small { mesh_frames_all() } else { mesh_frames_few() }, solid: vec![false], inside: None, opts: MeshOpts { deviation: true, transforms: small, maxq: usize::MAX } });
    }
    {
        let (v, f) = gen_heightfield(256, 256, 1.0, 1.0, 0.25, false, true);
        fams.push(MF { name: "height field 256x256 unit cells (vertex ids >= 2^16, numbered in reverse)".into(), v, f, fine: 0.125, nv: 3, gridn: 2.0, frames: vec![fa[0]], solid: vec![false], inside: None, opts: MeshOpts { deviation: true, transforms: false, maxq: if super::thorough() { 400 } else { 40 } } });
    }
    let (v, f) = gen_heightfield(7, 5, 1.0, 1.0, 0.25, true, true);
    fams.push(MF { name: "height field 7x5, every third face with the opposite winding, vertex ids reversed".into(), v, f, fine: 0.125, nv: 12, gridn: 8.0, frames: mesh_frames_few(), solid: vec![false], inside: None, opts: MeshOpts { deviation: true, transforms: true, maxq: usize::MAX } });
    let (v, f) = gen_heightfield(64, 1, 0.25, 0.25, 0.0625, false, false);
    fams.push(MF { name: "long thin strip 64x1 cells of 0.25 x 0.25, z = ((3i+5j)%4)/16".into(), v, f, fine: 0.0625, nv: 12, gridn: 16.0, frames: mesh_frames_few(), solid: vec![false], inside: None, opts: MeshOpts { deviation: true, transforms: true, maxq: usize::MAX } });
    // two nested, nearly coincident sheets 2^-10 apart
    let (mut v, mut f) = gen_heightfield(6, 6, 1.0, 1.0, 0.25, false, false);
    let nv0 = v.len() as u32;
    let (v2, f2) = gen_heightfield(6, 6, 1.0, 1.0, 0.25, false, true);
    v.extend(v2.iter().map(|p| (p.0, p.1, p.2 + 1.0 / 1024.0)));
    f.extend(f2.iter().map(|t| [t[0] + nv0, t[1] + nv0, t[2] + nv0]));
    fams.push(MF { name: "two height fields 6x6 lying 2^-10 apart (second one numbered in reverse)".into(), v, f, fine: 1.0 / 4096.0, nv: 16, gridn: 8.0, frames: mesh_frames_few(), solid: vec![false], inside: None, opts: MeshOpts { deviation: true, transforms: false, maxq: usize::MAX } });
    // every face listed twice, vertices of the second copy duplicated
    let (mut v, mut f) = gen_heightfield(3, 2, 1.0, 1.0, 0.25, false, false);
    let nv0 = v.len() as u32;
    let fcopy = f.clone();
    v.extend(v.clone());
    f.extend(fcopy.iter().map(|t| [t[0] + nv0, t[1] + nv0, t[2] + nv0]));
    f.extend(fcopy.iter().cloned());
    fams.push(MF { name: "height field 3x2 with every face listed three times (once through duplicated vertices)".into(), v, f, fine: 0.125, nv: 12, gridn: 8.0, frames: vec![fa[0]], solid: vec![false], inside: None, opts: MeshOpts { deviation: true, transforms: false, maxq: usize::MAX } });
    fn in_box234(q: &V3) -> bool { q.0 > 0.0 && q.0 < 2.0 && q.1 > 0.0 && q.1 < 3.0 && q.2 > 0.0 && q.2 < 4.0 }
    fn in_octa(q: &V3) -> bool { q.0.abs() + q.1.abs() + q.2.abs() < 2.0 }
    for k in [4usize, 16] {
        let (v, f) = gen_tess_box(2.0, 3.0, 4.0, k);
        fams.push(MF { name: format!("box 2x3x4, every side a {}x{} grid with its own vertices", k, k), v, f, fine: 0.125, nv: 12, gridn: 8.0, frames: if k == 4 { vec![fa[0], fa[1], fa[3], fa[4], fa[7]] } else { mesh_frames_few() }, solid: vec![false, true], inside: Some(in_box234), opts: MeshOpts { deviation: true, transforms: k == 4, maxq: usize::MAX } });
    }
    let (v, f) = gen_octahedron(2.0);
    fams.push(MF { name: "octahedron |x|+|y|+|z| = 2 (a solid that does not fill its bounding box)".into(), v, f, fine: 0.125, nv: 8, gridn: 8.0, frames: vec![fa[0], fa[1], fa[3], fa[4], fa[6]], solid: vec![false, true], inside: Some(in_octa), opts: MeshOpts { deviation: true, transforms: true, maxq: usize::MAX } });

    // SEQUENCES and other constructors: the same clauses after Mesh::transform (query, move the mesh, query again: the search
    // structure must follow the vertices), after Mesh::append, and for a mesh built by new_with_options(merge, delete)
    {
        let t0 = std::time::Instant::now();
        let (v, f) = gen_heightfield(7, 5, 1.0, 1.0, 0.25, false, false);
        let qs = mesh_queries_w(&v, &f, 0.125, 8, 6.0);
        let verts: Vec<Point3> = v.iter().map(|p| Point3::new(p.0, p.1, p.2)).collect();
        let q0: Vec<Point3> = qs.iter().map(|p| Point3::new(p.0, p.1, p.2)).collect();
        let opts = MeshOpts { deviation: true, transforms: false, maxq: usize::MAX };
        let mut m = Mesh::new(verts.clone(), f.clone(), false);
        let moves = [
            ("translated by (2^10, -2^10, 3*2^10)", Iso3::from_parts(Translation3::new(P10, -P10, 3.0 * P10), UnitQuaternion::identity())),
            ("then turned by a quarter about z and moved by (-1, 0.5, 2)", Iso3::from_parts(Translation3::new(-1.0, 0.5, 2.0), UnitQuaternion::from_axis_angle(&Vector3::z_axis(), PI / 2.0))),
            ("then moved back by (0, 0, -2^10)", Iso3::from_parts(Translation3::new(0.0, 0.0, -P10), UnitQuaternion::identity())),
        ];
        let mut total = Iso3::identity();
        let _ = m.surf_closest_to(&q0[0]);
        for (mn, mv) in moves.iter() {
            m.transform(mv);
            total = mv * total;
            let q: Vec<Point3> = q0.iter().map(|p| total * p).collect();
            let mag = m.vertices().iter().fold(0.0f64, |a, p| a.max(p.coords.amax()));
            check_mesh_w(r, &format!("height field 7x5 after Mesh::transform: {}", mn), &m, Tc { s: 1.0, m: mag }, &|_| false, &q, &opts);
        }
        // append: a second sheet 2 above, appended after the first one has been queried
        let mut m = Mesh::new(verts.clone(), f.clone(), false);
        let _ = m.surf_closest_to(&q0[0]);
        let other = Mesh::new(verts.iter().map(|p| Point3::new(p.x, p.y, p.z + 2.0)).collect(), f.clone(), false);
        m.append(&other).unwrap();
        check_mesh_w(r, "height field 7x5 + Mesh::append of the same sheet 2 higher", &m, Tc { s: 1.0, m: 8.0 }, &|_| false, &q0, &opts);
        // new_with_options: duplicates merged, degenerate faces deleted (face ids are those of the cleaned mesh)
        let (bv, bf) = gen_tess_box(2.0, 3.0, 4.0, 4);
        let bq: Vec<Point3> = mesh_queries_w(&bv, &bf, 0.125, 8, 6.0).iter().map(|p| Point3::new(p.0, p.1, p.2)).collect();
        for solid in [false, true] {
            if let Ok(m) = Mesh::new_with_options(bv.iter().map(|p| Point3::new(p.0, p.1, p.2)).collect(), bf.clone(), solid, true, true, None) {
                check_mesh_w(r, "box 2x3x4 tessellated 4x4 per side through Mesh::new_with_options(merge_duplicates, delete_degenerate)", &m, Tc { s: 1.0, m: 4.0 }, &|q| q.x > 0.0 && q.x < 2.0 && q.y > 0.0 && q.y < 3.0 && q.z > 0.0 && q.z < 4.0, &bq, &opts);
            } else {
                r.check(false, "mesh: new_with_options builds the tessellated box", || "box 2x3x4, 4x4 per side".to_string());
            }
        }
        if timing() { eprintln!("C02 timing: {:.2} s: sequences / constructors", t0.elapsed().as_secs_f64()); }
    }
    for fam in fams.iter() {
        let t0 = std::time::Instant::now();
        let qs = mesh_queries_w(&fam.v, &fam.f, fam.fine, fam.nv, fam.gridn);
        for fr in fam.frames.iter() {
            let ap = |p: &V3| Point3::new(p.0 * fr.s + fr.o[0], p.1 * fr.s + fr.o[1], p.2 * fr.s + fr.o[2]);
            let verts: Vec<Point3> = fam.v.iter().map(ap).collect();
            let mag = verts.iter().fold(0.0f64, |a, p| a.max(p.coords.amax()));
            let tc = Tc { s: fr.s, m: mag };
            let stride = if fam.opts.maxq >= qs.len() { 1 } else { (qs.len() + fam.opts.maxq - 1) / fam.opts.maxq };
            let q3: Vec<Point3> = qs.iter().step_by(stride.max(1)).map(ap).collect();
            let inv = |q: &Point3| ((q.x - fr.o[0]) / fr.s, (q.y - fr.o[1]) / fr.s, (q.z - fr.o[2]) / fr.s);
            for &solid in fam.solid.iter() {
                let m = Mesh::new(verts.clone(), fam.f.clone(), solid);
                let nm = format!("{}, {}", fam.name, fr.tag);
                let ins = fam.inside;
                check_mesh_w(r, &nm, &m, tc, &|q| match ins { Some(g) => g(&inv(q)), None => false }, &q3, &fam.opts);
            }
        }
        if timing() { eprintln!("C02 timing: {:.2} s, {} queries: {}", t0.elapsed().as_secs_f64(), qs.len(), fam.name); }
    }
}

pub fn run() -> Option<Report> {
    let mut r = Report::new("curves: all 2..=3-vertex sequences over the 3x3 grid (2D, x force_closed) / over {0,1}^3 (3D), 7 + 5 fixed polylines with 4..=33 vertices (long thin, nested, nearly coincident, self-crossing, doubled back); meshes: box, box + disjoint box, box + nested box, two-triangle strip, two nearly coincident triangles, long thin quad, solid and non-solid; queries on half/quarter-integer grids reaching 1 beyond the bounding box plus far-outside points incl. EXTREMELY far ones (1e5 .. 1e8 units: 1e4 .. 1e8 x the size of the entity) (inside points for non-solid meshes only); caps 0.5*d, d+0.5, 2d+1, 0.25, 1.25, 5 (never within 1e-3 of the true distance d); max_angle in {0.1, 0.5, 1, 1.5, 2} rad with a 1e-6 rad undecided margin; transforms None / translation / quarter turn + translation; oracle = brute force over all segments / triangles, tolerance 1e-9 relative; NEAR-SURFACE: box 2x3x4 (solid and not), two-triangle strip, long thin quad, open roof x base points (every corner, two points inside every triangle edge, one inside every face) x 30 offset directions (6 axes, 24 of type (+-1,+-2,+-3)) x offsets 1e-7, 1e-6, 1e-5, 1e-4, 1e-3, 1e-2: closest point / distance / normal and Mesh::measure_point_deviation (ToPoint magnitude and sign, ToPlane) against the brute-force distance (below the documented 1e-6 epsilon the ToPoint magnitude is judged to 1e-6); UV WRAPPERS: Mesh::uv_with_tol on 3 UV-mapped meshes (open roof with the unfolded UV, two-triangle strip with uv = (x, y), box 2x3x4 with one chart per face) x integer / half-integer query grids reaching 1 beyond the bounding box plus far points (queries closer than 1e-6 skipped) x transform None / Some(translation) / Some(quarter turn + translation) / Some(0.7 rad about (1,2,3) + translation) / Some(1e-3 rad about x + translation) x caps {d+0.5, d/2, 0.25, 1.25} x max_angle {0.1, 0.5, 1, 1.5, 2}: nothing is returned beyond the cap, acceptance follows the angle of the offset of (transform * point) to the normal of the nearest face(s), uv / depth are those of a nearest non-rejecting face (brute force); WAVE 5 (parameter space): curves 2D and lifted to 3D: zigzags of 33 / 65 / 100 / 1000 / 4097 / 70001 vertices (thorough: 200001), square spirals of 40 / 200 / 1025 vertices (arms 0.5 apart), serpentines of 6 / 40 hairpin runs 2^-10 apart, a rectangle 8x3 walked from the middle of a side (explicitly closed / 0.25 gap / 1/16 gap with curve tolerance 1/8 = closed within tolerance only), long edges with irrational lengths next to edges of 5*2^-18, each in both numbering orders, force_closed both ways, in the frames: as is, shifted by 2^10 / 2^20 / 2^26, scaled by 2^-20 / 2^-30 / 2^10, scaled by 2^-20 at offset 1 (sizes >= 1000 in three frames only); queries: two grids reaching 1 beyond the box, vertices bit-equal and one ulp off, edge midpoints and quarter points, all displaced obliquely by 1/8 .. 2^-20, far points 2^20 .. 2^27 x scale; meshes: height fields 4x4 / 7x5 / 23x23 / 46x46 / 256x256 cells (32 .. 131072 faces, vertex ids >= 2^16; z = ((3i+5j)%4)/4), one with every third face wound the other way and reversed vertex ids, a long thin strip 64x1, two sheets 2^-10 apart, a height field with every face listed three times, a box 2x3x4 tessellated 4x4 / 16x16 per side with duplicated edge vertices (solid and not), an octahedron (solid and not), in the frames as is / shifted by 2^10, 2^20, 2^26 / scaled by 2^-20 (also at offset 1) / 2^10 (large meshes in three frames); queries: two grids reaching 1 beyond the box, corners / edge midpoints / an interior point of picked faces as is and displaced by +-fine along z, obliquely and in plane, far points; caps d+0.5, 2d+1, 1e9+8d, d/2, d(1+-1e-6), 0.25, 1.25, 5 (x scale); max_angle in {0, 0.1, 0.5, 1, 1.5, pi/2, 2, pi, 4}; transforms None / Some(identity) / translation / quarter turn + translation / translation by 2^20 x (1,-2,0.5) / quarter turn about x without translation; indices_in_tol on the whole list, the empty list, one point, two points, the same point twice, a list with repeated points; Mesh::measure_point_deviation (both modes) at every query; the 7x5 height field again after Mesh::transform three times in a row (far translation, quarter turn, back) and after Mesh::append of a second sheet, the tessellated box built by Mesh::new_with_options(merge_duplicates, delete_degenerate); tolerance 1e-9 x (scale + distance) + 16 ulp of the largest coordinate");
    curves(&mut r);
    meshes(&mut r);
    near_surface(&mut r);
    uv_wrappers(&mut r);
    curves_w5(&mut r);
    meshes_w5(&mut r);
    Some(r)
}
