//! C09 bounded: least-squares fits (polynomial, series line, circle) against their defining optimality conditions.
//! Polynomial sizes K = 2..=6 on asymmetric / offset / clustered abscissae with small integer or dyadic values (power
//! sums exact), with and without non-uniform positive weights; exact samples (coefficient recovery) and arbitrary data
//! (weighted normal equations). Circles: three-point circle on integer triples, circle fit on arcs of 60..360 degrees
//! from a ring of guesses, fixed-seed RANSAC on contaminated samples. Tolerances are scaled to the conditioning of
//! each family (stated next to it); every clause failure reports the data set.
//! ROUND 2: ordinates exactly 0.0 (incl. exactly K samples; a panic of least_squares is a failing input), a weight vector
//! with a zero, tightly clustered distinct dyadic abscissae (exact power sums, tolerance scaled to the conditioning), circle
//! fit from exactly 3..5 samples on small circles / short arcs in both BestFit modes incl. concentric guesses whose
//! residuals are exactly equal, RANSAC with min_r / max_r exactly equal to the generating radius.
//! ROUND 4: RANSAC on large inputs (>= 2000 points) whose point ORDER is correlated with circle membership (interleaved scans,
//! blocks): the inlier count of the result is taken over ALL points.
//! WAVE 5: parameter-space audit (notes/w5_audit_C09.md): magnitudes (scaled / offset abscissae, many samples, tiny / huge / far
//! circles), parameter relations (weights of huge ratio, all-equal weights, radius windows that exclude a better circle), exact
//! ties (duplicates, coincident points, one-ulp collinearity), shapes, evaluation helpers, sigma clipping that removes samples.
use super::{close, Report};
use crate::common::BestFit;
use crate::func1::{Func1, Polynomial, Series1};
use crate::geom2::{Circle2, Point2};

fn pw(x: f64, k: usize) -> f64 { let mut r = 1.0; for _ in 0..k { r *= x; } r }
fn horner(c: &[f64], x: f64) -> f64 { let mut y = 0.0; for k in (0..c.len()).rev() { y = y * x + c[k]; } y }

// ---------------------------------------------------------------- polynomial least squares
struct XSet { name: &'static str, xs: Vec<f64>, /// largest K used on this set, relative tolerance of recovered coefficients
    max_k: usize, tol: f64 }

fn xsets() -> Vec<XSet> {
    let c13: Vec<f64> = (-3..=3).map(|k| 1.0 + k as f64 / 8192.0).collect(); // seven values within 3.7e-4 of 1.0
    vec![
        XSet { name: "asymmetric integers", xs: vec![-2.0, -1.0, 0.0, 1.0, 3.0, 4.0, 6.0], max_k: 6, tol: 1e-6 },
        XSet { name: "offset from zero, dyadic", xs: vec![2.0, 2.5, 3.0, 3.25, 4.0, 4.5, 5.0, 5.75], max_k: 5, tol: 1e-4 },
        XSet { name: "uneven, both signs", xs: vec![-3.0, -2.75, -1.0, 0.5, 0.75, 2.0, 3.5], max_k: 6, tol: 1e-6 },
        XSet { name: "positive side only", xs: vec![0.0, 0.25, 0.5, 1.0, 1.5, 1.75, 2.0, 3.0, 3.5], max_k: 6, tol: 1e-6 },
        XSet { name: "clustered within 4e-4 of 1.0", xs: c13, max_k: 2, tol: 1e-5 },
        XSet { name: "clustered within 0.07 of -2.0", xs: (-4..=4).map(|k| -2.0 + k as f64 / 64.0).collect(), max_k: 3, tol: 1e-5 },
        // round 2: tightly clustered DISTINCT abscissae with dyadic values (all power sums exact; the determinant of the normal
        // matrix is tiny although the system is perfectly solvable).  The coefficient tolerance is scaled to the conditioning
        XSet { name: "six values k/256 in [0, 0.02]", xs: (0..6).map(|k| k as f64 / 256.0).collect(), max_k: 3, tol: TOL_CLUSTER_Q },
        XSet { name: "four values {2,3,4,6} * 2^-21 in [9.5e-7, 2.9e-6]", xs: [2.0, 3.0, 4.0, 6.0].iter().map(|k| k / 2097152.0).collect(), max_k: 2, tol: TOL_CLUSTER_L },
    ]
}
// measured on the reference build: <= 3e-11 (K = 3, normal matrix condition ~1e10) and <= 1e-15 (K = 2, closed-form 2x2 inverse)
const TOL_CLUSTER_Q: f64 = 1e-7;
const TOL_CLUSTER_L: f64 = 1e-9;
const WEIGHTS: [[f64; 9]; 2] = [[1.0, 2.0, 0.5, 3.0, 1.5, 0.25, 4.0, 2.0, 0.75], [5.0, 0.125, 1.0, 1.0, 2.5, 3.0, 0.5, 6.0, 0.25]];
const COEFFS: [[f64; 6]; 3] = [[1.0, -2.0, 3.0, 0.5, -1.0, 2.0], [-4.0, 1.0, 0.0, 2.0, 0.25, -0.5], [0.0, 0.0, 0.0, 0.0, 0.0, 1.0]];
const DATA: [[f64; 9]; 2] = [[3.0, -1.0, 4.0, 1.0, -5.0, 9.0, 2.0, -6.0, 5.0], [0.5, 0.25, -2.0, 7.0, 1.0, -3.0, 8.0, 2.0, -0.75]];

fn check_poly<const K: usize>(r: &mut Report, s: &XSet) {
    if K > s.max_k { return; }
    let n = s.xs.len();
    let wsets: Vec<Option<Vec<f64>>> = vec![None, Some(WEIGHTS[0][..n].to_vec()), Some(WEIGHTS[1][..n].to_vec())];
    for w in wsets.iter() {
        let wv: Vec<f64> = match w { Some(v) => v.clone(), None => vec![1.0; n] };
        // (a) exact samples of a polynomial of size K: that polynomial is returned
        for cf in COEFFS.iter() {
            let mut c = [0.0; K];
            for k in 0..K { c[k] = cf[k]; }
            if cf[5] == 1.0 { c = [0.0; K]; c[K - 1] = 1.0; }
            let ys: Vec<f64> = s.xs.iter().map(|x| horner(&c, *x)).collect();
            r.case();
            let fit = Polynomial::<K>::least_squares(&s.xs, &ys, w.as_deref());
            let cmax = c.iter().fold(1.0f64, |a, b| a.max(b.abs()));
            let ok = (0..K).all(|k| (fit.c[k] - c[k]).abs() <= s.tol * cmax);
            r.check(ok, "exact samples of a polynomial of the fitted size return that polynomial", || format!("K={} abscissae '{}' {:?} weights {:?} coefficients {:?}: fit {:?}", K, s.name, s.xs, w, c, fit.c));
            // the fitted polynomial evaluates (Func1::f) to the samples
            let ymax = ys.iter().fold(1.0f64, |a, b| a.max(b.abs()));
            r.check((0..n).all(|i| (fit.f(s.xs[i]) - ys[i]).abs() <= s.tol * 100.0 * ymax), "fit of exact samples interpolates them", || format!("K={} abscissae '{}' {:?} weights {:?} coefficients {:?}: fit {:?}", K, s.name, s.xs, w, c, fit.c));
        }
        // (b) arbitrary data: weighted normal equations (residual orthogonal to every monomial column), local optimality
        for d in DATA.iter() {
            let ys = d[..n].to_vec();
            r.case();
            let fit = Polynomial::<K>::least_squares(&s.xs, &ys, w.as_deref());
            let desc = || format!("K={} abscissae '{}' {:?} weights {:?} data {:?}: fit {:?}", K, s.name, s.xs, w, ys, fit.c);
            let res: Vec<f64> = (0..n).map(|i| ys[i] - horner(&fit.c, s.xs[i])).collect();
            let mut ok = true;
            for j in 0..K {
                let dot: f64 = (0..n).map(|i| wv[i] * pw(s.xs[i], j) * res[i]).sum();
                let scale: f64 = (0..n).map(|i| wv[i] * pw(s.xs[i], j).abs() * (ys[i].abs() + (0..K).map(|k| (fit.c[k] * pw(s.xs[i], k)).abs()).sum::<f64>())).sum();
                if !(dot.abs() <= s.tol * scale) { ok = false; }
            }
            r.check(ok, "residual orthogonal to every monomial column in the weighted inner product", desc);
            let ss = |c: &[f64]| -> f64 { (0..n).map(|i| wv[i] * (ys[i] - horner(c, s.xs[i])).powi(2)).sum() };
            let base = ss(&fit.c);
            let mut opt = true;
            for j in 0..K { for h in [0.03125, -0.03125, 0.5, -0.5] {
                let mut c2 = fit.c; c2[j] += h * (1.0 + c2[j].abs());
                if !(ss(&c2) >= base * (1.0 - 1e-9) - 1e-12) { opt = false; }
            } }
            r.check(opt, "no perturbed coefficient vector has a smaller weighted sum of squares", desc);
        }
    }
}

// ---------------------------------------------------------------- round 2: ordinates exactly 0.0, exactly K samples, zero weights
/// least_squares behind catch_unwind: a panic of the real code (singular normal matrix) is reported as a failing input
fn fit_caught<const K: usize>(xs: &[f64], ys: &[f64], w: Option<&[f64]>) -> Option<Polynomial<K>> {
    std::panic::catch_unwind(|| Polynomial::<K>::least_squares(xs, ys, w)).ok()
}
/// coefficients (lowest first) of prod (x - roots[j]) * (x + 5)^(K - 1 - roots.len()); small integers, exact
fn poly_with_roots<const K: usize>(roots: &[f64]) -> [f64; K] {
    let mut c = vec![1.0];
    let mut fs: Vec<f64> = roots.to_vec();
    while fs.len() < K - 1 { fs.push(-5.0); }
    for f in fs.iter() {
        let mut n = vec![0.0; c.len() + 1];
        for (k, v) in c.iter().enumerate() { n[k + 1] += v; n[k] -= f * v; }
        c = n;
    }
    let mut out = [0.0; K];
    for k in 0..K { out[k] = c[k]; }
    out
}
fn check_poly_zeros<const K: usize>(r: &mut Report) {
    let all = [-1.0, 0.0, 1.0, 3.0, 2.0, -2.0, 4.0, 6.0];
    let zdata: [[f64; 8]; 2] = [[0.0, -1.0, 0.0, 1.0, 0.0, 0.0, 2.0, 0.0], [3.0, 0.0, 0.0, 0.0, -2.0, 0.0, 0.5, 0.0]];
    let zw = [1.0, 2.0, 0.0, 3.0, 1.5, 0.25, 4.0, 2.0];
    let tol = 1e-6;
    for n in [K, K + 1, 8] {
        if n > all.len() { continue; }
        let xs = all[..n].to_vec();
        let mut wsets: Vec<Option<Vec<f64>>> = vec![None, Some(WEIGHTS[0][..n].to_vec())];
        if n >= K + 1 { wsets.push(Some(zw[..n].to_vec())); }
        for w in wsets.iter() {
            let wv: Vec<f64> = match w { Some(v) => v.clone(), None => vec![1.0; n] };
            // (a) exact samples of a polynomial with 1 / K-1 of its roots at the abscissae: ordinates exactly 0.0 there
            for m in [1, K - 1] {
                let c: [f64; K] = poly_with_roots::<K>(&xs[..m]);
                let ys: Vec<f64> = xs.iter().map(|x| horner(&c, *x)).collect();
                let zeros = ys.iter().filter(|y| **y == 0.0).count();
                r.case();
                let desc = |f: &Option<Polynomial<K>>| format!("K={} abscissae {:?} ordinates {:?} ({} of them exactly 0.0) weights {:?} coefficients {:?}: fit {:?}", K, xs, ys, zeros, w, c, f.as_ref().map(|p| p.c));
                let fit = fit_caught::<K>(&xs, &ys, w.as_deref());
                r.check(zeros >= m && fit.is_some(), "least_squares returns (no panic) on >= K distinct abscissae with ordinates that are exactly 0.0", || desc(&fit));
                if let Some(f) = &fit {
                    let cmax = c.iter().fold(1.0f64, |a, b| a.max(b.abs()));
                    r.check((0..K).all(|k| (f.c[k] - c[k]).abs() <= tol * cmax), "exact samples of a polynomial of the fitted size return that polynomial", || desc(&fit));
                }
            }
            // (b) arbitrary data with several ordinates exactly 0.0: weighted normal equations; with exactly K samples the fit interpolates
            for d in zdata.iter() {
                let ys = d[..n].to_vec();
                r.case();
                let fit = fit_caught::<K>(&xs, &ys, w.as_deref());
                let desc = |f: &Option<Polynomial<K>>| format!("K={} abscissae {:?} data {:?} weights {:?}: fit {:?}", K, xs, ys, w, f.as_ref().map(|p| p.c));
                r.check(fit.is_some(), "least_squares returns (no panic) on >= K distinct abscissae with ordinates that are exactly 0.0", || desc(&fit));
                if let Some(f) = &fit {
                    let res: Vec<f64> = (0..n).map(|i| ys[i] - horner(&f.c, xs[i])).collect();
                    let mut ok = true;
                    for j in 0..K {
                        let dot: f64 = (0..n).map(|i| wv[i] * pw(xs[i], j) * res[i]).sum();
                        let scale: f64 = (0..n).map(|i| wv[i] * pw(xs[i], j).abs() * (ys[i].abs() + (0..K).map(|k| (f.c[k] * pw(xs[i], k)).abs()).sum::<f64>())).sum();
                        if !(dot.abs() <= tol * scale) { ok = false; }
                    }
                    r.check(ok, "residual orthogonal to every monomial column in the weighted inner product", || desc(&fit));
                    if n == K {
                        let ymax = ys.iter().fold(1.0f64, |a, b| a.max(b.abs()));
                        r.check(res.iter().all(|e| e.abs() <= tol * 100.0 * ymax), "fit of exactly K samples interpolates them", || desc(&fit));
                    }
                }
            }
        }
    }
}

fn check_series(r: &mut Report) {
    let c13: Vec<f64> = (-2..=2).map(|k| 1.0 + k as f64 / 8192.0).collect();
    let sets: Vec<(&str, Vec<f64>, f64)> = vec![
        ("asymmetric integers", vec![-2.0, -1.0, 0.0, 1.0, 3.0, 4.0, 6.0], 1e-9),
        ("offset from zero", vec![10.0, 10.5, 11.0, 12.0, 12.25, 14.0], 1e-9),
        ("two points", vec![1.0, 3.0], 1e-9),
        ("five distinct values within 2.5e-4 of 1.0", c13, 1e-5),
        ("distinct values within 0.004 of 0", vec![-0.00390625, -0.001953125, 0.0, 0.0009765625, 0.00390625], 1e-7),
        ("four values {2,3,4,6} * 2^-21 in [9.5e-7, 2.9e-6]", [2.0, 3.0, 4.0, 6.0].iter().map(|k| k / 2097152.0).collect(), 1e-9),
        ("six values k/256 in [0, 0.02]", (0..6).map(|k| k as f64 / 256.0).collect(), 1e-9),
    ];
    for (name, xs, tol) in sets.iter() {
        let n = xs.len();
        let mut ysets: Vec<(Vec<f64>, Option<(f64, f64)>)> = vec![];
        for (m, b) in [(3.0, -2.0), (-0.5, 4.0), (128.0, 1.0)] { ysets.push((xs.iter().map(|x| m * x + b).collect(), Some((m, b)))); }
        for d in DATA.iter() { ysets.push((d[..n].to_vec(), None)); }
        for (ys, exact) in ysets.iter() {
            r.case();
            let s = match Series1::try_new(xs.clone(), ys.clone()) { Ok(s) => s, Err(_) => { r.check(false, "Series1::try_new accepts ascending abscissae", || format!("{:?}", xs)); continue; } };
            let line = s.best_fit_line();
            let fit = Polynomial::<2>::least_squares(xs, ys, None);
            let desc = || format!("Series1 '{}' x {:?} y {:?}: best_fit_line [b, m] = {:?}, degree-1 fit {:?}", name, xs, ys, line.c, fit.c);
            let scale = 1.0 + fit.c[0].abs().max(fit.c[1].abs());
            r.check((line.c[0] - fit.c[0]).abs() <= tol * scale && (line.c[1] - fit.c[1]).abs() <= tol * scale, "Series1::best_fit_line agrees with the degree-1 least-squares fit", desc);
            if let Some((m, b)) = exact {
                let sc = 1.0 + m.abs().max(b.abs());
                r.check((line.c[1] - m).abs() <= tol * sc && (line.c[0] - b).abs() <= tol * sc, "Series1::best_fit_line of exact samples of a line returns that line", desc);
            }
            // normal equations of the line: sum res = 0, sum x*res = 0
            let res: Vec<f64> = (0..n).map(|i| ys[i] - (line.c[1] * xs[i] + line.c[0])).collect();
            let s0: f64 = res.iter().sum();
            let s1: f64 = (0..n).map(|i| xs[i] * res[i]).sum();
            let sc: f64 = (0..n).map(|i| (1.0 + xs[i].abs()) * (ys[i].abs() + (line.c[1] * xs[i]).abs() + line.c[0].abs())).sum();
            r.check(s0.abs() <= tol * sc && s1.abs() <= tol * sc, "Series1::best_fit_line residual orthogonal to the columns 1 and x", desc);
        }
    }
}

// ---------------------------------------------------------------- circles
fn check_three_points(r: &mut Report) {
    // general position: integer / dyadic triples with |orientation determinant| >= 1
    let pts: Vec<Point2> = [(0.0, 0.0), (4.0, 0.0), (0.0, 3.0), (-2.0, 5.0), (7.0, 7.0), (1.5, -2.25), (-6.0, -1.0), (10.0, 2.0), (100.0, 200.0), (103.0, 196.0)].iter().map(|(x, y)| Point2::new(*x, *y)).collect();
    for a in 0..pts.len() { for b in 0..pts.len() { for c in 0..pts.len() {
        if a == b || b == c || a == c { continue; }
        let (p0, p1, p2) = (pts[a], pts[b], pts[c]);
        let det = (p0.x - p1.x) * (p1.y - p2.y) - (p1.x - p2.x) * (p0.y - p1.y);
        if det.abs() < 1.0 { continue; }
        r.case();
        let desc = || format!("from_3_points({:?}, {:?}, {:?})", (p0.x, p0.y), (p1.x, p1.y), (p2.x, p2.y));
        match Circle2::from_3_points(p0, p1, p2) {
            Err(_) => r.check(false, "three points in general position yield a circle", desc),
            Ok(c) => {
                let ok = [p0, p1, p2].iter().all(|q| { let d = ((q.x - c.x()).powi(2) + (q.y - c.y()).powi(2)).sqrt(); (d - c.r()).abs() <= 1e-9 * (1.0 + c.r()) });
                r.check(ok && c.r().is_finite() && c.r() > 0.0, "three-point circle passes through its three points", || format!("{} -> centre ({:?}, {:?}) r {:?}", desc(), c.x(), c.y(), c.r()));
            }
        }
    } } }
    // collinear triples: exactly collinear (integers, dyadics) and collinear up to rounding (decimal base point and direction)
    let lines: [((f64, f64), (f64, f64)); 6] = [((0.0, 0.0), (1.0, 0.0)), ((1.0, 2.0), (0.0, 1.0)), ((-3.0, 1.0), (2.0, 1.0)), ((0.5, 0.25), (1.5, -2.0)),
        ((100.1, 200.3), (0.7, 1.3)), ((-7.3, 0.9), (0.3, -1.1))];
    let ts = [-3.0, -1.0, 0.0, 0.5, 1.0, 2.5, 7.0, 10.0];
    for (o, d) in lines.iter() { for a in 0..ts.len() { for b in 0..ts.len() { for c in 0..ts.len() {
        if a == b || b == c || a == c { continue; }
        let q = |t: f64| Point2::new(o.0 + d.0 * t, o.1 + d.1 * t);
        let (p0, p1, p2) = (q(ts[a]), q(ts[b]), q(ts[c]));
        r.case();
        let res = Circle2::from_3_points(p0, p1, p2);
        r.check(res.is_err(), "collinear points are rejected", || format!("from_3_points({:?}, {:?}, {:?}) (points {:?} + t*{:?}, t = {:?}, {:?}, {:?}) -> {:?}", (p0.x, p0.y), (p1.x, p1.y), (p2.x, p2.y), o, d, ts[a], ts[b], ts[c], res.as_ref().map(|c| (c.x(), c.y(), c.r())).map_err(|_| "Err")));
    } } } }
}

fn arc_points(cx: f64, cy: f64, rad: f64, a0_deg: f64, sweep_deg: f64, n: usize, amp: f64) -> Vec<Point2> {
    (0..n).map(|i| {
        let a = (a0_deg + sweep_deg * i as f64 / (n - 1) as f64).to_radians();
        // deterministic, asymmetric radial perturbation (zero when amp == 0)
        let k = i as f64;
        let e = amp * (0.5 * (((k * 7.0 + 3.0) % 11.0) / 11.0 - 0.35) + 0.5 * (3.0 * a).cos() * if i % 3 == 0 { 1.0 } else { 0.4 });
        Point2::new(cx + (rad + e) * a.cos(), cy + (rad + e) * a.sin())
    }).collect()
}
/// gradient of S(cx, cy, r) = sum (|p - c| - r)^2 and the scale sum 2*| |p - c| - r |
fn gradient(points: &[Point2], c: &Circle2) -> ([f64; 3], f64) {
    let mut g = [0.0; 3];
    let mut scale = 0.0;
    for q in points {
        let (vx, vy) = (q.x - c.x(), q.y - c.y());
        let l = (vx * vx + vy * vy).sqrt();
        let d = l - c.r();
        g[0] += 2.0 * d * (-vx / l); g[1] += 2.0 * d * (-vy / l); g[2] -= 2.0 * d;
        scale += 2.0 * d.abs();
    }
    (g, scale)
}
fn check_circle_fit(r: &mut Report) {
    let circles = [(0.0, 0.0, 1.0), (3.0, -2.0, 5.0), (-40.0, 25.0, 12.5), (0.5, 0.25, 0.125)];
    let arcs = [(0.0, 360.0), (17.0, 60.0), (200.0, 90.0), (-45.0, 135.0), (10.0, 200.0), (90.0, 270.0)];
    // guesses: centre displaced by up to 0.15 r, radius scaled by 0.85 .. 1.15
    let guesses = [(0.0, 0.0, 1.0), (0.1, 0.0, 0.9), (-0.1, 0.05, 1.1), (0.05, -0.15, 1.15), (-0.08, -0.08, 0.85), (0.0, 0.15, 1.0)];
    for (cx, cy, rad) in circles { for (a0, sw) in arcs { for (gx, gy, gs) in guesses {
        let guess = Circle2::new(cx + gx * rad, cy + gy * rad, rad * gs);
        // exact samples: centre and radius are recovered
        let pts = arc_points(cx, cy, rad, a0, sw, 40, 0.0);
        r.case();
        let desc = |res: &Option<Circle2>| format!("fitting_circle(40 samples of circle ({:?}, {:?}, r {:?}) over [{:?}, {:?}] degrees, guess ({:?}, {:?}, r {:?}), All) -> {:?}", cx, cy, rad, a0, a0 + sw, guess.x(), guess.y(), guess.r(), res.map(|c| (c.x(), c.y(), c.r())));
        let res = Circle2::fitting_circle(&pts, &guess, BestFit::All).ok();
        let ok = match res { Some(c) => (c.x() - cx).abs() <= 1e-6 * rad && (c.y() - cy).abs() <= 1e-6 * rad && (c.r() - rad).abs() <= 1e-6 * rad, None => false };
        r.check(ok, "circle fit from a nearby guess recovers centre and radius from exact samples (arc >= 60 degrees)", || desc(&res));
        // perturbed samples: a stationary point of the summed squared radial residuals
        for amp in [0.02, 0.08] {
            let pts = arc_points(cx, cy, rad, a0, sw, 40, amp * rad);
            r.case();
            let res = Circle2::fitting_circle(&pts, &guess, BestFit::All).ok();
            let d2 = || format!("perturbed by up to {:?}: {}", amp * rad, desc(&res));
            match res {
                None => r.check(false, "circle fit of perturbed samples terminates successfully", d2),
                Some(c) => { let (g, scale) = gradient(&pts, &c);
                    let gn = (g[0] * g[0] + g[1] * g[1] + g[2] * g[2]).sqrt();
                    r.check(gn <= 1e-5 * scale, "circle fit stops at a stationary point of the summed squared radial residuals", || format!("{} gradient {:?} (sum of 2|residual| = {:?})", d2(), g, scale)); }
            }
        }
    } } }
}

fn check_ransac(r: &mut Report) {
    // 36 samples of the generating circle (rounded to 2^-20) + outliers inside and outside; tolerance 0.01
    for (cx, cy, rad, n_out) in [(0.0, 0.0, 10.0, 8usize), (5.0, -3.0, 4.0, 12), (-20.0, 11.0, 7.5, 18)] {
        let q = |v: f64| (v * 1048576.0).round() / 1048576.0;
        let mut pts: Vec<Point2> = (0..36).map(|i| { let a = (i as f64 * 10.0 + 3.0).to_radians(); Point2::new(q(cx + rad * a.cos()), q(cy + rad * a.sin())) }).collect();
        for k in 0..n_out {
            let a = (k as f64 * 47.0 + 11.0).to_radians();
            let d = rad * (0.2 + 0.15 * ((k * 5) % 7) as f64) + if k % 2 == 0 { rad * 0.9 } else { 0.0 };
            // insert the outliers between the inliers
            pts.insert((k * 3 + 1) % pts.len(), Point2::new(q(cx + d * a.cos()), q(cy + d * a.sin())));
        }
        let tol = 0.01;
        let gen = Circle2::new(cx, cy, rad);
        let count = |c: &Circle2| pts.iter().filter(|p| c.distance_to(p).abs() < tol).count();
        r.case();
        let res = Circle2::ransac(&pts, tol, None, None, None);
        let desc = || format!("ransac({} points: 36 on circle ({:?}, {:?}, r {:?}) + {} outliers, tol 0.01, default iterations) -> {:?}; generating circle has {} inliers", pts.len(), cx, cy, rad, n_out, res.as_ref().map(|c| (c.x(), c.y(), c.r(), count(c))).map_err(|_| "Err"), count(&gen));
        r.check(match &res { Ok(c) => count(c) >= count(&gen), Err(_) => false }, "seeded RANSAC circle has at least as many inliers as the generating circle", desc);
        // with a radius window that contains the generating radius
        let res2 = Circle2::ransac(&pts, tol, Some(300), Some(rad * 0.9), Some(rad * 1.1));
        r.check(match &res2 { Ok(c) => count(c) >= count(&gen) && c.r() >= rad * 0.9 && c.r() <= rad * 1.1, Err(_) => false }, "seeded RANSAC circle within a radius window has at least as many inliers as the generating circle", || format!("{} ; windowed -> {:?}", desc(), res2.as_ref().map(|c| (c.x(), c.y(), c.r(), count(c))).map_err(|_| "Err")));
    }
}

// ---------------------------------------------------------------- round 2: few samples, small circles, sigma-clipping mode, exact radius bounds
fn mode_name(m: &BestFit) -> String { match m { BestFit::All => "All".to_string(), BestFit::Gaussian(s) => format!("Gaussian({:?})", s) } }
fn recovered(res: &Option<Circle2>, cx: f64, cy: f64, rad: f64) -> bool {
    match res { Some(c) => (c.x() - cx).abs() <= 1e-6 * rad && (c.y() - cy).abs() <= 1e-6 * rad && (c.r() - rad).abs() <= 1e-6 * rad, None => false }
}
/// the 12 integer points of x^2 + y^2 = 25 in counter-clockwise order starting at (5, 0)
const LATTICE: [(f64, f64); 12] = [(5.0, 0.0), (4.0, 3.0), (3.0, 4.0), (0.0, 5.0), (-3.0, 4.0), (-4.0, 3.0), (-5.0, 0.0), (-4.0, -3.0), (-3.0, -4.0), (0.0, -5.0), (3.0, -4.0), (4.0, -3.0)];

fn check_circle_fit_round2(r: &mut Report) {
    const CLAUSE: &str = "circle fit from a nearby guess recovers centre and radius from exact samples (arc >= 60 degrees)";
    // (a) exactly 3, 4, 5 samples on small circles / short arcs, both modes, ring of guesses + concentric guesses with a wrong radius
    let circles = [(0.0, 0.0, 2.5e-4), (3.0, -2.0, 2.5e-4), (0.5, 0.25, 1.0e-3), (0.0, 0.0, 1.0e-3), (-1.0, 2.0, 0.125)];
    let guesses = [(0.0, 0.0, 1.0), (0.1, 0.0, 0.9), (-0.1, 0.05, 1.1), (0.05, -0.15, 1.15), (-0.08, -0.08, 0.85), (0.0, 0.15, 1.0), (0.0, 0.0, 0.85), (0.0, 0.0, 1.15), (0.0, 0.0, 0.75)];
    for (cx, cy, rad) in circles { for n in [3usize, 4, 5] {
        let arcs = [(20.0, 60.0), (200.0, 100.0), (-45.0, 135.0), (10.0, 360.0 * (n - 1) as f64 / n as f64)];
        for (a0, sw) in arcs { for (gx, gy, gs) in guesses { for mode in [BestFit::All, BestFit::Gaussian(3.0)] {
            let guess = Circle2::new(cx + gx * rad, cy + gy * rad, rad * gs);
            let pts = arc_points(cx, cy, rad, a0, sw, n, 0.0);
            r.case();
            let res = Circle2::fitting_circle(&pts, &guess, mode).ok();
            r.check(recovered(&res, cx, cy, rad), CLAUSE, || format!("fitting_circle({} samples of circle ({:?}, {:?}, r {:?}) over [{:?}, {:?}] degrees: {:?}, guess ({:?}, {:?}, r {:?}), {}) -> {:?}", n, cx, cy, rad, a0, a0 + sw, pts.iter().map(|p| (p.x, p.y)).collect::<Vec<_>>(), guess.x(), guess.y(), guess.r(), mode_name(&mode), res.map(|c| (c.x(), c.y(), c.r()))));
        } } }
    } }
    // (b) exactly representable samples (integer points of x^2+y^2=25, shifted by integers / scaled by 1/16): with a concentric
    // guess all initial residuals are EXACTLY equal (standard deviation exactly 0.0 in the sigma-clipping mode)
    let subsets: Vec<(&str, Vec<usize>)> = vec![
        ("3 points", vec![2, 5, 9]), ("4 axis points", vec![0, 3, 6, 9]), ("5 points on a 106 degree arc", vec![10, 11, 0, 1, 2]),
        ("3 points on a 74 degree arc", vec![0, 1, 2]), ("all 12 points", (0..12).collect()),
    ];
    for (ox, oy, sc) in [(0.0, 0.0, 1.0), (7.0, -3.0, 1.0), (0.5, 0.25, 0.0625)] { for (sn, idx) in subsets.iter() {
        let pts: Vec<Point2> = idx.iter().map(|k| Point2::new(ox + LATTICE[*k].0 * sc, oy + LATTICE[*k].1 * sc)).collect();
        let rad = 5.0 * sc;
        for (gx, gy, gr) in [(0.0, 0.0, 4.0), (0.0, 0.0, 6.0), (0.0, 0.0, 5.5), (0.0, 0.0, 5.0), (0.25, -0.5, 4.5)] {
            let mut modes = vec![BestFit::All, BestFit::Gaussian(3.0)];
            if idx.len() <= 5 { modes.push(BestFit::Gaussian(2.0)); }
            for mode in modes {
                let guess = Circle2::new(ox + gx * sc, oy + gy * sc, gr * sc);
                r.case();
                let res = Circle2::fitting_circle(&pts, &guess, mode).ok();
                r.check(recovered(&res, ox, oy, rad), CLAUSE, || format!("fitting_circle({}: {:?} on circle ({:?}, {:?}, r {:?}), guess ({:?}, {:?}, r {:?}), {}) -> {:?}", sn, pts.iter().map(|p| (p.x, p.y)).collect::<Vec<_>>(), ox, oy, rad, guess.x(), guess.y(), guess.r(), mode_name(&mode), res.map(|c| (c.x(), c.y(), c.r()))));
            }
        }
    } }
    // (c) the 40-sample exact arcs of round 1 in the sigma-clipping mode
    let circles = [(0.0, 0.0, 1.0), (3.0, -2.0, 5.0), (-40.0, 25.0, 12.5), (0.5, 0.25, 0.125)];
    let arcs = [(0.0, 360.0), (17.0, 60.0), (200.0, 90.0), (-45.0, 135.0), (10.0, 200.0), (90.0, 270.0)];
    for (cx, cy, rad) in circles { for (a0, sw) in arcs { for (gx, gy, gs) in guesses {
        let guess = Circle2::new(cx + gx * rad, cy + gy * rad, rad * gs);
        let pts = arc_points(cx, cy, rad, a0, sw, 40, 0.0);
        r.case();
        let res = Circle2::fitting_circle(&pts, &guess, BestFit::Gaussian(3.0)).ok();
        r.check(recovered(&res, cx, cy, rad), CLAUSE, || format!("fitting_circle(40 samples of circle ({:?}, {:?}, r {:?}) over [{:?}, {:?}] degrees, guess ({:?}, {:?}, r {:?}), Gaussian(3.0)) -> {:?}", cx, cy, rad, a0, a0 + sw, guess.x(), guess.y(), guess.r(), res.map(|c| (c.x(), c.y(), c.r()))));
    } } }
}

fn check_ransac_round2(r: &mut Report) {
    // the 12 integer points of the generating circle (radius exactly 5.0; every three-point circle through three of them has
    // centre and radius exact) + 7 outliers; radius bounds exactly at the generating radius (documented as inclusive)
    for (ox, oy) in [(0.0, 0.0), (7.0, -3.0)] {
        let mut pts: Vec<Point2> = LATTICE.iter().map(|(x, y)| Point2::new(ox + x, oy + y)).collect();
        for (k, (x, y)) in [(1.0, 1.0), (2.0, -1.0), (7.0, 7.0), (-6.0, 2.0), (0.0, 3.0), (-8.0, -8.0), (2.0, 6.0)].iter().enumerate() { pts.insert((k * 3 + 1) % pts.len(), Point2::new(ox + x, oy + y)); }
        let tol = 0.01;
        let gen = Circle2::new(ox, oy, 5.0);
        let count = |c: &Circle2| pts.iter().filter(|p| c.distance_to(p).abs() < tol).count();
        for (lo, hi) in [(None, Some(5.0)), (Some(5.0), None), (Some(5.0), Some(5.0)), (Some(2.5), Some(5.0)), (Some(5.0), Some(10.0)), (None, None)] {
            r.case();
            let res = Circle2::ransac(&pts, tol, None, lo, hi);
            let within = |c: &Circle2| lo.map_or(true, |v| c.r() >= v) && hi.map_or(true, |v| c.r() <= v);
            r.check(match &res { Ok(c) => count(c) >= count(&gen) && within(c), Err(_) => false }, "seeded RANSAC circle within a radius window has at least as many inliers as the generating circle",
                || format!("ransac({:?}: the 12 integer points of circle ({:?}, {:?}, r 5) + 7 outliers, tol 0.01, default iterations, min_r {:?}, max_r {:?}) -> {:?}; generating circle has {} inliers", pts.iter().map(|p| (p.x, p.y)).collect::<Vec<_>>(), ox, oy, lo, hi, res.as_ref().map(|c| (c.x(), c.y(), c.r(), count(c))).map_err(|_| "Err"), count(&gen)));
        }
    }
}

// ---------------------------------------------------------------- round 4: LARGE inputs whose ORDER correlates with circle membership
/// deterministic scatter over [-12, 12]^2 (Weyl sequence, no RNG)
fn scatter(k: usize) -> Point2 {
    let fx = (k as f64 * 0.6180339887498949).fract();
    let fy = (k as f64 * 0.41421356237309515 + 0.25).fract();
    Point2::new(-12.0 + 24.0 * fx, -12.0 + 24.0 * fy)
}
/// `n` points: 35% of them samples of the generating circle, 25% (at most the slots available) samples of a smaller
/// decoy circle, the rest scattered outliers.  `slot(i)` says what index i holds: 1 = generating circle, 2 = decoy,
/// 0 = outlier (a class whose samples are used up is continued with outliers)
fn ordered_cloud(n: usize, gen: (f64, f64, f64), decoy: (f64, f64, f64), slot: &dyn Fn(usize) -> u8) -> (Vec<Point2>, usize, usize) {
    let (n_gen, n_decoy) = (n * 35 / 100, n * 25 / 100);
    let (mut g, mut d, mut o) = (0usize, 0usize, 0usize);
    let mut pts = Vec::with_capacity(n);
    for i in 0..n {
        let s = slot(i);
        if s == 1 && g < n_gen {
            let a = 0.1 + 6.1 * g as f64 / n_gen as f64;
            pts.push(Point2::new(gen.0 + gen.2 * a.cos(), gen.1 + gen.2 * a.sin()));
            g += 1;
        } else if s == 2 && d < n_decoy {
            let a = 0.3 + 6.0 * d as f64 / n_decoy as f64;
            pts.push(Point2::new(decoy.0 + decoy.2 * a.cos(), decoy.1 + decoy.2 * a.sin()));
            d += 1;
        } else {
            pts.push(scatter(o));
            o += 1;
        }
    }
    (pts, g, d)
}
fn check_ransac_large(r: &mut Report) {
    const CLAUSE: &str = "seeded RANSAC circle has at least as many inliers as the generating circle (>= 2000 points, point order correlated with circle membership)";
    let tol = 1.0e-3;
    for (gen, decoy) in [((2.0, -1.0, 3.0), (-6.0, 4.0, 1.5)), ((-4.0, 3.0, 5.0), (6.5, -5.0, 2.0))] {
        for n in [2000usize, 3000, 5000] {
            let m = n / 1000; // 2, 3, 5: the period of the interleaved layouts
            let mut layouts: Vec<(String, Box<dyn Fn(usize) -> u8>)> = Vec::new();
            for dres in [0usize, 1, m - 1] {
                layouts.push((format!("interleaved: decoy samples on the indices i % {} == {}, generating samples on the other indices", m, dres), Box::new(move |i| if i % m == dres { 2 } else { 1 })));
            }
            layouts.push(("blocks: decoy samples first, generating samples last".to_string(), Box::new(move |i| if i < n * 3 / 10 { 2 } else if i >= n * 6 / 10 { 1 } else { 0 })));
            layouts.push(("blocks: generating samples first, decoy samples last".to_string(), Box::new(move |i| if i < n * 4 / 10 { 1 } else if i >= n * 7 / 10 { 2 } else { 0 })));
            layouts.push(("blocks: outliers first, then decoy samples, generating samples in the last 35%".to_string(), Box::new(move |i| if i >= n - n * 35 / 100 { 1 } else if i >= n * 3 / 10 { 2 } else { 0 })));
            for (lname, slot) in layouts.iter() {
                let (pts, g, d) = ordered_cloud(n, gen, decoy, slot.as_ref());
                let gc = Circle2::new(gen.0, gen.1, gen.2);
                let count = |c: &Circle2| pts.iter().filter(|p| c.distance_to(p).abs() < tol).count();
                let want = count(&gc);
                for (it, lo, hi) in [(None, None, None), (Some(400usize), Some(1.0), Some(8.0))] {
                    r.case();
                    let res = Circle2::ransac(&pts, tol, it, lo, hi);
                    let desc = || format!("ransac({} points [{}]: {} samples of circle {:?}, {} samples of decoy circle {:?}, the rest scattered; tol {:?}, iterations {:?}, min_r {:?}, max_r {:?}) -> {:?}; generating circle has {} inliers",
                        n, lname, g, gen, d, decoy, tol, it, lo, hi, res.as_ref().map(|c| (c.x(), c.y(), c.r(), count(c))).map_err(|_| "Err"), want);
                    r.check(g > d && want >= g && match &res { Ok(c) => count(c) >= want, Err(_) => false }, CLAUSE, desc);
                }
            }
        }
    }
}

// ---------------------------------------------------------------- round 4b: contamination just OUTSIDE the tolerance band
/// exact samples of the generating circle on a 1.6 rad arc + outliers radially offset by 1.4 .. 10 tolerances (alternating
/// inside / outside): wrong candidates through two samples and an outlier are supported by a majority of the points, but
/// by fewer than the generating circle
fn check_ransac_near_band(r: &mut Report) {
    const CLAUSE: &str = "seeded RANSAC circle has at least as many inliers as the generating circle (contamination a few tolerances off the circle)";
    for (cx, cy, rad) in [(2.0, -1.0, 10.0), (-3.0, 4.0, 4.0)] {
        let tol = 0.005 * rad;
        for n_in in [20usize, 26] { for n_out in [9usize, 11, 13] { for base in [0.007, 0.009, 0.012] { for interleave in [false, true] { for rot in 0..8usize {
            let mut pts: Vec<Point2> = (0..n_in).map(|i| { let a = 0.3 + i as f64 * (1.6 / (n_in as f64 - 1.0)); Point2::new(cx + rad * a.cos(), cy + rad * a.sin()) }).collect();
            for j in 0..n_out {
                let a = 0.35 + j as f64 * (1.5 / n_out as f64);
                let off = if j % 2 == 0 { 1.0 } else { -1.0 } * base * rad * (1.0 + 0.3 * j as f64);
                let q = Point2::new(cx + (rad + off) * a.cos(), cy + (rad + off) * a.sin());
                if interleave { pts.insert((2 * j + 1).min(pts.len()), q); } else { pts.push(q); }
            }
            let n = pts.len();
            pts.rotate_left((rot * 7) % n);
            let gen = Circle2::new(cx, cy, rad);
            let count = |c: &Circle2| pts.iter().filter(|p| c.distance_to(p).abs() < tol).count();
            let want = count(&gen);
            r.case();
            let res = Circle2::ransac(&pts, tol, None, None, None);
            r.check(want == n_in && match &res { Ok(c) => count(c) >= want, Err(_) => false }, CLAUSE,
                || format!("ransac({:?}: {} exact samples of circle ({:?}, {:?}, r {:?}) on a 1.6 rad arc + {} outliers radially offset by {:?} r * (1 + 0.3 j), alternating sides, {}, list rotated by {}; tol {:?}, default iterations) -> {:?}; generating circle has {} inliers",
                    pts.iter().map(|p| (p.x, p.y)).collect::<Vec<_>>(), n_in, cx, cy, rad, n_out, base, if interleave { "interleaved with the samples" } else { "appended" }, (rot * 7) % n, tol, res.as_ref().map(|c| (c.x(), c.y(), c.r(), count(c))).map_err(|_| "Err"), want));
        } } } } }
    }
}

// ================================================================ WAVE 5: parameter-space audit (notes/w5_audit_C09.md)
// Every family below is enumerated (no RNG); tolerances were measured on the unchanged tree (VERIF_C09_MEASURE=1 prints the
// worst value of every quantity compared with a tolerance) and fixed >= 100x above the worst value seen.
fn measuring() -> bool { std::env::var("VERIF_C09_MEASURE").is_ok() }
thread_local! { static MEAS: std::cell::RefCell<Vec<(String, f64)>> = std::cell::RefCell::new(Vec::new()); }
/// records the worst value of a measured quantity (only in measuring mode) and returns `v <= tol`
fn within(name: &str, v: f64, tol: f64) -> bool {
    if measuring() {
        MEAS.with(|m| { let mut m = m.borrow_mut();
            match m.iter_mut().find(|e| e.0 == name) { Some(e) => { if !(v <= e.1) { e.1 = v; } }, None => m.push((name.to_string(), v)) } });
    }
    v <= tol
}
fn dump_measurements() {
    if measuring() { MEAS.with(|m| for (k, v) in m.borrow().iter() { eprintln!("C09-MEASURE {:<70} {:e}", k, v); }); }
}
/// worst |fit_k - c_k| relative to the NATURAL magnitude of coefficient k on this abscissa range: (sum_j |c_j| xmax^j) / xmax^k
fn coeff_err(fit: &[f64], c: &[f64], xs: &[f64]) -> f64 {
    let xmax = xs.iter().fold(0.0f64, |a, b| a.max(b.abs()));
    let mag: f64 = (0..c.len()).map(|j| c[j].abs() * pw(xmax, j)).sum::<f64>().max(f64::MIN_POSITIVE);
    (0..c.len()).map(|k| (fit[k] - c[k]).abs() * pw(xmax, k) / mag).fold(0.0, f64::max)
}
/// worst | sum_i w_i x_i^j (y_i - p(x_i)) | over the monomial columns j, relative to the sum of the magnitudes of the terms
fn normal_eq_err(c: &[f64], xs: &[f64], ys: &[f64], wv: &[f64]) -> f64 {
    let n = xs.len();
    let mut worst = 0.0f64;
    for j in 0..c.len() {
        let dot: f64 = (0..n).map(|i| wv[i] * pw(xs[i], j) * (ys[i] - horner(c, xs[i]))).sum();
        let scale: f64 = (0..n).map(|i| wv[i] * pw(xs[i], j).abs() * (ys[i].abs() + (0..c.len()).map(|k| (c[k] * pw(xs[i], k)).abs()).sum::<f64>())).sum();
        let e = if scale > 0.0 { dot.abs() / scale } else { dot.abs() };
        if !(e <= worst) { worst = e; }
    }
    worst
}
/// worst |p(x_i) - y_i| relative to the largest magnitude reached by the terms of p (and by y) on the abscissae
fn interp_err(c: &[f64], xs: &[f64], ys: &[f64]) -> f64 {
    let mag = (0..xs.len()).map(|i| (0..c.len()).map(|k| (c[k] * pw(xs[i], k)).abs()).sum::<f64>() + ys[i].abs()).fold(f64::MIN_POSITIVE, f64::max);
    let mut worst = 0.0f64;
    for i in 0..xs.len() {
        let e = (horner(c, xs[i]) - ys[i]).abs() / mag;
        if !(e <= worst) { worst = e; }
    }
    worst
}
fn wss(c: &[f64], xs: &[f64], ys: &[f64], wv: &[f64]) -> f64 { (0..xs.len()).map(|i| wv[i] * (ys[i] - horner(c, xs[i])).powi(2)).sum() }
/// no coefficient vector on a +-3% / +-50% star around the fit has a smaller weighted sum of squares
fn locally_optimal(c: &[f64], xs: &[f64], ys: &[f64], wv: &[f64]) -> bool {
    let base = wss(c, xs, ys, wv);
    let xmax = xs.iter().fold(0.0f64, |a, b| a.max(b.abs()));
    let ymax = ys.iter().fold(0.0f64, |a, b| a.max(b.abs()));
    for j in 0..c.len() { for h in [0.03125, -0.03125, 0.5, -0.5] {
        let mut c2 = c.to_vec(); c2[j] += h * (ymax / pw(xmax, j) + c2[j].abs());
        if !(wss(&c2, xs, ys, wv) >= base * (1.0 - 1e-9) - 1e-300) { return false; }
    } }
    true
}
const CL_EXACT: &str = "exact samples of a polynomial of the fitted size return that polynomial";
const CL_INTERP: &str = "fit of exact samples interpolates them";
const CL_ORTHO: &str = "residual orthogonal to every monomial column in the weighted inner product";
const CL_OPT: &str = "no perturbed coefficient vector has a smaller weighted sum of squares";
const CL_NOPANIC: &str = "least_squares returns (no panic) on >= K distinct abscissae";
const CL_ONES: &str = "weights that are all equal give the unweighted fit";
const CL_ORDER: &str = "the fit does not depend on the order of the samples";

/// one abscissa family of wave 5: exact polynomial given by `c` (monomial coefficients, exactly representable), data vectors
/// taken cyclically from DATA, weight vectors `ws`; `tol` bounds coeff_err / interp_err / normal_eq_err
fn w5_poly_family<const K: usize>(r: &mut Report, name: &str, xs: &[f64], cs: &[[f64; K]], ws: &[Option<Vec<f64>>], tol: f64) {
    let n = xs.len();
    for w in ws.iter() {
        let wv: Vec<f64> = match w { Some(v) => v.clone(), None => vec![1.0; n] };
        let wdesc = || match w { Some(v) if v.len() > 12 => format!("Some([{:?}, {:?}, {:?}, .. {} values])", v[0], v[1], v[2], v.len()), other => format!("{:?}", other) };
        let xdesc = || if n > 12 { format!("[{:?}, {:?}, {:?}, .. {:?}] ({} values)", xs[0], xs[1], xs[2], xs[n - 1], n) } else { format!("{:?}", xs) };
        for c in cs.iter() {
            let ys: Vec<f64> = xs.iter().map(|x| horner(c, *x)).collect();
            r.case();
            let fit = fit_caught::<K>(xs, &ys, w.as_deref());
            let desc = || format!("K={} abscissae '{}' {} weights {} coefficients {:?}: fit {:?}", K, name, xdesc(), wdesc(), c, fit.as_ref().map(|p| p.c));
            r.check(fit.is_some(), CL_NOPANIC, desc);
            if let Some(f) = &fit {
                r.check(within(&format!("poly exact coeff  K={} {}", K, name), coeff_err(&f.c, c, xs), tol), CL_EXACT, desc);
                r.check(within(&format!("poly exact interp K={} {}", K, name), interp_err(&f.c, xs, &ys), tol), CL_INTERP, desc);
            }
        }
        for (di, d) in DATA.iter().enumerate() {
            // arbitrary data on the magnitude of the first exact polynomial's samples
            let ymag = xs.iter().map(|x| horner(&cs[0], *x).abs()).fold(0.0f64, f64::max).max(1.0);
            let ys: Vec<f64> = (0..n).map(|i| d[(i * 7 + di) % 9] * ymag / 8.0).collect();
            r.case();
            let fit = fit_caught::<K>(xs, &ys, w.as_deref());
            let desc = || format!("K={} abscissae '{}' {} weights {} data {:?}..: fit {:?}", K, name, xdesc(), wdesc(), &ys[..n.min(9)], fit.as_ref().map(|p| p.c));
            r.check(fit.is_some(), CL_NOPANIC, desc);
            if let Some(f) = &fit {
                r.check(within(&format!("poly data normal-eq K={} {}", K, name), normal_eq_err(&f.c, xs, &ys, &wv), tol), CL_ORTHO, desc);
                r.check(locally_optimal(&f.c, xs, &ys, &wv), CL_OPT, desc);
            }
        }
    }
}
/// coefficients (monomial basis, exact for the integer inputs used) of a + b (x - off) + c (x - off)^2
fn shifted<const K: usize>(off: f64, a: f64, b: f64, c: f64) -> [f64; K] {
    let mut out = [0.0; K];
    out[0] = a - b * off + if K > 2 { c * off * off } else { 0.0 };
    out[1] = b - if K > 2 { 2.0 * c * off } else { 0.0 };
    if K > 2 { out[2] = c; }
    out
}
fn scaled<const K: usize>(cf: &[f64; 6], s: f64) -> [f64; K] { let mut c = [0.0; K]; for k in 0..K { c[k] = cf[k] / pw(s, k); } c }

fn check_poly_w5<const K: usize>(r: &mut Report) {
    let base = [-2.0, -1.0, 0.0, 1.0, 3.0, 4.0, 6.0];
    let pos9 = [0.0, 0.25, 0.5, 1.0, 1.5, 1.75, 2.0, 3.0, 3.5];
    let none_and = |v: Vec<f64>| vec![None, Some(v)];
    // (1a) power-of-two scaling of the abscissae (coefficients scale exactly): tiny and huge abscissae
    let scales: &[f64] = match K { 2 => &[9.5367431640625e-7, 0.0009765625, 1024.0, 1048576.0], 3 => &[0.0009765625, 0.03125, 32.0, 1024.0], 4 => &[0.03125, 32.0], _ => &[0.25, 4.0] };
    for s in scales.iter() {
        let xs: Vec<f64> = base.iter().map(|x| x * s).collect();
        let cs: Vec<[f64; K]> = COEFFS[..2].iter().map(|cf| scaled::<K>(cf, *s)).collect();
        w5_poly_family::<K>(r, &format!("asymmetric integers * {:?}", s), &xs, &cs, &none_and(WEIGHTS[0][..7].to_vec()), 1e-7);
    }
    // (1b) integer abscissae offset far from zero (all power sums exact; K = 2 up to +-1e6, K = 3 at +-100: beyond that the
    // normal matrix of the monomial basis is numerically singular in f64, measured error 4e-3 at +-1000)
    let spread = [0.0, 1.0, 3.0, 4.0, 7.0, 9.0, 12.0, 13.0];
    let offs: &[f64] = match K { 2 => &[1000.0, -1000.0, 10000.0, 100000.0, 1000000.0, -1000000.0], 3 => &[100.0, -100.0], _ => &[] };
    for off in offs.iter() {
        let xs: Vec<f64> = spread.iter().map(|d| off + d).collect();
        let cs: Vec<[f64; K]> = vec![shifted::<K>(*off, -2.0, 3.0, 0.5), shifted::<K>(*off, 4.0, -0.5, -1.0)];
        w5_poly_family::<K>(r, &format!("integers {:?} + [0, 13]", off), &xs, &cs, &none_and(WEIGHTS[1][..8].to_vec()), if K == 2 { 1e-8 } else { 1e-6 });
        // offset with a comparable spread (relative spacing O(1))
        let xs2: Vec<f64> = spread.iter().map(|d| off * (1.0 + d / 8.0)).collect();
        let m = xs2.iter().fold(0.0f64, |a, b| a.max(b.abs()));
        let cs2: Vec<[f64; K]> = COEFFS[..2].iter().map(|cf| scaled::<K>(cf, m)).collect();
        w5_poly_family::<K>(r, &format!("{:?} * (1 + [0, 13] / 8)", off), &xs2, &cs2, &none_and(WEIGHTS[1][..8].to_vec()), 1e-8);
    }
    // (1b') K = 3 at +-1000: the monomial coefficients themselves are ill determined in f64 (measured error 4e-3 of their
    // natural magnitude), so only interpolation of the exact samples and the normal equations are compared (loose tolerance).
    // At 4096 + [0, 13] the f64 normal matrix is numerically singular and the returned quadratic is garbage (observation, see the
    // audit note): outside the bounded input space, like clustered abscissae with K >= 4
    if K == 3 { for off in [1000.0, -1000.0] {
        let xs: Vec<f64> = spread.iter().map(|d| off + d).collect();
        for (ci, c) in [shifted::<K>(off, -2.0, 3.0, 0.5), shifted::<K>(off, 4.0, -0.5, -1.0)].iter().enumerate() {
            let ys: Vec<f64> = xs.iter().map(|x| horner(c, *x)).collect();
            r.case();
            let fit = fit_caught::<K>(&xs, &ys, None);
            let ok = match &fit { Some(f) => within(&format!("poly K=3 far offset {:?}: interp", off), interp_err(&f.c, &xs, &ys), 1e-4), None => false };
            r.check(ok, CL_INTERP, || format!("K=3 abscissae {:?} coefficients {:?}: fit {:?}", xs, c, fit.as_ref().map(|p| p.c)));
            let yd: Vec<f64> = (0..8).map(|i| DATA[ci][i]).collect();
            r.case();
            let fit = fit_caught::<K>(&xs, &yd, None);
            let ok = match &fit { Some(f) => within(&format!("poly K=3 far offset {:?}: normal-eq", off), normal_eq_err(&f.c, &xs, &yd, &vec![1.0; 8]), 1e-4), None => false };
            r.check(ok, CL_ORTHO, || format!("K=3 abscissae {:?} data {:?}: fit {:?}", xs, yd, fit.as_ref().map(|p| p.c)));
        }
    } }
    // (1c) many samples (asymmetric dyadic grids), periodic non-uniform weights
    for (n, shift, den) in [(100usize, 30.0, 64.0), (1025, 400.0, 512.0), (4097, 1500.0, 2048.0)] {
        let xs: Vec<f64> = (0..n).map(|k| (k as f64 - shift) / den).collect();
        let cs: Vec<[f64; K]> = COEFFS[..2].iter().map(|cf| scaled::<K>(cf, 1.0)).collect();
        w5_poly_family::<K>(r, &format!("{} values (k - {:?}) / {:?}", n, shift, den), &xs, &cs, &none_and((0..n).map(|i| WEIGHTS[0][i % 9]).collect()), 1e-7);
    }
    // (3) duplicate abscissae (six distinct values among ten, not sorted), equal ordinates for exact samples, different ones for data
    {
        let xs = [3.0, -2.0, 0.0, -2.0, 1.0, 0.0, 4.0, 3.0, -1.0, 0.0];
        let cs: Vec<[f64; K]> = COEFFS.iter().map(|cf| scaled::<K>(cf, 1.0)).collect();
        let w10: Vec<f64> = (0..10).map(|i| WEIGHTS[1][(i * 4) % 9]).collect();
        w5_poly_family::<K>(r, "ten samples on six distinct integers (duplicates, unsorted)", &xs, &cs, &none_and(w10.clone()), 1e-6);
        let xs2 = [-2.0, -2.0, -1.0, 0.0, 0.0, 0.0, 1.0, 3.0, 3.0, 4.0];
        w5_poly_family::<K>(r, "ten samples on six distinct integers (ascending, consecutive duplicates)", &xs2, &cs, &none_and(w10), 1e-6);
    }
    // (2)/(3) weights: huge ratio, uniformly tiny / huge, geometric; all equal == None
    {
        let cs: Vec<[f64; K]> = COEFFS[..2].iter().map(|cf| scaled::<K>(cf, 1.0)).collect();
        let big = 1048576.0;
        let mut ws: Vec<Option<Vec<f64>>> = vec![
            Some(vec![1.0 / 1073741824.0; 9]), Some(vec![1073741824.0; 9]), Some((0..9).map(|i| pw(2.0, i)).collect()), Some((0..9).map(|i| pw(0.5, 2 * i)).collect()),
        ];
        // alternating 2^20 / 2^-20: five samples carry the fit (K <= 4 keeps the problem well conditioned)
        if K <= 4 { ws.push(Some((0..9).map(|i| if i % 2 == 0 { big } else { 1.0 / big }).collect())); }
        if K <= 3 { ws.push(Some((0..9).map(|i| if i % 3 == 1 { big } else { 1.0 / big }).collect())); }
        w5_poly_family::<K>(r, "positive side only (nine values)", &pos9, &cs, &ws, 1e-6);
        // all-equal weights: the same minimiser as without weights
        for d in DATA.iter() { for wc in [1.0, 1.0 / 1073741824.0, 1073741824.0, 3.0] {
            r.case();
            let a = fit_caught::<K>(&pos9, d, None);
            let b = fit_caught::<K>(&pos9, d, Some(&vec![wc; 9]));
            let ok = match (&a, &b) { (Some(a), Some(b)) => within(&format!("poly equal weights K={}", K), coeff_err(&b.c, &a.c, &pos9), 1e-8), _ => false };
            r.check(ok, CL_ONES, || format!("K={} abscissae {:?} data {:?}: weights None -> {:?}, weights Some([{:?}; 9]) -> {:?}", K, pos9, d, a.as_ref().map(|p| p.c), wc, b.as_ref().map(|p| p.c)));
        } }
        // order of the samples (reversed, rotated): the same minimiser
        for d in DATA.iter() { for w in [None, Some(WEIGHTS[0].to_vec())] {
            let a = fit_caught::<K>(&pos9, d, w.as_deref());
            for rot in [0usize, 4] {
                let perm: Vec<usize> = (0..9).map(|i| (8 - i + rot) % 9).collect();
                let (px, py): (Vec<f64>, Vec<f64>) = (perm.iter().map(|i| pos9[*i]).collect(), perm.iter().map(|i| d[*i]).collect());
                let pwv: Option<Vec<f64>> = w.as_ref().map(|v| perm.iter().map(|i| v[*i]).collect());
                r.case();
                let b = fit_caught::<K>(&px, &py, pwv.as_deref());
                let ok = match (&a, &b) { (Some(a), Some(b)) => within(&format!("poly order K={}", K), coeff_err(&b.c, &a.c, &pos9), 1e-8), _ => false };
                r.check(ok, CL_ORDER, || format!("K={} abscissae {:?} data {:?} weights {:?} -> {:?}; the same samples in the order {:?} -> {:?}", K, pos9, d, w, a.as_ref().map(|p| p.c), perm, b.as_ref().map(|p| p.c)));
            }
        } }
    }
    // (2) exactly K samples with a huge weight ratio: the fit interpolates whatever the weights
    {
        let all = [-1.0, 0.0, 1.0, 3.0, 2.0, -2.0];
        let xs = &all[..K];
        let w: Vec<f64> = (0..K).map(|i| if i % 2 == 0 { 32.0 } else { 1.0 / 32.0 }).collect();
        for d in DATA.iter() {
            r.case();
            let fit = fit_caught::<K>(xs, &d[..K], Some(&w));
            let ok = match &fit { Some(f) => within(&format!("poly exactly K samples K={}", K), interp_err(&f.c, xs, &d[..K]), 1e-7), None => false };
            r.check(ok, "fit of exactly K samples interpolates them", || format!("K={} abscissae {:?} data {:?} weights {:?}: fit {:?}", K, xs, &d[..K], w, fit.as_ref().map(|p| p.c)));
        }
    }
    // (5) shapes: end points symmetric about zero with an asymmetric interior; mean exactly zero but asymmetric; a cluster and a
    // far leverage point; geometric spacing; all abscissae negative and far from zero
    {
        let cs: Vec<[f64; K]> = COEFFS[..2].iter().map(|cf| scaled::<K>(cf, 1.0)).collect();
        w5_poly_family::<K>(r, "end points symmetric, interior not", &[-3.0, -1.0, -0.5, 0.0, 2.0, 2.5, 3.0], &cs, &none_and(WEIGHTS[0][..7].to_vec()), 1e-6);
        w5_poly_family::<K>(r, "mean exactly zero, asymmetric", &[-4.0, -1.0, 0.0, 0.0, 2.0, 3.0, -1.5, 1.5], &cs, &none_and(WEIGHTS[1][..8].to_vec()), 1e-6);
        if K <= 3 {
            let xl = [0.0, 0.015625, 0.03125, 0.046875, 0.0625, 100.0, 37.0];
            let cl: Vec<[f64; K]> = COEFFS[..2].iter().map(|cf| scaled::<K>(cf, 100.0)).collect();
            w5_poly_family::<K>(r, "cluster near zero + leverage points 37, 100", &xl, &cl, &none_and(WEIGHTS[0][..7].to_vec()), 1e-7);
            let xg = [1.0, 2.0, 4.0, 8.0, 16.0, 32.0, 64.0];
            let cg: Vec<[f64; K]> = COEFFS[..2].iter().map(|cf| scaled::<K>(cf, 64.0)).collect();
            w5_poly_family::<K>(r, "geometric 1 .. 64", &xg, &cg, &none_and(WEIGHTS[1][..7].to_vec()), 1e-7);
        }
        if K <= 3 {
            let xn = [-40.0, -39.0, -37.5, -36.0, -33.0, -32.0, -30.0];
            let cn: Vec<[f64; K]> = COEFFS[..2].iter().map(|cf| scaled::<K>(cf, 32.0)).collect();
            w5_poly_family::<K>(r, "all negative, -40 .. -30", &xn, &cn, &none_and(WEIGHTS[0][..7].to_vec()), 1e-7);
        }
    }
    // (3) degenerate ordinates: all zero, all equal
    for (yv, name) in [(0.0, "all ordinates 0.0"), (-7.5, "all ordinates -7.5")] { for w in [None, Some(WEIGHTS[0][..7].to_vec())] {
        r.case();
        let ys = vec![yv; 7];
        let fit = fit_caught::<K>(&base, &ys, w.as_deref());
        let mut c = [0.0; K]; c[0] = yv;
        let ok = match &fit { Some(f) => (0..K).all(|k| (f.c[k] - c[k]).abs() <= 1e-9 * (1.0 + yv.abs())), None => false };
        r.check(ok, CL_EXACT, || format!("K={} abscissae {:?} {} weights {:?}: fit {:?}", K, base, name, w, fit.as_ref().map(|p| p.c)));
    } }
    // (6) evaluation: Func1::f / fs against Horner's scheme, Line1 accessors
    {
        use crate::common::DiscreteDomain;
        let pts = [-1000.0, -3.0, -1.0, -0.0, 0.0, 0.5, 1.0, 2.0, 7.25, 1000.0];
        for cf in COEFFS.iter() {
            let c: [f64; K] = scaled::<K>(cf, 1.0);
            let p = Polynomial::<K>::new(c);
            r.case();
            let ok = pts.iter().all(|x| { let (a, b) = (p.f(*x), horner(&c, *x)); let mag: f64 = (0..K).map(|k| (c[k] * pw(*x, k)).abs()).sum(); (a - b).abs() <= 1e-12 * (1.0 + mag) });
            r.check(ok && p.f(0.0) == c[0], "Polynomial::f evaluates sum c_j x^j", || format!("K={} coefficients {:?}: f at {:?} = {:?}, Horner {:?}", K, c, pts, pts.iter().map(|x| p.f(*x)).collect::<Vec<_>>(), pts.iter().map(|x| horner(&c, *x)).collect::<Vec<_>>()));
            let dom = DiscreteDomain::try_from(vec![-3.0, -1.0, 0.0, 0.5, 2.0, 7.25]).ok();
            let fs = dom.as_ref().map(|d| p.fs(d));
            r.check(match (&dom, &fs) { (Some(d), Some(v)) => v.len() == d.len() && (0..v.len()).all(|i| v[i] == p.f(d[i])), _ => false }, "Func1::fs evaluates f at every abscissa in order", || format!("K={} coefficients {:?}: fs {:?}", K, c, fs));
        }
    }
}

fn check_line1_w5(r: &mut Report) {
    use crate::func1::Line1;
    for (m, b) in [(2.0, 1.0), (-0.5, 4.0), (0.0, -3.0), (128.0, 0.0), (1.0, 2.0)] {
        r.case();
        let l = Line1::new_mxb(m, b);
        r.check(l.m() == m && l.b() == b && l.c == [b, m] && [-2.0, 0.0, 0.5, 3.0].iter().all(|x| close(l.f(*x), m * x + b)), "Line1::new_mxb(m, b) is the polynomial b + m x with slope m() and intercept b()", || format!("new_mxb({:?}, {:?}) -> c {:?}, m() {:?}, b() {:?}, f(3) {:?}", m, b, l.c, l.m(), l.b(), l.f(3.0)));
    }
}

// ---------------------------------------------------------------- wave 5: Series1::best_fit_line
/// centred closed form (independent oracle): m = S(x - xm)(y - ym) / S(x - xm)^2, b = ym - m xm
fn centred_line(xs: &[f64], ys: &[f64]) -> (f64, f64) {
    let n = xs.len() as f64;
    let xm = xs.iter().sum::<f64>() / n; let ym = ys.iter().sum::<f64>() / n;
    let sxy: f64 = (0..xs.len()).map(|i| (xs[i] - xm) * (ys[i] - ym)).sum();
    let sxx: f64 = xs.iter().map(|x| (x - xm) * (x - xm)).sum();
    let m = sxy / sxx;
    (m, ym - m * xm)
}
fn check_series_w5(r: &mut Report) {
    let spread = [0.0, 1.0, 3.0, 4.0, 7.0, 9.0, 12.0, 13.0];
    let mut sets: Vec<(String, Vec<f64>, f64)> = vec![];
    for off in [1000.0, -1000.0, 10000.0, 100000.0, 1000000.0, -1000000.0] { sets.push((format!("integers {:?} + [0, 13]", off), spread.iter().map(|d| off + d).collect(), 1e-9)); }
    for s in [9.5367431640625e-7, 0.0009765625, 1024.0, 1048576.0] { sets.push((format!("asymmetric integers * {:?}", s), [-2.0, -1.0, 0.0, 1.0, 3.0, 4.0, 6.0].iter().map(|x| x * s).collect(), 1e-9)); }
    sets.push(("duplicate abscissae".to_string(), vec![0.0, 0.0, 1.0, 2.0, 2.0, 2.0, 5.0], 1e-9));
    sets.push(("all negative".to_string(), vec![-40.0, -39.0, -37.5, -36.0, -33.0, -32.0, -30.0], 1e-9));
    sets.push(("two points far apart".to_string(), vec![-1000000.0, 3000000.0], 1e-9));
    sets.push(("two points, offset".to_string(), vec![4096.0, 4096.5], 1e-9));
    sets.push(("cluster near zero + leverage points".to_string(), vec![0.0, 0.015625, 0.03125, 0.046875, 0.0625, 37.0, 100.0], 1e-9));
    for (n, shift, den) in [(100usize, 30.0, 64.0), (1025, 400.0, 512.0), (5000, 1500.0, 8.0)] { sets.push((format!("{} values (k - {:?}) / {:?}", n, shift, den), (0..n).map(|k| (k as f64 - shift) / den).collect(), 1e-9)); }
    for (name, xs, tol) in sets.iter() {
        let n = xs.len();
        let x0 = xs[0]; let xmax = xs.iter().fold(0.0f64, |a, b| a.max(b.abs()));
        let span = xs[n - 1] - xs[0];
        let mut ysets: Vec<(Vec<f64>, Option<(f64, f64)>)> = vec![];
        // exact lines through (x0, a) with slope mm / span * 8 (dyadic for the families used): ordinates are small exact numbers
        for (a, mm) in [(-2.0, 3.0), (4.0, -0.5), (1.0, 0.0)] { let m = mm; ysets.push((xs.iter().map(|x| a + m * (x - x0)).collect(), Some((m, a - m * x0)))); }
        for (di, d) in DATA.iter().enumerate() { ysets.push(((0..n).map(|i| d[(i * 7 + di) % 9]).collect(), None)); }
        // ordinates far from zero
        ysets.push(((0..n).map(|i| 1048576.0 + DATA[0][(i * 4) % 9]).collect(), None));
        for (ys, exact) in ysets.iter() {
            r.case();
            let s = match Series1::try_new(xs.clone(), ys.clone()) { Ok(s) => s, Err(_) => { r.check(false, "Series1::try_new accepts ascending abscissae", || format!("{:?}", xs)); continue; } };
            let line = s.best_fit_line();
            let again = s.best_fit_line();
            let fit = fit_caught::<2>(xs, ys, None);
            let (cm, cb) = centred_line(xs, ys);
            let desc = || format!("Series1 '{}' x {:?}{} y {:?}{}: best_fit_line [b, m] = {:?}, degree-1 fit {:?}, centred closed form [b, m] = {:?}", name, &xs[..n.min(8)], if n > 8 { ".." } else { "" }, &ys[..n.min(8)], if n > 8 { ".." } else { "" }, line.c, fit.as_ref().map(|p| p.c), [cb, cm]);
            let ymax = ys.iter().fold(0.0f64, |a, b| a.max(b.abs()));
            // natural magnitudes: slope ~ ymax / xmax, intercept ~ ymax + |m| xmax
            let e_fit = match &fit { Some(f) => coeff_err(&line.c, &f.c, xs).max(coeff_err(&f.c, &line.c, xs)), None => f64::INFINITY };
            // the degree-1 fit solves the normal equations of the monomial basis: its own accuracy degrades with (|x| / spread)^2
            // (measured 7.6e-6 at |x| = 1e6, spread 13); best_fit_line is compared with the centred closed form at full accuracy below
            let tol_fit = (2e-13 * (xmax / span) * (xmax / span)).max(*tol * 100.0);
            r.check(within(&format!("series vs degree-1 fit {}", name), e_fit, tol_fit), "Series1::best_fit_line agrees with the degree-1 least-squares fit", desc);
            let e_c = ((line.c[1] - cm).abs() * xmax + (line.c[0] - cb).abs()) / (ymax + cm.abs() * xmax).max(f64::MIN_POSITIVE);
            r.check(within(&format!("series vs centred closed form {}", name), e_c, *tol * 100.0), "Series1::best_fit_line residual orthogonal to the columns 1 and x", desc);
            if let Some((m, b)) = exact {
                let e = ((line.c[1] - m).abs() * xmax + (line.c[0] - b).abs()) / (b.abs() + m.abs() * xmax).max(f64::MIN_POSITIVE);
                r.check(within(&format!("series exact line {}", name), e, *tol), "Series1::best_fit_line of exact samples of a line returns that line", desc);
            }
            r.check(within(&format!("series normal-eq {}", name), normal_eq_err(&line.c, xs, ys, &vec![1.0; n]), *tol * 100.0), "Series1::best_fit_line residual orthogonal to the columns 1 and x", desc);
            r.check(line.m() == line.c[1] && line.b() == line.c[0] && again.c == line.c, "Series1::best_fit_line returns slope m() and intercept b() and is repeatable", desc);
        }
    }
}

// ---------------------------------------------------------------- wave 5: three-point circle
fn check_three_points_w5(r: &mut Report) {
    const CL_ON: &str = "three-point circle passes through its three points";
    const CL_COL: &str = "collinear points are rejected";
    // (1) the 12 integer points of x^2 + y^2 = 25 scaled by powers of two (r = 0.0195 .. 5.2e6) and shifted far from the origin
    // by integers (every coordinate and every square is exact): all C(12,3) triples in two orders
    for (sc, ox, oy) in [(0.00390625, 0.0, 0.0), (1.0, 1000000.0, -2000000.0), (1.0, -30000.0, 30000.0), (1048576.0, 0.0, 0.0), (1024.0, 4194304.0, 1048576.0), (0.00390625, 3.0, -2.0)] {
        for a in 0..12 { for b in (a + 1)..12 { for c in (b + 1)..12 { for order in 0..2 {
            let q = |k: usize| Point2::new(ox + LATTICE[k].0 * sc, oy + LATTICE[k].1 * sc);
            let (p0, p1, p2) = if order == 0 { (q(a), q(b), q(c)) } else { (q(c), q(a), q(b)) };
            r.case();
            let res = Circle2::from_3_points(p0, p1, p2);
            let rad = 5.0 * sc;
            let desc = || format!("from_3_points({:?}, {:?}, {:?}) (integer points of the circle of radius {:?} about ({:?}, {:?})) -> {:?}", (p0.x, p0.y), (p1.x, p1.y), (p2.x, p2.y), rad, ox, oy, res.as_ref().map(|c| (c.x(), c.y(), c.r())).map_err(|_| "Err"));
            match &res {
                Err(_) => r.check(false, "three points in general position yield a circle", desc),
                Ok(c) => {
                    // tolerance relative to the radius and to the magnitude of the coordinates (the input is exact)
                    let mag = rad + 1e-9 * (ox.abs() + oy.abs());
                    let e = [p0, p1, p2].iter().map(|p| (((p.x - c.x()).powi(2) + (p.y - c.y()).powi(2)).sqrt() - c.r()).abs()).fold(0.0, f64::max) / mag;
                    let e2 = ((c.x() - ox).abs() + (c.y() - oy).abs() + (c.r() - rad).abs()) / mag;
                    r.check(within("three points: distance to the circle / r", e, 1e-7) && within("three points: centre and radius / r", e2, 1e-7), CL_ON, desc);
                }
            }
        } } } }
    }
    // flat but valid triples (sagitta 2^-10 of the half chord), every order
    {
        let f = [Point2::new(-1.0, 0.0), Point2::new(0.0, 0.0009765625), Point2::new(1.0, 0.0)];
        for (a, b, c) in [(0, 1, 2), (0, 2, 1), (1, 0, 2), (1, 2, 0), (2, 0, 1), (2, 1, 0)] { for (ox, oy) in [(0.0, 0.0), (512.0, -256.0)] {
            let (p0, p1, p2) = (Point2::new(f[a].x + ox, f[a].y + oy), Point2::new(f[b].x + ox, f[b].y + oy), Point2::new(f[c].x + ox, f[c].y + oy));
            r.case();
            let res = Circle2::from_3_points(p0, p1, p2);
            let want_r = (1.0 + 0.0009765625 * 0.0009765625) / (2.0 * 0.0009765625);
            let ok = match &res { Ok(c) => (c.r() - want_r).abs() <= 1e-7 * want_r && (c.x() - ox).abs() <= 1e-7 * want_r && (c.y() - (oy + 0.0009765625 - want_r)).abs() <= 1e-7 * want_r, Err(_) => false };
            r.check(ok, CL_ON, || format!("from_3_points({:?}, {:?}, {:?}) -> {:?}; expected radius {:?}", (p0.x, p0.y), (p1.x, p1.y), (p2.x, p2.y), res.as_ref().map(|c| (c.x(), c.y(), c.r())).map_err(|_| "Err"), want_r));
        } }
    }
    // (3) collinear: exactly (integers far from the origin, non-axis-aligned directions), up to rounding (decimal origin and
    // direction at 1e3 .. 1e6), coincident points
    let lines: [((f64, f64), (f64, f64)); 8] = [((1000000.0, -3000000.0), (3.0, 7.0)), ((-65536.0, 65536.0), (-5.0, 2.0)), ((4194304.0, 4194304.0), (1.0, 1.0)), ((0.0, 0.0), (0.375, -0.625)),
        ((1000.1, 2000.3), (0.7, 1.3)), ((100000.1, -50000.7), (1.1, 0.3)), ((1000000.1, -1000000.3), (0.7, -1.3)), ((-999999.9, 0.1), (0.1, 0.9))];
    let ts = [-3.0, -1.0, 0.0, 0.5, 1.0, 2.5, 7.0, 10.0];
    for (o, d) in lines.iter() { for a in 0..ts.len() { for b in 0..ts.len() { for c in 0..ts.len() {
        if b == c && a == b && a != 0 { continue; }
        let q = |t: f64| Point2::new(o.0 + d.0 * t, o.1 + d.1 * t);
        let (p0, p1, p2) = (q(ts[a]), q(ts[b]), q(ts[c]));
        r.case();
        let res = Circle2::from_3_points(p0, p1, p2);
        r.check(res.is_err(), CL_COL, || format!("from_3_points({:?}, {:?}, {:?}) (points {:?} + t*{:?}, t = {:?}, {:?}, {:?}{}) -> {:?}", (p0.x, p0.y), (p1.x, p1.y), (p2.x, p2.y), o, d, ts[a], ts[b], ts[c], if a == b || b == c || a == c { "; coincident points" } else { "" }, res.as_ref().map(|c| (c.x(), c.y(), c.r())).map_err(|_| "Err")));
    } } } }
    // collinear within one ulp: exactly collinear points (integers / dyadics, non-axis-aligned) with ONE coordinate moved to the
    // next representable number in either direction
    let nudge = |v: f64, up: bool| -> f64 { if v == 0.0 { if up { f64::MIN_POSITIVE } else { -f64::MIN_POSITIVE } } else if (v > 0.0) == up { f64::from_bits(v.to_bits() + 1) } else { f64::from_bits(v.to_bits() - 1) } };
    for (o, d) in [((0.0, 0.0), (3.0, 7.0)), ((-3.0, 1.0), (2.0, 1.0)), ((1000.0, -3000.0), (3.0, 7.0)), ((1000000.0, -3000000.0), (-5.0, 2.0)), ((0.5, 0.25), (0.375, -0.625))] {
        for (ta, tb, tc) in [(0.0, 1.0, 2.0), (-3.0, 0.5, 10.0), (7.0, -1.0, 2.5), (1.0, 10.0, -3.0)] { for which in 0..6 { for up in [false, true] {
            let mut c = [o.0 + d.0 * ta, o.1 + d.1 * ta, o.0 + d.0 * tb, o.1 + d.1 * tb, o.0 + d.0 * tc, o.1 + d.1 * tc];
            c[which] = nudge(c[which], up);
            let (p0, p1, p2) = (Point2::new(c[0], c[1]), Point2::new(c[2], c[3]), Point2::new(c[4], c[5]));
            r.case();
            let res = Circle2::from_3_points(p0, p1, p2);
            r.check(res.is_err(), CL_COL, || format!("from_3_points({:?}, {:?}, {:?}) (points {:?} + t*{:?}, t = {:?}, {:?}, {:?}; coordinate {} moved by one ulp {}) -> {:?}", (p0.x, p0.y), (p1.x, p1.y), (p2.x, p2.y), o, d, ta, tb, tc, which, if up { "up" } else { "down" }, res.as_ref().map(|c| (c.x(), c.y(), c.r())).map_err(|_| "Err")));
        } } }
    }
}

// ---------------------------------------------------------------- wave 5: circle fit
fn check_circle_fit_w5(r: &mut Report) {
    const CLAUSE: &str = "circle fit from a nearby guess recovers centre and radius from exact samples (arc >= 60 degrees)";
    const CL_STAT: &str = "circle fit stops at a stationary point of the summed squared radial residuals";
    let ring = [(0.0, 0.0, 1.0), (0.1, 0.0, 0.9), (-0.1, 0.05, 1.1), (0.05, -0.15, 1.15), (-0.08, -0.08, 0.85), (0.0, 0.15, 1.0)];
    // (1) tiny and huge radii, centres far from the origin (centre / radius up to 1e6); clockwise sample order
    let circles = [(1000.0, -2000.0, 1.0), (1000000.0, 1000000.0, 1.0), (-1000000.0, 300000.0, 250.0), (0.0, 0.0, 1000000.0), (500000.0, -500000.0, 1000000.0),
        (0.0, 0.0, 9.5367431640625e-7), (3.0, -2.0, 1.0e-6), (-65536.0, 65536.0, 4096.0)];
    let arcs = [(17.0, 60.0), (200.0, 90.0), (10.0, 200.0), (0.0, 360.0), (100.0, -75.0), (350.0, -300.0)];
    for (cx, cy, rad) in circles { for (a0, sw) in arcs { for (gx, gy, gs) in ring { for mode in [BestFit::All, BestFit::Gaussian(3.0)] {
        let guess = Circle2::new(cx + gx * rad, cy + gy * rad, rad * gs);
        let pts = arc_points(cx, cy, rad, a0, sw, 24, 0.0);
        r.case();
        let res = Circle2::fitting_circle(&pts, &guess, mode).ok();
        // the samples are rounded to the grid of their coordinates: allow that much
        let slack = 1e-6 * rad + 64.0 * f64::EPSILON * (cx.abs() + cy.abs());
        let e = match &res { Some(c) => ((c.x() - cx).abs().max((c.y() - cy).abs()).max((c.r() - rad).abs())) / slack, None => f64::INFINITY };
        r.check(within("circle fit (scales / far centres): error / allowed", e, 1.0), CLAUSE, || format!("fitting_circle(24 samples of circle ({:?}, {:?}, r {:?}) over [{:?}, {:?}] degrees, guess ({:?}, {:?}, r {:?}), {}) -> {:?}", cx, cy, rad, a0, a0 + sw, guess.x(), guess.y(), guess.r(), mode_name(&mode), res.map(|c| (c.x(), c.y(), c.r()))));
    } } } }
    // perturbed samples on the same circles: stationarity (BestFit::All)
    for (cx, cy, rad) in circles { for (a0, sw) in [(10.0, 200.0), (200.0, 90.0), (350.0, -300.0)] { for (gx, gy, gs) in [ring[1], ring[3]] { for amp in [0.02, 0.08] {
        let guess = Circle2::new(cx + gx * rad, cy + gy * rad, rad * gs);
        let pts = arc_points(cx, cy, rad, a0, sw, 40, amp * rad);
        r.case();
        let res = Circle2::fitting_circle(&pts, &guess, BestFit::All).ok();
        let desc = || format!("fitting_circle(40 samples of circle ({:?}, {:?}, r {:?}) over [{:?}, {:?}] degrees perturbed by up to {:?}, guess ({:?}, {:?}, r {:?}), All) -> {:?}", cx, cy, rad, a0, a0 + sw, amp * rad, guess.x(), guess.y(), guess.r(), res.map(|c| (c.x(), c.y(), c.r())));
        match res {
            None => r.check(false, "circle fit of perturbed samples terminates successfully", desc),
            Some(c) => { let (g, scale) = gradient(&pts, &c); let gn = (g[0] * g[0] + g[1] * g[1] + g[2] * g[2]).sqrt();
                r.check(within("circle fit (scales / far centres): gradient / sum 2|res|", gn / scale, 1e-5), CL_STAT, || format!("{} gradient {:?} (sum of 2|residual| = {:?})", desc(), g, scale)); }
        }
    } } } }
    // (1) many samples; (5) every sample listed twice, samples in a scattered order
    for (cx, cy, rad) in [(3.0, -2.0, 5.0), (-40.0, 25.0, 12.5)] { for (a0, sw) in [(17.0, 60.0), (0.0, 360.0), (90.0, 270.0)] { for (gx, gy, gs) in [ring[1], ring[2], ring[4]] { for mode in [BestFit::All, BestFit::Gaussian(3.0)] {
        let guess = Circle2::new(cx + gx * rad, cy + gy * rad, rad * gs);
        let mut variants: Vec<(String, Vec<Point2>)> = vec![];
        for n in [1000usize, 5000] { variants.push((format!("{} samples", n), arc_points(cx, cy, rad, a0, sw, n, 0.0))); }
        let base = arc_points(cx, cy, rad, a0, sw, 31, 0.0);
        variants.push(("31 samples, each listed twice".to_string(), base.iter().flat_map(|p| [*p, *p]).collect()));
        variants.push(("31 samples in the order 12 k mod 31".to_string(), (0..31).map(|k| base[(12 * k) % 31]).collect()));
        for (vn, pts) in variants.iter() {
            r.case();
            let res = Circle2::fitting_circle(pts, &guess, mode).ok();
            r.check(recovered(&res, cx, cy, rad), CLAUSE, || format!("fitting_circle({} of circle ({:?}, {:?}, r {:?}) over [{:?}, {:?}] degrees, guess ({:?}, {:?}, r {:?}), {}) -> {:?}", vn, cx, cy, rad, a0, a0 + sw, guess.x(), guess.y(), guess.r(), mode_name(&mode), res.map(|c| (c.x(), c.y(), c.r()))));
        }
    } } } }
    // (1) many PERTURBED samples (BestFit::All): the stationary point is that of ALL the samples
    for (cx, cy, rad) in [(3.0, -2.0, 5.0), (-40.0, 25.0, 12.5)] { for (a0, sw) in [(10.0, 200.0), (0.0, 360.0)] { for n in [2049usize, 5000] { for (gx, gy, gs) in [ring[1], ring[4]] {
        let guess = Circle2::new(cx + gx * rad, cy + gy * rad, rad * gs);
        let pts = arc_points(cx, cy, rad, a0, sw, n, 0.05 * rad);
        r.case();
        let res = Circle2::fitting_circle(&pts, &guess, BestFit::All).ok();
        let desc = || format!("fitting_circle({} samples of circle ({:?}, {:?}, r {:?}) over [{:?}, {:?}] degrees perturbed by up to {:?}, guess ({:?}, {:?}, r {:?}), All) -> {:?}", n, cx, cy, rad, a0, a0 + sw, 0.05 * rad, guess.x(), guess.y(), guess.r(), res.map(|c| (c.x(), c.y(), c.r())));
        match res {
            None => r.check(false, "circle fit of perturbed samples terminates successfully", desc),
            Some(c) => { let (g, scale) = gradient(&pts, &c); let gn = (g[0] * g[0] + g[1] * g[1] + g[2] * g[2]).sqrt();
                r.check(within("circle fit (many perturbed samples): gradient / sum 2|res|", gn / scale, 1e-5), CL_STAT, || format!("{} gradient {:?} (sum of 2|residual| = {:?})", desc(), g, scale)); }
        }
    } } } }
    // (2) guesses in all eight directions at 0.15 r, radius 15% small / large
    for (cx, cy, rad) in [(3.0, -2.0, 5.0), (0.5, 0.25, 0.125)] { for (a0, sw) in [(17.0, 60.0), (-45.0, 135.0)] { for dir in 0..8 { for gs in [0.85, 1.15] {
        let a = (dir as f64 * 45.0f64).to_radians();
        let guess = Circle2::new(cx + 0.15 * rad * a.cos(), cy + 0.15 * rad * a.sin(), rad * gs);
        let pts = arc_points(cx, cy, rad, a0, sw, 40, 0.0);
        r.case();
        let res = Circle2::fitting_circle(&pts, &guess, BestFit::All).ok();
        r.check(recovered(&res, cx, cy, rad), CLAUSE, || format!("fitting_circle(40 samples of circle ({:?}, {:?}, r {:?}) over [{:?}, {:?}] degrees, guess ({:?}, {:?}, r {:?}), All) -> {:?}", cx, cy, rad, a0, a0 + sw, guess.x(), guess.y(), guess.r(), res.map(|c| (c.x(), c.y(), c.r()))));
    } } } }
    // sigma clipping that removes samples: slightly perturbed samples + gross outliers; the result is a stationary point of the
    // summed squared residuals of the samples within sigma standard deviations of the mean residual (population standard
    // deviation; the gap between kept and clipped samples is wide, so the kept set does not depend on the convention)
    const CL_CLIP: &str = "circle fit in BestFit::Gaussian(sigma) mode stops at a stationary point of the summed squared radial residuals of the samples within sigma standard deviations";
    // layouts: 40 samples with 1..3 outliers among them; 3000 samples with 60 / 180 outliers ALL AT THE END of the list
    for (cx, cy, rad) in [(3.0, -2.0, 5.0), (-40.0, 25.0, 12.5), (1000.0, -2000.0, 1.0)] { for (a0, sw) in [(10.0, 200.0), (0.0, 360.0), (200.0, 120.0)] { for (n_in, n_out, off) in [(40usize, 1usize, 0.6), (40, 3, 0.5), (40, 3, -0.45), (40, 2, 0.8), (3000, 60, 0.6), (3000, 180, -0.45)] { for sigma in [2.0, 2.5] { for (gx, gy, gs) in [ring[0], ring[1], ring[2]] { for amp in [0.0, 0.02] {
        if n_in > 40 && (sigma != 2.0 || amp == 0.0 || gs == 1.0) { continue; }
        let guess = Circle2::new(cx + gx * rad, cy + gy * rad, rad * gs);
        let mut pts = arc_points(cx, cy, rad, a0, sw, n_in, amp * rad);
        let mut out_idx: Vec<usize> = vec![];
        for j in 0..n_out {
            let a = (a0 + sw * if n_in == 40 { 0.2 + 0.3 * j as f64 } else { (j as f64 + 0.5) / n_out as f64 }).to_radians();
            let rr = rad * (1.0 + off * (1.0 + 0.1 * (j % 3) as f64));
            let q = Point2::new(cx + rr * a.cos(), cy + rr * a.sin());
            if n_in == 40 { pts.insert(5 + 11 * j, q); out_idx.push(5 + 11 * j); } else { out_idx.push(pts.len()); pts.push(q); }
        }
        r.case();
        let res = Circle2::fitting_circle(&pts, &guess, BestFit::Gaussian(sigma)).ok();
        let desc = || format!("fitting_circle({} samples of circle ({:?}, {:?}, r {:?}) over [{:?}, {:?}] degrees perturbed by up to {:?} + {} outliers radially off by about {:?} r at the indices {:?}..: {:?}.., guess ({:?}, {:?}, r {:?}), Gaussian({:?})) -> {:?}", n_in, cx, cy, rad, a0, a0 + sw, amp * rad, n_out, off, &out_idx[..n_out.min(3)], pts.iter().take(43).map(|p| (p.x, p.y)).collect::<Vec<_>>(), guess.x(), guess.y(), guess.r(), sigma, res.map(|c| (c.x(), c.y(), c.r())));
        match res {
            None => r.check(false, "circle fit of perturbed samples terminates successfully", desc),
            Some(c) => {
                let res_i: Vec<f64> = pts.iter().map(|p| ((p.x - c.x()).powi(2) + (p.y - c.y()).powi(2)).sqrt() - c.r()).collect();
                let mean = res_i.iter().sum::<f64>() / res_i.len() as f64;
                let sd = (res_i.iter().map(|e| (e - mean) * (e - mean)).sum::<f64>() / res_i.len() as f64).sqrt();
                let dev: Vec<f64> = res_i.iter().map(|e| (e - mean).abs() / sd).collect();
                let kept: Vec<Point2> = (0..pts.len()).filter(|i| dev[*i] <= sigma).map(|i| pts[i]).collect();
                // wide gap: nothing within 15% of the threshold
                let gap = dev.iter().all(|d| *d <= sigma * 0.85 || *d >= sigma * 1.15);
                let (g, scale) = gradient(&kept, &c);
                let gn = (g[0] * g[0] + g[1] * g[1] + g[2] * g[2]).sqrt();
                let e = if amp == 0.0 { gn / (1e-9 * rad * kept.len() as f64) * 1e-5 } else { gn / scale };
                r.check(gap && kept.len() == n_in && out_idx.iter().all(|i| dev[*i] > sigma) && within("circle fit (sigma clipping): gradient over the kept samples", e, 1e-5), CL_CLIP, || format!("{}; kept {} samples, deviations / std of the outliers {:?}, gradient over the kept samples {:?} (sum of 2|residual| = {:?})", desc(), kept.len(), out_idx.iter().take(3).map(|i| dev[*i]).collect::<Vec<_>>(), g, scale));
            }
        }
    } } } } } }
}

// ---------------------------------------------------------------- wave 5: RANSAC
fn check_ransac_w5(r: &mut Report) {
    const CL: &str = "seeded RANSAC circle has at least as many inliers as the generating circle";
    const CLW: &str = "seeded RANSAC circle within a radius window has at least as many inliers as the generating circle";
    let show = |res: &crate::Result<Circle2>, count: &dyn Fn(&Circle2) -> usize| match res { Ok(c) => format!("Ok(({:?}, {:?}, r {:?}), {} inliers)", c.x(), c.y(), c.r(), count(c)), Err(_) => "Err".to_string() };
    // (2) exactly three points, three points + one outlier, every sample duplicated; tiny tolerance on exact data
    for (ox, oy, sc) in [(0.0, 0.0, 1.0), (7.0, -3.0, 1.0), (1000000.0, -2000000.0, 1.0), (0.0, 0.0, 1048576.0), (0.5, 0.25, 0.0625)] {
        let q = |k: usize| Point2::new(ox + LATTICE[k].0 * sc, oy + LATTICE[k].1 * sc);
        let gen = Circle2::new(ox, oy, 5.0 * sc);
        let mut sets: Vec<(String, Vec<Point2>)> = vec![
            ("exactly three points".to_string(), vec![q(2), q(5), q(9)]),
            ("three points + one outlier".to_string(), vec![q(0), Point2::new(ox + sc, oy + sc), q(3), q(7)]),
            ("three points, each listed twice".to_string(), vec![q(1), q(1), q(6), q(6), q(10), q(10)]),
            ("the 12 integer points".to_string(), (0..12).map(|k| q(k)).collect()),
        ];
        let mut with_out: Vec<Point2> = (0..12).map(|k| q(k)).collect();
        for (k, (x, y)) in [(1.0, 1.0), (2.0, -1.0), (7.0, 7.0), (-6.0, 2.0), (0.0, 3.0), (-8.0, -8.0), (2.0, 6.0), (6.0, 1.0), (-1.0, -6.0)].iter().enumerate() { with_out.insert((k * 2 + 1) % with_out.len(), Point2::new(ox + x * sc, oy + y * sc)); }
        sets.push(("the 12 integer points + 9 outliers".to_string(), with_out));
        for (sn, pts) in sets.iter() { for tol in [0.01 * sc, 1e-6 * sc, 0.3 * sc] { for it in [None, Some(2000usize)] {
            let count = |c: &Circle2| pts.iter().filter(|p| c.distance_to(p).abs() < tol).count();
            r.case();
            let res = Circle2::ransac(pts, tol, it, None, None);
            r.check(match &res { Ok(c) => count(c) >= count(&gen), Err(_) => false }, CL, || format!("ransac({}: {:?} of circle ({:?}, {:?}, r {:?}), tol {:?}, iterations {:?}) -> {}; generating circle has {} inliers", sn, pts.iter().map(|p| (p.x, p.y)).collect::<Vec<_>>(), ox, oy, 5.0 * sc, tol, it, show(&res, &count), count(&gen)));
        } } }
    }
    // (1) huge circles and centres far from the origin; 1000 / 1001 / 1999 points (just below the sizes of round 4)
    for (cx, cy, rad, n_in, n_out) in [(100000.0, -200000.0, 300.0, 60usize, 25usize), (0.0, 0.0, 1000000.0, 60, 25), (1000000.0, 1000000.0, 10.0, 48, 30), (2.0, -1.0, 3.0, 600, 400), (2.0, -1.0, 3.0, 601, 400), (-4.0, 3.0, 5.0, 1100, 899)] {
        let tol = 1e-3 * rad;
        let mut pts: Vec<Point2> = Vec::new();
        let (mut gi, mut oi) = (0usize, 0usize);
        for i in 0..(n_in + n_out) {
            // outliers spread among the samples (every index with i * n_out / total changing)
            let is_out = oi < n_out && (i * n_out) / (n_in + n_out) >= oi && (gi >= n_in || (i * n_out) % (n_in + n_out) < n_out);
            if is_out {
                let a = (oi as f64 * 47.0 + 11.0).to_radians();
                let d = rad * (0.2 + 0.15 * ((oi * 5) % 7) as f64) + if oi % 2 == 0 { rad * 0.9 } else { 0.0 };
                pts.push(Point2::new(cx + d * a.cos(), cy + d * a.sin())); oi += 1;
            } else if gi < n_in {
                let a = 0.05 + 6.2 * gi as f64 / n_in as f64;
                pts.push(Point2::new(cx + rad * a.cos(), cy + rad * a.sin())); gi += 1;
            } else {
                let a = (oi as f64 * 47.0 + 11.0).to_radians();
                let d = rad * (0.2 + 0.15 * ((oi * 5) % 7) as f64) + if oi % 2 == 0 { rad * 0.9 } else { 0.0 };
                pts.push(Point2::new(cx + d * a.cos(), cy + d * a.sin())); oi += 1;
            }
        }
        let gen = Circle2::new(cx, cy, rad);
        let count = |c: &Circle2| pts.iter().filter(|p| c.distance_to(p).abs() < tol).count();
        let want = count(&gen);
        for (it, lo, hi) in [(None, None, None), (Some(300usize), Some(rad * 0.5), None), (Some(300), None, Some(rad * 2.0)), (Some(300), Some(rad * 0.9), Some(rad * 1.1))] {
            r.case();
            let res = Circle2::ransac(&pts, tol, it, lo, hi);
            let within_w = |c: &Circle2| lo.map_or(true, |v| c.r() >= v) && hi.map_or(true, |v| c.r() <= v);
            r.check(want >= n_in && match &res { Ok(c) => count(c) >= want && within_w(c), Err(_) => false }, if lo.is_none() && hi.is_none() { CL } else { CLW },
                || format!("ransac({} points: {} samples of circle ({:?}, {:?}, r {:?}) + {} outliers spread among them, tol {:?}, iterations {:?}, min_r {:?}, max_r {:?}) -> {}; generating circle has {} inliers", pts.len(), n_in, cx, cy, rad, n_out, tol, it, lo, hi, show(&res, &count), want));
        }
    }
    // (3)/(5) inliers that are NOT exactly on the circle: samples radially off by up to a quarter of the tolerance (deterministic
    // pattern, both sides) + far outliers; every sample is an inlier of the generating circle
    for (cx, cy, rad, tol) in [(2.0, -1.0, 10.0, 0.05), (1000.0, -2000.0, 50.0, 0.1), (-3.0, 4.0, 0.5, 0.01)] { for (n_in, n_out) in [(40usize, 15usize), (60, 40)] { for amp in [0.1, 0.25] {
        let mut pts: Vec<Point2> = (0..n_in).map(|i| {
            let a = 0.05 + 6.2 * i as f64 / n_in as f64;
            let d = rad + tol * amp * (((i * 7) % 11) as f64 / 5.0 - 1.0);
            Point2::new(cx + d * a.cos(), cy + d * a.sin()) }).collect();
        for k in 0..n_out {
            let a = (k as f64 * 47.0 + 11.0).to_radians();
            let d = rad * (0.2 + 0.15 * ((k * 5) % 7) as f64) + if k % 2 == 0 { rad * 0.9 } else { 0.0 };
            pts.insert((k * 3 + 1) % pts.len(), Point2::new(cx + d * a.cos(), cy + d * a.sin()));
        }
        let gen = Circle2::new(cx, cy, rad);
        let count = |c: &Circle2| pts.iter().filter(|p| c.distance_to(p).abs() < tol).count();
        let want = count(&gen);
        for it in [None, Some(1500usize)] {
            r.case();
            let res = Circle2::ransac(&pts, tol, it, None, None);
            r.check(want >= n_in && match &res { Ok(c) => count(c) >= want, Err(_) => false }, CL,
                || format!("ransac({:?}: {} samples of circle ({:?}, {:?}, r {:?}) radially off by up to {:?} tol + {} outliers, tol {:?}, iterations {:?}) -> {}; generating circle has {} inliers", pts.iter().map(|p| (p.x, p.y)).collect::<Vec<_>>(), n_in, cx, cy, rad, amp, n_out, tol, it, show(&res, &count), want));
        }
    } } }
    // (2) a radius window that EXCLUDES a better supported circle: the result must respect the window and still be supported
    // by at least as many points as the generating circle (which is the best circle inside the window)
    for (gen, decoy) in [((2.0, -1.0, 5.0), (-6.0, 4.0, 2.0)), ((-4.0, 3.0, 2.0), (6.5, -5.0, 5.0))] {
        let (n_gen, n_decoy) = (30usize, 45usize);
        let mut pts: Vec<Point2> = Vec::new();
        for i in 0..n_decoy {
            let a = 0.3 + 6.0 * i as f64 / n_decoy as f64;
            pts.push(Point2::new(decoy.0 + decoy.2 * a.cos(), decoy.1 + decoy.2 * a.sin()));
            if i < n_gen { let a = 0.1 + 6.1 * i as f64 / n_gen as f64; pts.push(Point2::new(gen.0 + gen.2 * a.cos(), gen.1 + gen.2 * a.sin())); }
            if i % 3 == 0 { pts.push(scatter(i)); }
        }
        let tol = 1e-3;
        let gc = Circle2::new(gen.0, gen.1, gen.2);
        let count = |c: &Circle2| pts.iter().filter(|p| c.distance_to(p).abs() < tol).count();
        let want = count(&gc);
        let windows: [(Option<f64>, Option<f64>); 3] = if gen.2 > decoy.2 { [(Some(3.0), None), (Some(3.0), Some(8.0)), (Some(gen.2), Some(gen.2 * 1.0000001))] } else { [(None, Some(3.0)), (Some(1.0), Some(3.0)), (Some(gen.2 * 0.9999999), Some(gen.2))] };
        for (lo, hi) in windows { for it in [None, Some(1500usize)] {
            r.case();
            let res = Circle2::ransac(&pts, tol, it, lo, hi);
            let within_w = |c: &Circle2| lo.map_or(true, |v| c.r() >= v) && hi.map_or(true, |v| c.r() <= v);
            r.check(want >= n_gen && match &res { Ok(c) => count(c) >= want && within_w(c), Err(_) => false }, CLW,
                || format!("ransac({} points: {} samples of circle {:?}, {} samples of circle {:?} OUTSIDE the radius window, scattered points; tol {:?}, iterations {:?}, min_r {:?}, max_r {:?}) -> {}; generating circle has {} inliers", pts.len(), n_gen, gen, n_decoy, decoy, tol, it, lo, hi, show(&res, &count), want));
        } }
    }
}

fn run_w5(r: &mut Report) {
    let hook = std::panic::take_hook();
    std::panic::set_hook(Box::new(|_| {}));
    check_poly_w5::<2>(r); check_poly_w5::<3>(r); check_poly_w5::<4>(r); check_poly_w5::<5>(r); check_poly_w5::<6>(r);
    std::panic::set_hook(hook);
    check_line1_w5(r);
    check_series_w5(r);
    check_three_points_w5(r);
    check_circle_fit_w5(r);
    check_ransac_w5(r);
    dump_measurements();
}

pub fn run() -> Option<Report> {
    let mut r = Report::new("polynomial sizes K=2..=6 x 6 abscissa sets (asymmetric integers, dyadic offset from zero, uneven both signs, positive side, 7 values within 4e-4 of 1.0 [K=2], 9 values within 0.07 of -2 [K<=3]) x {no weights, 2 non-uniform positive weight vectors} x {3 exact coefficient vectors, 2 arbitrary data vectors}; Series1 lines on 5 abscissa sets incl. clustered distinct values x 5 data vectors; three-point circles on all ordered triples of 10 points with |det| >= 1 and on 6 lines x all ordered triples of 8 parameters (exactly collinear and collinear up to rounding); circle fit on 4 circles x 6 arcs (60..360 degrees, 40 samples) x 6 guesses (centre within 0.16 r, radius within 15%) x {exact, perturbed 2% r, perturbed 8% r}; RANSAC on 3 contaminated sample sets (36 inliers + 8/12/18 outliers); ROUND 2: polynomial sizes K=2..=6 on {K, K+1, 8} distinct integer abscissae with ordinates that are exactly 0.0 (exact samples of polynomials with 1 / K-1 roots at the abscissae, 2 data vectors with 3..5 zeros) x {no weights, positive weights, weights with one 0.0 [more than K samples]}, a panic counts as a failing input; tightly clustered distinct dyadic abscissae: six values k/256 in [0, 0.02] (K <= 3, coefficient tolerance 1e-7) and four values {2,3,4,6}*2^-21 in [9.5e-7, 2.9e-6] (K = 2, tolerance 1e-9), also for Series1; circle fit from exactly 3 / 4 / 5 samples on 5 circles (r = 2.5e-4, 1e-3, 0.125) x 4 arcs (60 .. 288 degrees) x 9 guesses (ring of round 1 + concentric with the radius off by 15% / 25%) x {All, Gaussian(3.0)}; exactly representable samples (integer points of x^2+y^2=25, shifted / scaled by 1/16, 5 subsets of 3..12 points) x 5 guesses (4 concentric with a wrong / the right radius) x {All, Gaussian(3.0), Gaussian(2.0)}; the 40-sample exact arcs in Gaussian(3.0) mode; RANSAC on the 12 integer points of a radius-5 circle + 7 outliers with min_r / max_r exactly 5.0 (6 windows x 2 centres); ROUND 4: RANSAC on LARGE inputs (2000 / 3000 / 5000 points: 35% exact samples of the generating circle, 25% of a smaller decoy circle, the rest scattered; 2 circle pairs) whose ORDER is correlated with circle membership - interleaved with period len/1000 (decoy samples on one residue class 0 / 1 / period-1, generating samples on the others) and 3 block layouts (generating samples first / last) - x {default iterations, 400 iterations with a radius window holding both circles}, tol 1e-3; RANSAC with contamination just outside the tolerance band: 20 / 26 exact samples on a 1.6 rad arc + 9 / 11 / 13 outliers radially offset by 1.4 .. 10 tolerances on alternating sides (3 base offsets, appended or interleaved, the list rotated by 8 amounts, 2 circles; 576 inputs), default iterations; WAVE 5 (notes/w5_audit_C09.md): polynomial sizes K=2..=6 on abscissae scaled by 2^-20 .. 2^20 (K=2), 2^-10 .. 2^10 (K=3), 2^-5 / 2^5 (K=4), 1/4 / 4 (K=5,6); integer abscissae offset by +-1e3 .. +-1e6 with spread 13 and with relative spread (K=2), +-100 (K=3), +-1000 (K=3: interpolation and normal equations only); 100 / 1025 / 4097 samples; duplicate abscissae (unsorted, consecutive); weights with ratio 2^40 (K<=4), uniformly 2^-30 / 2^30, geometric; all-equal weights vs none; reversed / rotated sample order; exactly K samples with weight ratio 2^10; end points symmetric with asymmetric interior, mean exactly zero, cluster + leverage points, geometric spacing, all negative (K<=3); all ordinates 0.0 / equal; Polynomial::f / fs against Horner at 10 abscissae in [-1000, 1000], Line1::new_mxb / m / b; Series1 lines on integer offsets +-1e3 .. +-1e6, scales 2^-20 .. 2^20, duplicate abscissae, 2 points, 100 / 1025 / 5000 samples, ordinates offset by 2^20, against the degree-1 fit AND a centred closed form; three-point circles on all triples (2 orders) of the 12 integer points of x^2+y^2=25 scaled by 2^-8 .. 2^20 and shifted up to (1e6, -2e6), flat triples (sagitta 2^-10), collinear triples on 8 lines at 1e3 .. 4e6 (exact and up to rounding) incl. coincident points, exactly collinear triples with one coordinate moved by one ulp; circle fit on 8 circles (r 2^-20 .. 1e6, centres up to 1e6) x 6 arcs (incl. clockwise) x 6 guesses x {All, Gaussian(3.0)} and perturbed, 1000 / 5000 exact and 2049 / 5000 perturbed samples, duplicated / scattered samples, guesses in 8 directions, sigma clipping with gross outliers (40 + 1..3, 3000 + 60 / 180 at the end of the list; Gaussian(2.0 / 2.5)); RANSAC on exactly 3 points, 3 + 1, duplicated points, the 12 integer points (+ 9 outliers) at 5 scales / offsets x 3 tolerances x 2 iteration counts, circles at 1e5 .. 1e6 / of radius 1e6, 1000 / 1001 / 1999 points, min_r only / max_r only, radius windows that exclude a better supported circle, inliers radially off by up to a quarter of the tolerance");
    for s in xsets().iter() {
        check_poly::<2>(&mut r, s); check_poly::<3>(&mut r, s); check_poly::<4>(&mut r, s); check_poly::<5>(&mut r, s); check_poly::<6>(&mut r, s);
    }
    let hook = std::panic::take_hook();
    std::panic::set_hook(Box::new(|_| {}));
    check_poly_zeros::<2>(&mut r); check_poly_zeros::<3>(&mut r); check_poly_zeros::<4>(&mut r); check_poly_zeros::<5>(&mut r); check_poly_zeros::<6>(&mut r);
    std::panic::set_hook(hook);
    check_series(&mut r);
    check_three_points(&mut r);
    check_circle_fit(&mut r);
    check_ransac(&mut r);
    check_circle_fit_round2(&mut r);
    check_ransac_round2(&mut r);
    check_ransac_large(&mut r);
    check_ransac_near_band(&mut r);
    run_w5(&mut r);
    let _ = close(0.0, 0.0);
    Some(r)
}
