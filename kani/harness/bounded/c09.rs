//! C09 bounded: least-squares fits (polynomial, series line, circle) against their defining optimality conditions.
//! Polynomial sizes K = 2..=6 on asymmetric / offset / clustered abscissae with small integer or dyadic values (power
//! sums exact), with and without non-uniform positive weights; exact samples (coefficient recovery) and arbitrary data
//! (weighted normal equations). Circles: three-point circle on integer triples, circle fit on arcs of 60..360 degrees
//! from a ring of guesses, fixed-seed RANSAC on contaminated samples. Tolerances are scaled to the conditioning of
//! each family (stated next to it); every clause failure reports the data set.
//! ROUND 2: ordinates exactly 0.0 (incl. exactly K samples; a panic of least_squares is a failing input), a weight vector
//! with a zero, tightly clustered distinct dyadic abscissae (exact power sums, tolerance scaled to the conditioning), circle
//! fit from exactly 3..5 samples on small circles / short arcs in both BestFit modes incl. concentric guesses whose
//! residuals are exactly equal, RANSAC with min_r / max_r exactly equal to the generating radius.
//! ROUND 4: RANSAC on large inputs (>= 2000 points) whose point ORDER is correlated with circle membership (interleaved scans,
//! blocks): the inlier count of the result is taken over ALL points.
use super::{close, Report};
use crate::common::BestFit;
use crate::func1::{Func1, Polynomial, Series1};
use crate::geom2::{Circle2, Point2};

fn pw(x: f64, k: usize) -> f64 { let mut r = 1.0; for _ in 0..k { r *= x; } r }
fn horner(c: &[f64], x: f64) -> f64 { let mut y = 0.0; for k in (0..c.len()).rev() { y = y * x + c[k]; } y }

// ---------------------------------------------------------------- polynomial least squares
struct XSet { name: &'static str, xs: Vec<f64>, /// largest K used on this set, relative tolerance of recovered coefficients
    max_k: usize, tol: f64 }

fn xsets() -> Vec<XSet> {
    let c13: Vec<f64> = (-3..=3).map(|k| 1.0 + k as f64 / 8192.0).collect(); // seven values within 3.7e-4 of 1.0
    vec![
        XSet { name: "asymmetric integers", xs: vec![-2.0, -1.0, 0.0, 1.0, 3.0, 4.0, 6.0], max_k: 6, tol: 1e-6 },
        XSet { name: "offset from zero, dyadic", xs: vec![2.0, 2.5, 3.0, 3.25, 4.0, 4.5, 5.0, 5.75], max_k: 5, tol: 1e-4 },
        XSet { name: "uneven, both signs", xs: vec![-3.0, -2.75, -1.0, 0.5, 0.75, 2.0, 3.5], max_k: 6, tol: 1e-6 },
        XSet { name: "positive side only", xs: vec![0.0, 0.25, 0.5, 1.0, 1.5, 1.75, 2.0, 3.0, 3.5], max_k: 6, tol: 1e-6 },
        XSet { name: "clustered within 4e-4 of 1.0", xs: c13, max_k: 2, tol: 1e-5 },
        XSet { name: "clustered within 0.07 of -2.0", xs: (-4..=4).map(|k| -2.0 + k as f64 / 64.0).collect(), max_k: 3, tol: 1e-5 },
        // round 2: tightly clustered DISTINCT abscissae with dyadic values (all power sums exact; the determinant of the normal
        // matrix is tiny although the system is perfectly solvable).  The coefficient tolerance is scaled to the conditioning
        XSet { name: "six values k/256 in [0, 0.02]", xs: (0..6).map(|k| k as f64 / 256.0).collect(), max_k: 3, tol: TOL_CLUSTER_Q },
        XSet { name: "four values {2,3,4,6} * 2^-21 in [9.5e-7, 2.9e-6]", xs: [2.0, 3.0, 4.0, 6.0].iter().map(|k| k / 2097152.0).collect(), max_k: 2, tol: TOL_CLUSTER_L },
    ]
}
// measured on the reference build: <= 3e-11 (K = 3, normal matrix condition ~1e10) and <= 1e-15 (K = 2, closed-form 2x2 inverse)
const TOL_CLUSTER_Q: f64 = 1e-7;
const TOL_CLUSTER_L: f64 = 1e-9;
const WEIGHTS: [[f64; 9]; 2] = [[1.0, 2.0, 0.5, 3.0, 1.5, 0.25, 4.0, 2.0, 0.75], [5.0, 0.125, 1.0, 1.0, 2.5, 3.0, 0.5, 6.0, 0.25]];
const COEFFS: [[f64; 6]; 3] = [[1.0, -2.0, 3.0, 0.5, -1.0, 2.0], [-4.0, 1.0, 0.0, 2.0, 0.25, -0.5], [0.0, 0.0, 0.0, 0.0, 0.0, 1.0]];
const DATA: [[f64; 9]; 2] = [[3.0, -1.0, 4.0, 1.0, -5.0, 9.0, 2.0, -6.0, 5.0], [0.5, 0.25, -2.0, 7.0, 1.0, -3.0, 8.0, 2.0, -0.75]];

fn check_poly<const K: usize>(r: &mut Report, s: &XSet) {
    if K > s.max_k { return; }
    let n = s.xs.len();
    let wsets: Vec<Option<Vec<f64>>> = vec![None, Some(WEIGHTS[0][..n].to_vec()), Some(WEIGHTS[1][..n].to_vec())];
    for w in wsets.iter() {
        let wv: Vec<f64> = match w { Some(v) => v.clone(), None => vec![1.0; n] };
        // (a) exact samples of a polynomial of size K: that polynomial is returned
        for cf in COEFFS.iter() {
            let mut c = [0.0; K];
            for k in 0..K { c[k] = cf[k]; }
            if cf[5] == 1.0 { c = [0.0; K]; c[K - 1] = 1.0; }
            let ys: Vec<f64> = s.xs.iter().map(|x| horner(&c, *x)).collect();
            r.case();
            let fit = Polynomial::<K>::least_squares(&s.xs, &ys, w.as_deref());
            let cmax = c.iter().fold(1.0f64, |a, b| a.max(b.abs()));
            let ok = (0..K).all(|k| (fit.c[k] - c[k]).abs() <= s.tol * cmax);
            r.check(ok, "exact samples of a polynomial of the fitted size return that polynomial", || format!("K={} abscissae '{}' {:?} weights {:?} coefficients {:?}: fit {:?}", K, s.name, s.xs, w, c, fit.c));
            // the fitted polynomial evaluates (Func1::f) to the samples
            let ymax = ys.iter().fold(1.0f64, |a, b| a.max(b.abs()));
            r.check((0..n).all(|i| (fit.f(s.xs[i]) - ys[i]).abs() <= s.tol * 100.0 * ymax), "fit of exact samples interpolates them", || format!("K={} abscissae '{}' {:?} weights {:?} coefficients {:?}: fit {:?}", K, s.name, s.xs, w, c, fit.c));
        }
        // (b) arbitrary data: weighted normal equations (residual orthogonal to every monomial column), local optimality
        for d in DATA.iter() {
            let ys = d[..n].to_vec();
            r.case();
            let fit = Polynomial::<K>::least_squares(&s.xs, &ys, w.as_deref());
            let desc = || format!("K={} abscissae '{}' {:?} weights {:?} data {:?}: fit {:?}", K, s.name, s.xs, w, ys, fit.c);
            let res: Vec<f64> = (0..n).map(|i| ys[i] - horner(&fit.c, s.xs[i])).collect();
            let mut ok = true;
            for j in 0..K {
                let dot: f64 = (0..n).map(|i| wv[i] * pw(s.xs[i], j) * res[i]).sum();
                let scale: f64 = (0..n).map(|i| wv[i] * pw(s.xs[i], j).abs() * (ys[i].abs() + (0..K).map(|k| (fit.c[k] * pw(s.xs[i], k)).abs()).sum::<f64>())).sum();
                if !(dot.abs() <= s.tol * scale) { ok = false; }
            }
            r.check(ok, "residual orthogonal to every monomial column in the weighted inner product", desc);
            let ss = |c: &[f64]| -> f64 { (0..n).map(|i| wv[i] * (ys[i] - horner(c, s.xs[i])).powi(2)).sum() };
            let base = ss(&fit.c);
            let mut opt = true;
            for j in 0..K { for h in [0.03125, -0.03125, 0.5, -0.5] {
                let mut c2 = fit.c; c2[j] += h * (1.0 + c2[j].abs());
                if !(ss(&c2) >= base * (1.0 - 1e-9) - 1e-12) { opt = false; }
            } }
            r.check(opt, "no perturbed coefficient vector has a smaller weighted sum of squares", desc);
        }
    }
}

// ---------------------------------------------------------------- round 2: ordinates exactly 0.0, exactly K samples, zero weights
/// least_squares behind catch_unwind: a panic of the real code (singular normal matrix) is reported as a failing input
fn fit_caught<const K: usize>(xs: &[f64], ys: &[f64], w: Option<&[f64]>) -> Option<Polynomial<K>> {
    std::panic::catch_unwind(|| Polynomial::<K>::least_squares(xs, ys, w)).ok()
}
/// coefficients (lowest first) of prod (x - roots[j]) * (x + 5)^(K - 1 - roots.len()); small integers, exact
fn poly_with_roots<const K: usize>(roots: &[f64]) -> [f64; K] {
    let mut c = vec![1.0];
    let mut fs: Vec<f64> = roots.to_vec();
    while fs.len() < K - 1 { fs.push(-5.0); }
    for f in fs.iter() {
        let mut n = vec![0.0; c.len() + 1];
        for (k, v) in c.iter().enumerate() { n[k + 1] += v; n[k] -= f * v; }
        c = n;
    }
    let mut out = [0.0; K];
    for k in 0..K { out[k] = c[k]; }
    out
}
fn check_poly_zeros<const K: usize>(r: &mut Report) {
    let all = [-1.0, 0.0, 1.0, 3.0, 2.0, -2.0, 4.0, 6.0];
    let zdata: [[f64; 8]; 2] = [[0.0, -1.0, 0.0, 1.0, 0.0, 0.0, 2.0, 0.0], [3.0, 0.0, 0.0, 0.0, -2.0, 0.0, 0.5, 0.0]];
    let zw = [1.0, 2.0, 0.0, 3.0, 1.5, 0.25, 4.0, 2.0];
    let tol = 1e-6;
    for n in [K, K + 1, 8] {
        if n > all.len() { continue; }
        let xs = all[..n].to_vec();
        let mut wsets: Vec<Option<Vec<f64>>> = vec![None, Some(WEIGHTS[0][..n].to_vec())];
        if n >= K + 1 { wsets.push(Some(zw[..n].to_vec())); }
        for w in wsets.iter() {
            let wv: Vec<f64> = match w { Some(v) => v.clone(), None => vec![1.0; n] };
            // (a) exact samples of a polynomial with 1 / K-1 of its roots at the abscissae: ordinates exactly 0.0 there
            for m in [1, K - 1] {
                let c: [f64; K] = poly_with_roots::<K>(&xs[..m]);
                let ys: Vec<f64> = xs.iter().map(|x| horner(&c, *x)).collect();
                let zeros = ys.iter().filter(|y| **y == 0.0).count();
                r.case();
                let desc = |f: &Option<Polynomial<K>>| format!("K={} abscissae {:?} ordinates {:?} ({} of them exactly 0.0) weights {:?} coefficients {:?}: fit {:?}", K, xs, ys, zeros, w, c, f.as_ref().map(|p| p.c));
                let fit = fit_caught::<K>(&xs, &ys, w.as_deref());
                r.check(zeros >= m && fit.is_some(), "least_squares returns (no panic) on >= K distinct abscissae with ordinates that are exactly 0.0", || desc(&fit));
                if let Some(f) = &fit {
                    let cmax = c.iter().fold(1.0f64, |a, b| a.max(b.abs()));
                    r.check((0..K).all(|k| (f.c[k] - c[k]).abs() <= tol * cmax), "exact samples of a polynomial of the fitted size return that polynomial", || desc(&fit));
                }
            }
            // (b) arbitrary data with several ordinates exactly 0.0: weighted normal equations; with exactly K samples the fit interpolates
            for d in zdata.iter() {
                let ys = d[..n].to_vec();
                r.case();
                let fit = fit_caught::<K>(&xs, &ys, w.as_deref());
                let desc = |f: &Option<Polynomial<K>>| format!("K={} abscissae {:?} data {:?} weights {:?}: fit {:?}", K, xs, ys, w, f.as_ref().map(|p| p.c));
                r.check(fit.is_some(), "least_squares returns (no panic) on >= K distinct abscissae with ordinates that are exactly 0.0", || desc(&fit));
                if let Some(f) = &fit {
                    let res: Vec<f64> = (0..n).map(|i| ys[i] - horner(&f.c, xs[i])).collect();
                    let mut ok = true;
                    for j in 0..K {
                        let dot: f64 = (0..n).map(|i| wv[i] * pw(xs[i], j) * res[i]).sum();
                        let scale: f64 = (0..n).map(|i| wv[i] * pw(xs[i], j).abs() * (ys[i].abs() + (0..K).map(|k| (f.c[k] * pw(xs[i], k)).abs()).sum::<f64>())).sum();
                        if !(dot.abs() <= tol * scale) { ok = false; }
                    }
                    r.check(ok, "residual orthogonal to every monomial column in the weighted inner product", || desc(&fit));
                    if n == K {
                        let ymax = ys.iter().fold(1.0f64, |a, b| a.max(b.abs()));
                        r.check(res.iter().all(|e| e.abs() <= tol * 100.0 * ymax), "fit of exactly K samples interpolates them", || desc(&fit));
                    }
                }
            }
        }
    }
}

fn check_series(r: &mut Report) {
    let c13: Vec<f64> = (-2..=2).map(|k| 1.0 + k as f64 / 8192.0).collect();
    let sets: Vec<(&str, Vec<f64>, f64)> = vec![
        ("asymmetric integers", vec![-2.0, -1.0, 0.0, 1.0, 3.0, 4.0, 6.0], 1e-9),
        ("offset from zero", vec![10.0, 10.5, 11.0, 12.0, 12.25, 14.0], 1e-9),
        ("two points", vec![1.0, 3.0], 1e-9),
        ("five distinct values within 2.5e-4 of 1.0", c13, 1e-5),
        ("distinct values within 0.004 of 0", vec![-0.00390625, -0.001953125, 0.0, 0.0009765625, 0.00390625], 1e-7),
        ("four values {2,3,4,6} * 2^-21 in [9.5e-7, 2.9e-6]", [2.0, 3.0, 4.0, 6.0].iter().map(|k| k / 2097152.0).collect(), 1e-9),
        ("six values k/256 in [0, 0.02]", (0..6).map(|k| k as f64 / 256.0).collect(), 1e-9),
    ];
    for (name, xs, tol) in sets.iter() {
        let n = xs.len();
        let mut ysets: Vec<(Vec<f64>, Option<(f64, f64)>)> = vec![];
        for (m, b) in [(3.0, -2.0), (-0.5, 4.0), (128.0, 1.0)] { ysets.push((xs.iter().map(|x| m * x + b).collect(), Some((m, b)))); }
        for d in DATA.iter() { ysets.push((d[..n].to_vec(), None)); }
        for (ys, exact) in ysets.iter() {
            r.case();
            let s = match Series1::try_new(xs.clone(), ys.clone()) { Ok(s) => s, Err(_) => { r.check(false, "Series1::try_new accepts ascending abscissae", || format!("{:?}", xs)); continue; } };
            let line = s.best_fit_line();
            let fit = Polynomial::<2>::least_squares(xs, ys, None);
            let desc = || format!("Series1 '{}' x {:?} y {:?}: best_fit_line [b, m] = {:?}, degree-1 fit {:?}", name, xs, ys, line.c, fit.c);
            let scale = 1.0 + fit.c[0].abs().max(fit.c[1].abs());
            r.check((line.c[0] - fit.c[0]).abs() <= tol * scale && (line.c[1] - fit.c[1]).abs() <= tol * scale, "Series1::best_fit_line agrees with the degree-1 least-squares fit", desc);
            if let Some((m, b)) = exact {
                let sc = 1.0 + m.abs().max(b.abs());
                r.check((line.c[1] - m).abs() <= tol * sc && (line.c[0] - b).abs() <= tol * sc, "Series1::best_fit_line of exact samples of a line returns that line", desc);
            }
            // normal equations of the line: sum res = 0, sum x*res = 0
            let res: Vec<f64> = (0..n).map(|i| ys[i] - (line.c[1] * xs[i] + line.c[0])).collect();
            let s0: f64 = res.iter().sum();
            let s1: f64 = (0..n).map(|i| xs[i] * res[i]).sum();
            let sc: f64 = (0..n).map(|i| (1.0 + xs[i].abs()) * (ys[i].abs() + (line.c[1] * xs[i]).abs() + line.c[0].abs())).sum();
            r.check(s0.abs() <= tol * sc && s1.abs() <= tol * sc, "Series1::best_fit_line residual orthogonal to the columns 1 and x", desc);
        }
    }
}

// ---------------------------------------------------------------- circles
fn check_three_points(r: &mut Report) {
    // general position: integer / dyadic triples with |orientation determinant| >= 1
    let pts: Vec<Point2> = [(0.0, 0.0), (4.0, 0.0), (0.0, 3.0), (-2.0, 5.0), (7.0, 7.0), (1.5, -2.25), (-6.0, -1.0), (10.0, 2.0), (100.0, 200.0), (103.0, 196.0)].iter().map(|(x, y)| Point2::new(*x, *y)).collect();
    for a in 0..pts.len() { for b in 0..pts.len() { for c in 0..pts.len() {
        if a == b || b == c || a == c { continue; }
        let (p0, p1, p2) = (pts[a], pts[b], pts[c]);
        let det = (p0.x - p1.x) * (p1.y - p2.y) - (p1.x - p2.x) * (p0.y - p1.y);
        if det.abs() < 1.0 { continue; }
        r.case();
        let desc = || format!("from_3_points({:?}, {:?}, {:?})", (p0.x, p0.y), (p1.x, p1.y), (p2.x, p2.y));
        match Circle2::from_3_points(p0, p1, p2) {
            Err(_) => r.check(false, "three points in general position yield a circle", desc),
            Ok(c) => {
                let ok = [p0, p1, p2].iter().all(|q| { let d = ((q.x - c.x()).powi(2) + (q.y - c.y()).powi(2)).sqrt(); (d - c.r()).abs() <= 1e-9 * (1.0 + c.r()) });
                r.check(ok && c.r().is_finite() && c.r() > 0.0, "three-point circle passes through its three points", || format!("{} -> centre ({:?}, {:?}) r {:?}", desc(), c.x(), c.y(), c.r()));
            }
        }
    } } }
    // collinear triples: exactly collinear (integers, dyadics) and collinear up to rounding (decimal base point and direction)
    let lines: [((f64, f64), (f64, f64)); 6] = [((0.0, 0.0), (1.0, 0.0)), ((1.0, 2.0), (0.0, 1.0)), ((-3.0, 1.0), (2.0, 1.0)), ((0.5, 0.25), (1.5, -2.0)),
        ((100.1, 200.3), (0.7, 1.3)), ((-7.3, 0.9), (0.3, -1.1))];
    let ts = [-3.0, -1.0, 0.0, 0.5, 1.0, 2.5, 7.0, 10.0];
    for (o, d) in lines.iter() { for a in 0..ts.len() { for b in 0..ts.len() { for c in 0..ts.len() {
        if a == b || b == c || a == c { continue; }
        let q = |t: f64| Point2::new(o.0 + d.0 * t, o.1 + d.1 * t);
        let (p0, p1, p2) = (q(ts[a]), q(ts[b]), q(ts[c]));
        r.case();
        let res = Circle2::from_3_points(p0, p1, p2);
        r.check(res.is_err(), "collinear points are rejected", || format!("from_3_points({:?}, {:?}, {:?}) (points {:?} + t*{:?}, t = {:?}, {:?}, {:?}) -> {:?}", (p0.x, p0.y), (p1.x, p1.y), (p2.x, p2.y), o, d, ts[a], ts[b], ts[c], res.as_ref().map(|c| (c.x(), c.y(), c.r())).map_err(|_| "Err")));
    } } } }
}

fn arc_points(cx: f64, cy: f64, rad: f64, a0_deg: f64, sweep_deg: f64, n: usize, amp: f64) -> Vec<Point2> {
    (0..n).map(|i| {
        let a = (a0_deg + sweep_deg * i as f64 / (n - 1) as f64).to_radians();
        // deterministic, asymmetric radial perturbation (zero when amp == 0)
        let k = i as f64;
        let e = amp * (0.5 * (((k * 7.0 + 3.0) % 11.0) / 11.0 - 0.35) + 0.5 * (3.0 * a).cos() * if i % 3 == 0 { 1.0 } else { 0.4 });
        Point2::new(cx + (rad + e) * a.cos(), cy + (rad + e) * a.sin())
    }).collect()
}
/// gradient of S(cx, cy, r) = sum (|p - c| - r)^2 and the scale sum 2*| |p - c| - r |
fn gradient(points: &[Point2], c: &Circle2) -> ([f64; 3], f64) {
    let mut g = [0.0; 3];
    let mut scale = 0.0;
    for q in points {
        let (vx, vy) = (q.x - c.x(), q.y - c.y());
        let l = (vx * vx + vy * vy).sqrt();
        let d = l - c.r();
        g[0] += 2.0 * d * (-vx / l); g[1] += 2.0 * d * (-vy / l); g[2] -= 2.0 * d;
        scale += 2.0 * d.abs();
    }
    (g, scale)
}
fn check_circle_fit(r: &mut Report) {
    let circles = [(0.0, 0.0, 1.0), (3.0, -2.0, 5.0), (-40.0, 25.0, 12.5), (0.5, 0.25, 0.125)];
    let arcs = [(0.0, 360.0), (17.0, 60.0), (200.0, 90.0), (-45.0, 135.0), (10.0, 200.0), (90.0, 270.0)];
    // guesses: centre displaced by up to 0.15 r, radius scaled by 0.85 .. 1.15
    let guesses = [(0.0, 0.0, 1.0), (0.1, 0.0, 0.9), (-0.1, 0.05, 1.1), (0.05, -0.15, 1.15), (-0.08, -0.08, 0.85), (0.0, 0.15, 1.0)];
    for (cx, cy, rad) in circles { for (a0, sw) in arcs { for (gx, gy, gs) in guesses {
        let guess = Circle2::new(cx + gx * rad, cy + gy * rad, rad * gs);
        // exact samples: centre and radius are recovered
        let pts = arc_points(cx, cy, rad, a0, sw, 40, 0.0);
        r.case();
        let desc = |res: &Option<Circle2>| format!("fitting_circle(40 samples of circle ({:?}, {:?}, r {:?}) over [{:?}, {:?}] degrees, guess ({:?}, {:?}, r {:?}), All) -> {:?}", cx, cy, rad, a0, a0 + sw, guess.x(), guess.y(), guess.r(), res.map(|c| (c.x(), c.y(), c.r())));
        let res = Circle2::fitting_circle(&pts, &guess, BestFit::All).ok();
        let ok = match res { Some(c) => (c.x() - cx).abs() <= 1e-6 * rad && (c.y() - cy).abs() <= 1e-6 * rad && (c.r() - rad).abs() <= 1e-6 * rad, None => false };
        r.check(ok, "circle fit from a nearby guess recovers centre and radius from exact samples (arc >= 60 degrees)", || desc(&res));
        // perturbed samples: a stationary point of the summed squared radial residuals
        for amp in [0.02, 0.08] {
            let pts = arc_points(cx, cy, rad, a0, sw, 40, amp * rad);
            r.case();
            let res = Circle2::fitting_circle(&pts, &guess, BestFit::All).ok();
            let d2 = || format!("perturbed by up to {:?}: {}", amp * rad, desc(&res));
            match res {
                None => r.check(false, "circle fit of perturbed samples terminates successfully", d2),
                Some(c) => { let (g, scale) = gradient(&pts, &c);
                    let gn = (g[0] * g[0] + g[1] * g[1] + g[2] * g[2]).sqrt();
                    r.check(gn <= 1e-5 * scale, "circle fit stops at a stationary point of the summed squared radial residuals", || format!("{} gradient {:?} (sum of 2|residual| = {:?})", d2(), g, scale)); }
            }
        }
    } } }
}

fn check_ransac(r: &mut Report) {
    // 36 samples of the generating circle (rounded to 2^-20) + outliers inside and outside; tolerance 0.01
    for (cx, cy, rad, n_out) in [(0.0, 0.0, 10.0, 8usize), (5.0, -3.0, 4.0, 12), (-20.0, 11.0, 7.5, 18)] {
        let q = |v: f64| (v * 1048576.0).round() / 1048576.0;
        let mut pts: Vec<Point2> = (0..36).map(|i| { let a = (i as f64 * 10.0 + 3.0).to_radians(); Point2::new(q(cx + rad * a.cos()), q(cy + rad * a.sin())) }).collect();
        for k in 0..n_out {
            let a = (k as f64 * 47.0 + 11.0).to_radians();
            let d = rad * (0.2 + 0.15 * ((k * 5) % 7) as f64) + if k % 2 == 0 { rad * 0.9 } else { 0.0 };
            // insert the outliers between the inliers
            pts.insert((k * 3 + 1) % pts.len(), Point2::new(q(cx + d * a.cos()), q(cy + d * a.sin())));
        }
        let tol = 0.01;
        let gen = Circle2::new(cx, cy, rad);
        let count = |c: &Circle2| pts.iter().filter(|p| c.distance_to(p).abs() < tol).count();
        r.case();
        let res = Circle2::ransac(&pts, tol, None, None, None);
        let desc = || format!("ransac({} points: 36 on circle ({:?}, {:?}, r {:?}) + {} outliers, tol 0.01, default iterations) -> {:?}; generating circle has {} inliers", pts.len(), cx, cy, rad, n_out, res.as_ref().map(|c| (c.x(), c.y(), c.r(), count(c))).map_err(|_| "Err"), count(&gen));
        r.check(match &res { Ok(c) => count(c) >= count(&gen), Err(_) => false }, "seeded RANSAC circle has at least as many inliers as the generating circle", desc);
        // with a radius window that contains the generating radius
        let res2 = Circle2::ransac(&pts, tol, Some(300), Some(rad * 0.9), Some(rad * 1.1));
        r.check(match &res2 { Ok(c) => count(c) >= count(&gen) && c.r() >= rad * 0.9 && c.r() <= rad * 1.1, Err(_) => false }, "seeded RANSAC circle within a radius window has at least as many inliers as the generating circle", || format!("{} ; windowed -> {:?}", desc(), res2.as_ref().map(|c| (c.x(), c.y(), c.r(), count(c))).map_err(|_| "Err")));
    }
}

// ---------------------------------------------------------------- round 2: few samples, small circles, sigma-clipping mode, exact radius bounds
fn mode_name(m: &BestFit) -> String { match m { BestFit::All => "All".to_string(), BestFit::Gaussian(s) => format!("Gaussian({:?})", s) } }
fn recovered(res: &Option<Circle2>, cx: f64, cy: f64, rad: f64) -> bool {
    match res { Some(c) => (c.x() - cx).abs() <= 1e-6 * rad && (c.y() - cy).abs() <= 1e-6 * rad && (c.r() - rad).abs() <= 1e-6 * rad, None => false }
}
/// the 12 integer points of x^2 + y^2 = 25 in counter-clockwise order starting at (5, 0)
const LATTICE: [(f64, f64); 12] = [(5.0, 0.0), (4.0, 3.0), (3.0, 4.0), (0.0, 5.0), (-3.0, 4.0), (-4.0, 3.0), (-5.0, 0.0), (-4.0, -3.0), (-3.0, -4.0), (0.0, -5.0), (3.0, -4.0), (4.0, -3.0)];

fn check_circle_fit_round2(r: &mut Report) {
    const CLAUSE: &str = "circle fit from a nearby guess recovers centre and radius from exact samples (arc >= 60 degrees)";
    // (a) exactly 3, 4, 5 samples on small circles / short arcs, both modes, ring of guesses + concentric guesses with a wrong radius
    let circles = [(0.0, 0.0, 2.5e-4), (3.0, -2.0, 2.5e-4), (0.5, 0.25, 1.0e-3), (0.0, 0.0, 1.0e-3), (-1.0, 2.0, 0.125)];
    let guesses = [(0.0, 0.0, 1.0), (0.1, 0.0, 0.9), (-0.1, 0.05, 1.1), (0.05, -0.15, 1.15), (-0.08, -0.08, 0.85), (0.0, 0.15, 1.0), (0.0, 0.0, 0.85), (0.0, 0.0, 1.15), (0.0, 0.0, 0.75)];
    for (cx, cy, rad) in circles { for n in [3usize, 4, 5] {
        let arcs = [(20.0, 60.0), (200.0, 100.0), (-45.0, 135.0), (10.0, 360.0 * (n - 1) as f64 / n as f64)];
        for (a0, sw) in arcs { for (gx, gy, gs) in guesses { for mode in [BestFit::All, BestFit::Gaussian(3.0)] {
            let guess = Circle2::new(cx + gx * rad, cy + gy * rad, rad * gs);
            let pts = arc_points(cx, cy, rad, a0, sw, n, 0.0);
            r.case();
            let res = Circle2::fitting_circle(&pts, &guess, mode).ok();
            r.check(recovered(&res, cx, cy, rad), CLAUSE, || format!("fitting_circle({} samples of circle ({:?}, {:?}, r {:?}) over [{:?}, {:?}] degrees: {:?}, guess ({:?}, {:?}, r {:?}), {}) -> {:?}", n, cx, cy, rad, a0, a0 + sw, pts.iter().map(|p| (p.x, p.y)).collect::<Vec<_>>(), guess.x(), guess.y(), guess.r(), mode_name(&mode), res.map(|c| (c.x(), c.y(), c.r()))));
        } } }
    } }
    // (b) exactly representable samples (integer points of x^2+y^2=25, shifted by integers / scaled by 1/16): with a concentric
    // guess all initial residuals are EXACTLY equal (standard deviation exactly 0.0 in the sigma-clipping mode)
    let subsets: Vec<(&str, Vec<usize>)> = vec![
        ("3 points", vec![2, 5, 9]), ("4 axis points", vec![0, 3, 6, 9]), ("5 points on a 106 degree arc", vec![10, 11, 0, 1, 2]),
        ("3 points on a 74 degree arc", vec![0, 1, 2]), ("all 12 points", (0..12).collect()),
    ];
    for (ox, oy, sc) in [(0.0, 0.0, 1.0), (7.0, -3.0, 1.0), (0.5, 0.25, 0.0625)] { for (sn, idx) in subsets.iter() {
        let pts: Vec<Point2> = idx.iter().map(|k| Point2::new(ox + LATTICE[*k].0 * sc, oy + LATTICE[*k].1 * sc)).collect();
        let rad = 5.0 * sc;
        for (gx, gy, gr) in [(0.0, 0.0, 4.0), (0.0, 0.0, 6.0), (0.0, 0.0, 5.5), (0.0, 0.0, 5.0), (0.25, -0.5, 4.5)] {
            let mut modes = vec![BestFit::All, BestFit::Gaussian(3.0)];
            if idx.len() <= 5 { modes.push(BestFit::Gaussian(2.0)); }
            for mode in modes {
                let guess = Circle2::new(ox + gx * sc, oy + gy * sc, gr * sc);
                r.case();
                let res = Circle2::fitting_circle(&pts, &guess, mode).ok();
                r.check(recovered(&res, ox, oy, rad), CLAUSE, || format!("fitting_circle({}: {:?} on circle ({:?}, {:?}, r {:?}), guess ({:?}, {:?}, r {:?}), {}) -> {:?}", sn, pts.iter().map(|p| (p.x, p.y)).collect::<Vec<_>>(), ox, oy, rad, guess.x(), guess.y(), guess.r(), mode_name(&mode), res.map(|c| (c.x(), c.y(), c.r()))));
            }
        }
    } }
    // (c) the 40-sample exact arcs of round 1 in the sigma-clipping mode
    let circles = [(0.0, 0.0, 1.0), (3.0, -2.0, 5.0), (-40.0, 25.0, 12.5), (0.5, 0.25, 0.125)];
    let arcs = [(0.0, 360.0), (17.0, 60.0), (200.0, 90.0), (-45.0, 135.0), (10.0, 200.0), (90.0, 270.0)];
    for (cx, cy, rad) in circles { for (a0, sw) in arcs { for (gx, gy, gs) in guesses {
        let guess = Circle2::new(cx + gx * rad, cy + gy * rad, rad * gs);
        let pts = arc_points(cx, cy, rad, a0, sw, 40, 0.0);
        r.case();
        let res = Circle2::fitting_circle(&pts, &guess, BestFit::Gaussian(3.0)).ok();
        r.check(recovered(&res, cx, cy, rad), CLAUSE, || format!("fitting_circle(40 samples of circle ({:?}, {:?}, r {:?}) over [{:?}, {:?}] degrees, guess ({:?}, {:?}, r {:?}), Gaussian(3.0)) -> {:?}", cx, cy, rad, a0, a0 + sw, guess.x(), guess.y(), guess.r(), res.map(|c| (c.x(), c.y(), c.r()))));
    } } }
}

fn check_ransac_round2(r: &mut Report) {
    // the 12 integer points of the generating circle (radius exactly 5.0; every three-point circle through three of them has
    // centre and radius exact) + 7 outliers; radius bounds exactly at the generating radius (documented as inclusive)
    for (ox, oy) in [(0.0, 0.0), (7.0, -3.0)] {
        let mut pts: Vec<Point2> = LATTICE.iter().map(|(x, y)| Point2::new(ox + x, oy + y)).collect();
        for (k, (x, y)) in [(1.0, 1.0), (2.0, -1.0), (7.0, 7.0), (-6.0, 2.0), (0.0, 3.0), (-8.0, -8.0), (2.0, 6.0)].iter().enumerate() { pts.insert((k * 3 + 1) % pts.len(), Point2::new(ox + x, oy + y)); }
        let tol = 0.01;
        let gen = Circle2::new(ox, oy, 5.0);
        let count = |c: &Circle2| pts.iter().filter(|p| c.distance_to(p).abs() < tol).count();
        for (lo, hi) in [(None, Some(5.0)), (Some(5.0), None), (Some(5.0), Some(5.0)), (Some(2.5), Some(5.0)), (Some(5.0), Some(10.0)), (None, None)] {
            r.case();
            let res = Circle2::ransac(&pts, tol, None, lo, hi);
            let within = |c: &Circle2| lo.map_or(true, |v| c.r() >= v) && hi.map_or(true, |v| c.r() <= v);
            r.check(match &res { Ok(c) => count(c) >= count(&gen) && within(c), Err(_) => false }, "seeded RANSAC circle within a radius window has at least as many inliers as the generating circle",
                || format!("ransac({:?}: the 12 integer points of circle ({:?}, {:?}, r 5) + 7 outliers, tol 0.01, default iterations, min_r {:?}, max_r {:?}) -> {:?}; generating circle has {} inliers", pts.iter().map(|p| (p.x, p.y)).collect::<Vec<_>>(), ox, oy, lo, hi, res.as_ref().map(|c| (c.x(), c.y(), c.r(), count(c))).map_err(|_| "Err"), count(&gen)));
        }
    }
}

// ---------------------------------------------------------------- round 4: LARGE inputs whose ORDER correlates with circle membership
/// deterministic scatter over [-12, 12]^2 (Weyl sequence, no RNG)
fn scatter(k: usize) -> Point2 {
    let fx = (k as f64 * 0.6180339887498949).fract();
    let fy = (k as f64 * 0.41421356237309515 + 0.25).fract();
    Point2::new(-12.0 + 24.0 * fx, -12.0 + 24.0 * fy)
}
/// `n` points: 35% of them samples of the generating circle, 25% (at most the slots available) samples of a smaller
/// decoy circle, the rest scattered outliers.  `slot(i)` says what index i holds: 1 = generating circle, 2 = decoy,
/// 0 = outlier (a class whose samples are used up is continued with outliers)
fn ordered_cloud(n: usize, gen: (f64, f64, f64), decoy: (f64, f64, f64), slot: &dyn Fn(usize) -> u8) -> (Vec<Point2>, usize, usize) {
    let (n_gen, n_decoy) = (n * 35 / 100, n * 25 / 100);
    let (mut g, mut d, mut o) = (0usize, 0usize, 0usize);
    let mut pts = Vec::with_capacity(n);
    for i in 0..n {
        let s = slot(i);
        if s == 1 && g < n_gen {
            let a = 0.1 + 6.1 * g as f64 / n_gen as f64;
            pts.push(Point2::new(gen.0 + gen.2 * a.cos(), gen.1 + gen.2 * a.sin()));
            g += 1;
        } else if s == 2 && d < n_decoy {
            let a = 0.3 + 6.0 * d as f64 / n_decoy as f64;
            pts.push(Point2::new(decoy.0 + decoy.2 * a.cos(), decoy.1 + decoy.2 * a.sin()));
            d += 1;
        } else {
            pts.push(scatter(o));
            o += 1;
        }
    }
    (pts, g, d)
}
fn check_ransac_large(r: &mut Report) {
    const CLAUSE: &str = "seeded RANSAC circle has at least as many inliers as the generating circle (>= 2000 points, point order correlated with circle membership)";
    let tol = 1.0e-3;
    for (gen, decoy) in [((2.0, -1.0, 3.0), (-6.0, 4.0, 1.5)), ((-4.0, 3.0, 5.0), (6.5, -5.0, 2.0))] {
        for n in [2000usize, 3000, 5000] {
            let m = n / 1000; // 2, 3, 5: the period of the interleaved layouts
            let mut layouts: Vec<(String, Box<dyn Fn(usize) -> u8>)> = Vec::new();
            for dres in [0usize, 1, m - 1] {
                layouts.push((format!("interleaved: decoy samples on the indices i % {} == {}, generating samples on the other indices", m, dres), Box::new(move |i| if i % m == dres { 2 } else { 1 })));
            }
            layouts.push(("blocks: decoy samples first, generating samples last".to_string(), Box::new(move |i| if i < n * 3 / 10 { 2 } else if i >= n * 6 / 10 { 1 } else { 0 })));
            layouts.push(("blocks: generating samples first, decoy samples last".to_string(), Box::new(move |i| if i < n * 4 / 10 { 1 } else if i >= n * 7 / 10 { 2 } else { 0 })));
            layouts.push(("blocks: outliers first, then decoy samples, generating samples in the last 35%".to_string(), Box::new(move |i| if i >= n - n * 35 / 100 { 1 } else if i >= n * 3 / 10 { 2 } else { 0 })));
            for (lname, slot) in layouts.iter() {
                let (pts, g, d) = ordered_cloud(n, gen, decoy, slot.as_ref());
                let gc = Circle2::new(gen.0, gen.1, gen.2);
                let count = |c: &Circle2| pts.iter().filter(|p| c.distance_to(p).abs() < tol).count();
                let want = count(&gc);
                for (it, lo, hi) in [(None, None, None), (Some(400usize), Some(1.0), Some(8.0))] {
                    r.case();
                    let res = Circle2::ransac(&pts, tol, it, lo, hi);
                    let desc = || format!("ransac({} points [{}]: {} samples of circle {:?}, {} samples of decoy circle {:?}, the rest scattered; tol {:?}, iterations {:?}, min_r {:?}, max_r {:?}) -> {:?}; generating circle has {} inliers",
                        n, lname, g, gen, d, decoy, tol, it, lo, hi, res.as_ref().map(|c| (c.x(), c.y(), c.r(), count(c))).map_err(|_| "Err"), want);
                    r.check(g > d && want >= g && match &res { Ok(c) => count(c) >= want, Err(_) => false }, CLAUSE, desc);
                }
            }
        }
    }
}

// ---------------------------------------------------------------- round 4b: contamination just OUTSIDE the tolerance band
/// exact samples of the generating circle on a 1.6 rad arc + outliers radially offset by 1.4 .. 10 tolerances (alternating
/// inside / outside): wrong candidates through two samples and an outlier are supported by a majority of the points, but
/// by fewer than the generating circle
fn check_ransac_near_band(r: &mut Report) {
    const CLAUSE: &str = "seeded RANSAC circle has at least as many inliers as the generating circle (contamination a few tolerances off the circle)";
    for (cx, cy, rad) in [(2.0, -1.0, 10.0), (-3.0, 4.0, 4.0)] {
        let tol = 0.005 * rad;
        for n_in in [20usize, 26] { for n_out in [9usize, 11, 13] { for base in [0.007, 0.009, 0.012] { for interleave in [false, true] { for rot in 0..8usize {
            let mut pts: Vec<Point2> = (0..n_in).map(|i| { let a = 0.3 + i as f64 * (1.6 / (n_in as f64 - 1.0)); Point2::new(cx + rad * a.cos(), cy + rad * a.sin()) }).collect();
            for j in 0..n_out {
                let a = 0.35 + j as f64 * (1.5 / n_out as f64);
                let off = if j % 2 == 0 { 1.0 } else { -1.0 } * base * rad * (1.0 + 0.3 * j as f64);
                let q = Point2::new(cx + (rad + off) * a.cos(), cy + (rad + off) * a.sin());
                if interleave { pts.insert((2 * j + 1).min(pts.len()), q); } else { pts.push(q); }
            }
            let n = pts.len();
            pts.rotate_left((rot * 7) % n);
            let gen = Circle2::new(cx, cy, rad);
            let count = |c: &Circle2| pts.iter().filter(|p| c.distance_to(p).abs() < tol).count();
            let want = count(&gen);
            r.case();
            let res = Circle2::ransac(&pts, tol, None, None, None);
            r.check(want == n_in && match &res { Ok(c) => count(c) >= want, Err(_) => false }, CLAUSE,
                || format!("ransac({:?}: {} exact samples of circle ({:?}, {:?}, r {:?}) on a 1.6 rad arc + {} outliers radially offset by {:?} r * (1 + 0.3 j), alternating sides, {}, list rotated by {}; tol {:?}, default iterations) -> {:?}; generating circle has {} inliers",
                    pts.iter().map(|p| (p.x, p.y)).collect::<Vec<_>>(), n_in, cx, cy, rad, n_out, base, if interleave { "interleaved with the samples" } else { "appended" }, (rot * 7) % n, tol, res.as_ref().map(|c| (c.x(), c.y(), c.r(), count(c))).map_err(|_| "Err"), want));
        } } } } }
    }
}

pub fn run() -> Option<Report> {
    let mut r = Report::new("polynomial sizes K=2..=6 x 6 abscissa sets (asymmetric integers, dyadic offset from zero, uneven both signs, positive side, 7 values within 4e-4 of 1.0 [K=2], 9 values within 0.07 of -2 [K<=3]) x {no weights, 2 non-uniform positive weight vectors} x {3 exact coefficient vectors, 2 arbitrary data vectors}; Series1 lines on 5 abscissa sets incl. clustered distinct values x 5 data vectors; three-point circles on all ordered triples of 10 points with |det| >= 1 and on 6 lines x all ordered triples of 8 parameters (exactly collinear and collinear up to rounding); circle fit on 4 circles x 6 arcs (60..360 degrees, 40 samples) x 6 guesses (centre within 0.16 r, radius within 15%) x {exact, perturbed 2% r, perturbed 8% r}; RANSAC on 3 contaminated sample sets (36 inliers + 8/12/18 outliers); ROUND 2: polynomial sizes K=2..=6 on {K, K+1, 8} distinct integer abscissae with ordinates that are exactly 0.0 (exact samples of polynomials with 1 / K-1 roots at the abscissae, 2 data vectors with 3..5 zeros) x {no weights, positive weights, weights with one 0.0 [more than K samples]}, a panic counts as a failing input; tightly clustered distinct dyadic abscissae: six values k/256 in [0, 0.02] (K <= 3, coefficient tolerance 1e-7) and four values {2,3,4,6}*2^-21 in [9.5e-7, 2.9e-6] (K = 2, tolerance 1e-9), also for Series1; circle fit from exactly 3 / 4 / 5 samples on 5 circles (r = 2.5e-4, 1e-3, 0.125) x 4 arcs (60 .. 288 degrees) x 9 guesses (ring of round 1 + concentric with the radius off by 15% / 25%) x {All, Gaussian(3.0)}; exactly representable samples (integer points of x^2+y^2=25, shifted / scaled by 1/16, 5 subsets of 3..12 points) x 5 guesses (4 concentric with a wrong / the right radius) x {All, Gaussian(3.0), Gaussian(2.0)}; the 40-sample exact arcs in Gaussian(3.0) mode; RANSAC on the 12 integer points of a radius-5 circle + 7 outliers with min_r / max_r exactly 5.0 (6 windows x 2 centres); ROUND 4: RANSAC on LARGE inputs (2000 / 3000 / 5000 points: 35% exact samples of the generating circle, 25% of a smaller decoy circle, the rest scattered; 2 circle pairs) whose ORDER is correlated with circle membership - interleaved with period len/1000 (decoy samples on one residue class 0 / 1 / period-1, generating samples on the others) and 3 block layouts (generating samples first / last) - x {default iterations, 400 iterations with a radius window holding both circles}, tol 1e-3; RANSAC with contamination just outside the tolerance band: 20 / 26 exact samples on a 1.6 rad arc + 9 / 11 / 13 outliers radially offset by 1.4 .. 10 tolerances on alternating sides (3 base offsets, appended or interleaved, the list rotated by 8 amounts, 2 circles; 576 inputs), default iterations");
    for s in xsets().iter() {
        check_poly::<2>(&mut r, s); check_poly::<3>(&mut r, s); check_poly::<4>(&mut r, s); check_poly::<5>(&mut r, s); check_poly::<6>(&mut r, s);
    }
    let hook = std::panic::take_hook();
    std::panic::set_hook(Box::new(|_| {}));
    check_poly_zeros::<2>(&mut r); check_poly_zeros::<3>(&mut r); check_poly_zeros::<4>(&mut r); check_poly_zeros::<5>(&mut r); check_poly_zeros::<6>(&mut r);
    std::panic::set_hook(hook);
    check_series(&mut r);
    check_three_points(&mut r);
    check_circle_fit(&mut r);
    check_ransac(&mut r);
    check_circle_fit_round2(&mut r);
    check_ransac_round2(&mut r);
    check_ransac_large(&mut r);
    check_ransac_near_band(&mut r);
    let _ = close(0.0, 0.0);
    Some(r)
}
