//! C09 bounded: least-squares fits (polynomial, series line, circle) against their defining optimality conditions.
//! Polynomial sizes K = 2..=6 on asymmetric / offset / clustered abscissae with small integer or dyadic values (power
//! sums exact), with and without non-uniform positive weights; exact samples (coefficient recovery) and arbitrary data
//! (weighted normal equations). Circles: three-point circle on integer triples, circle fit on arcs of 60..360 degrees
//! from a ring of guesses, fixed-seed RANSAC on contaminated samples. Tolerances are scaled to the conditioning of
//! each family (stated next to it); every clause failure reports the data set.
use super::{close, Report};
use crate::common::BestFit;
use crate::func1::{Func1, Polynomial, Series1};
use crate::geom2::{Circle2, Point2};

fn pw(x: f64, k: usize) -> f64 { let mut r = 1.0; for _ in 0..k { r *= x; } r }
fn horner(c: &[f64], x: f64) -> f64 { let mut y = 0.0; for k in (0..c.len()).rev() { y = y * x + c[k]; } y }

// ---------------------------------------------------------------- polynomial least squares
struct XSet { name: &'static str, xs: Vec<f64>, /// largest K used on this set, relative tolerance of recovered coefficients
    max_k: usize, tol: f64 }

fn xsets() -> Vec<XSet> {
    let c13: Vec<f64> = (-3..=3).map(|k| 1.0 + k as f64 / 8192.0).collect(); // seven values within 3.7e-4 of 1.0
    vec![
        XSet { name: "asymmetric integers", xs: vec![-2.0, -1.0, 0.0, 1.0, 3.0, 4.0, 6.0], max_k: 6, tol: 1e-6 },
        XSet { name: "offset from zero, dyadic", xs: vec![2.0, 2.5, 3.0, 3.25, 4.0, 4.5, 5.0, 5.75], max_k: 5, tol: 1e-4 },
        XSet { name: "uneven, both signs", xs: vec![-3.0, -2.75, -1.0, 0.5, 0.75, 2.0, 3.5], max_k: 6, tol: 1e-6 },
        XSet { name: "positive side only", xs: vec![0.0, 0.25, 0.5, 1.0, 1.5, 1.75, 2.0, 3.0, 3.5], max_k: 6, tol: 1e-6 },
        XSet { name: "clustered within 4e-4 of 1.0", xs: c13, max_k: 2, tol: 1e-5 },
        XSet { name: "clustered within 0.07 of -2.0", xs: (-4..=4).map(|k| -2.0 + k as f64 / 64.0).collect(), max_k: 3, tol: 1e-5 },
    ]
}
const WEIGHTS: [[f64; 9]; 2] = [[1.0, 2.0, 0.5, 3.0, 1.5, 0.25, 4.0, 2.0, 0.75], [5.0, 0.125, 1.0, 1.0, 2.5, 3.0, 0.5, 6.0, 0.25]];
const COEFFS: [[f64; 6]; 3] = [[1.0, -2.0, 3.0, 0.5, -1.0, 2.0], [-4.0, 1.0, 0.0, 2.0, 0.25, -0.5], [0.0, 0.0, 0.0, 0.0, 0.0, 1.0]];
const DATA: [[f64; 9]; 2] = [[3.0, -1.0, 4.0, 1.0, -5.0, 9.0, 2.0, -6.0, 5.0], [0.5, 0.25, -2.0, 7.0, 1.0, -3.0, 8.0, 2.0, -0.75]];

fn check_poly<const K: usize>(r: &mut Report, s: &XSet) {
    if K > s.max_k { return; }
    let n = s.xs.len();
    let wsets: Vec<Option<Vec<f64>>> = vec![None, Some(WEIGHTS[0][..n].to_vec()), Some(WEIGHTS[1][..n].to_vec())];
    for w in wsets.iter() {
        let wv: Vec<f64> = match w { Some(v) => v.clone(), None => vec![1.0; n] };
        // (a) exact samples of a polynomial of size K: that polynomial is returned
        for cf in COEFFS.iter() {
            let mut c = [0.0; K];
            for k in 0..K { c[k] = cf[k]; }
            if cf[5] == 1.0 { c = [0.0; K]; c[K - 1] = 1.0; }
            let ys: Vec<f64> = s.xs.iter().map(|x| horner(&c, *x)).collect();
            r.case();
            let fit = Polynomial::<K>::least_squares(&s.xs, &ys, w.as_deref());
            let cmax = c.iter().fold(1.0f64, |a, b| a.max(b.abs()));
            let ok = (0..K).all(|k| (fit.c[k] - c[k]).abs() <= s.tol * cmax);
            r.check(ok, "exact samples of a polynomial of the fitted size return that polynomial", || format!("K={} abscissae '{}' {:?} weights {:?} coefficients {:?}: fit {:?}", K, s.name, s.xs, w, c, fit.c));
            // the fitted polynomial evaluates (Func1::f) to the samples
            let ymax = ys.iter().fold(1.0f64, |a, b| a.max(b.abs()));
            r.check((0..n).all(|i| (fit.f(s.xs[i]) - ys[i]).abs() <= s.tol * 100.0 * ymax), "fit of exact samples interpolates them", || format!("K={} abscissae '{}' {:?} weights {:?} coefficients {:?}: fit {:?}", K, s.name, s.xs, w, c, fit.c));
        }
        // (b) arbitrary data: weighted normal equations (residual orthogonal to every monomial column), local optimality
        for d in DATA.iter() {
            let ys = d[..n].to_vec();
            r.case();
            let fit = Polynomial::<K>::least_squares(&s.xs, &ys, w.as_deref());
            let desc = || format!("K={} abscissae '{}' {:?} weights {:?} data {:?}: fit {:?}", K, s.name, s.xs, w, ys, fit.c);
            let res: Vec<f64> = (0..n).map(|i| ys[i] - horner(&fit.c, s.xs[i])).collect();
            let mut ok = true;
            for j in 0..K {
                let dot: f64 = (0..n).map(|i| wv[i] * pw(s.xs[i], j) * res[i]).sum();
                let scale: f64 = (0..n).map(|i| wv[i] * pw(s.xs[i], j).abs() * (ys[i].abs() + (0..K).map(|k| (fit.c[k] * pw(s.xs[i], k)).abs()).sum::<f64>())).sum();
                if !(dot.abs() <= s.tol * scale) { ok = false; }
            }
            r.check(ok, "residual orthogonal to every monomial column in the weighted inner product", desc);
            let ss = |c: &[f64]| -> f64 { (0..n).map(|i| wv[i] * (ys[i] - horner(c, s.xs[i])).powi(2)).sum() };
            let base = ss(&fit.c);
            let mut opt = true;
            for j in 0..K { for h in [0.03125, -0.03125, 0.5, -0.5] {
                let mut c2 = fit.c; c2[j] += h * (1.0 + c2[j].abs());
                if !(ss(&c2) >= base * (1.0 - 1e-9) - 1e-12) { opt = false; }
            } }
            r.check(opt, "no perturbed coefficient vector has a smaller weighted sum of squares", desc);
        }
    }
}

fn check_series(r: &mut Report) {
    let c13: Vec<f64> = (-2..=2).map(|k| 1.0 + k as f64 / 8192.0).collect();
    let sets: Vec<(&str, Vec<f64>, f64)> = vec![
        ("asymmetric integers", vec![-2.0, -1.0, 0.0, 1.0, 3.0, 4.0, 6.0], 1e-9),
        ("offset from zero", vec![10.0, 10.5, 11.0, 12.0, 12.25, 14.0], 1e-9),
        ("two points", vec![1.0, 3.0], 1e-9),
        ("five distinct values within 2.5e-4 of 1.0", c13, 1e-5),
        ("distinct values within 0.004 of 0", vec![-0.00390625, -0.001953125, 0.0, 0.0009765625, 0.00390625], 1e-7),
    ];
    for (name, xs, tol) in sets.iter() {
        let n = xs.len();
        let mut ysets: Vec<(Vec<f64>, Option<(f64, f64)>)> = vec![];
        for (m, b) in [(3.0, -2.0), (-0.5, 4.0), (128.0, 1.0)] { ysets.push((xs.iter().map(|x| m * x + b).collect(), Some((m, b)))); }
        for d in DATA.iter() { ysets.push((d[..n].to_vec(), None)); }
        for (ys, exact) in ysets.iter() {
            r.case();
            let s = match Series1::try_new(xs.clone(), ys.clone()) { Ok(s) => s, Err(_) => { r.check(false, "Series1::try_new accepts ascending abscissae", || format!("{:?}", xs)); continue; } };
            let line = s.best_fit_line();
            let fit = Polynomial::<2>::least_squares(xs, ys, None);
            let desc = || format!("Series1 '{}' x {:?} y {:?}: best_fit_line [b, m] = {:?}, degree-1 fit {:?}", name, xs, ys, line.c, fit.c);
            let scale = 1.0 + fit.c[0].abs().max(fit.c[1].abs());
            r.check((line.c[0] - fit.c[0]).abs() <= tol * scale && (line.c[1] - fit.c[1]).abs() <= tol * scale, "Series1::best_fit_line agrees with the degree-1 least-squares fit", desc);
            if let Some((m, b)) = exact {
                let sc = 1.0 + m.abs().max(b.abs());
                r.check((line.c[1] - m).abs() <= tol * sc && (line.c[0] - b).abs() <= tol * sc, "Series1::best_fit_line of exact samples of a line returns that line", desc);
            }
            // normal equations of the line: sum res = 0, sum x*res = 0
            let res: Vec<f64> = (0..n).map(|i| ys[i] - (line.c[1] * xs[i] + line.c[0])).collect();
            let s0: f64 = res.iter().sum();
            let s1: f64 = (0..n).map(|i| xs[i] * res[i]).sum();
            let sc: f64 = (0..n).map(|i| (1.0 + xs[i].abs()) * (ys[i].abs() + (line.c[1] * xs[i]).abs() + line.c[0].abs())).sum();
            r.check(s0.abs() <= tol * sc && s1.abs() <= tol * sc, "Series1::best_fit_line residual orthogonal to the columns 1 and x", desc);
        }
    }
}

// ---------------------------------------------------------------- circles
fn check_three_points(r: &mut Report) {
    // general position: integer / dyadic triples with |orientation determinant| >= 1
    let pts: Vec<Point2> = [(0.0, 0.0), (4.0, 0.0), (0.0, 3.0), (-2.0, 5.0), (7.0, 7.0), (1.5, -2.25), (-6.0, -1.0), (10.0, 2.0), (100.0, 200.0), (103.0, 196.0)].iter().map(|(x, y)| Point2::new(*x, *y)).collect();
    for a in 0..pts.len() { for b in 0..pts.len() { for c in 0..pts.len() {
        if a == b || b == c || a == c { continue; }
        let (p0, p1, p2) = (pts[a], pts[b], pts[c]);
        let det = (p0.x - p1.x) * (p1.y - p2.y) - (p1.x - p2.x) * (p0.y - p1.y);
        if det.abs() < 1.0 { continue; }
        r.case();
        let desc = || format!("from_3_points({:?}, {:?}, {:?})", (p0.x, p0.y), (p1.x, p1.y), (p2.x, p2.y));
        match Circle2::from_3_points(p0, p1, p2) {
            Err(_) => r.check(false, "three points in general position yield a circle", desc),
            Ok(c) => {
                let ok = [p0, p1, p2].iter().all(|q| { let d = ((q.x - c.x()).powi(2) + (q.y - c.y()).powi(2)).sqrt(); (d - c.r()).abs() <= 1e-9 * (1.0 + c.r()) });
                r.check(ok && c.r().is_finite() && c.r() > 0.0, "three-point circle passes through its three points", || format!("{} -> centre ({:?}, {:?}) r {:?}", desc(), c.x(), c.y(), c.r()));
            }
        }
    } } }
    // collinear triples: exactly collinear (integers, dyadics) and collinear up to rounding (decimal base point and direction)
    let lines: [((f64, f64), (f64, f64)); 6] = [((0.0, 0.0), (1.0, 0.0)), ((1.0, 2.0), (0.0, 1.0)), ((-3.0, 1.0), (2.0, 1.0)), ((0.5, 0.25), (1.5, -2.0)),
        ((100.1, 200.3), (0.7, 1.3)), ((-7.3, 0.9), (0.3, -1.1))];
    let ts = [-3.0, -1.0, 0.0, 0.5, 1.0, 2.5, 7.0, 10.0];
    for (o, d) in lines.iter() { for a in 0..ts.len() { for b in 0..ts.len() { for c in 0..ts.len() {
        if a == b || b == c || a == c { continue; }
        let q = |t: f64| Point2::new(o.0 + d.0 * t, o.1 + d.1 * t);
        let (p0, p1, p2) = (q(ts[a]), q(ts[b]), q(ts[c]));
        r.case();
        let res = Circle2::from_3_points(p0, p1, p2);
        r.check(res.is_err(), "collinear points are rejected", || format!("from_3_points({:?}, {:?}, {:?}) (points {:?} + t*{:?}, t = {:?}, {:?}, {:?}) -> {:?}", (p0.x, p0.y), (p1.x, p1.y), (p2.x, p2.y), o, d, ts[a], ts[b], ts[c], res.as_ref().map(|c| (c.x(), c.y(), c.r())).map_err(|_| "Err")));
    } } } }
}

fn arc_points(cx: f64, cy: f64, rad: f64, a0_deg: f64, sweep_deg: f64, n: usize, amp: f64) -> Vec<Point2> {
    (0..n).map(|i| {
        let a = (a0_deg + sweep_deg * i as f64 / (n - 1) as f64).to_radians();
        // deterministic, asymmetric radial perturbation (zero when amp == 0)
        let k = i as f64;
        let e = amp * (0.5 * (((k * 7.0 + 3.0) % 11.0) / 11.0 - 0.35) + 0.5 * (3.0 * a).cos() * if i % 3 == 0 { 1.0 } else { 0.4 });
        Point2::new(cx + (rad + e) * a.cos(), cy + (rad + e) * a.sin())
    }).collect()
}
/// gradient of S(cx, cy, r) = sum (|p - c| - r)^2 and the scale sum 2*| |p - c| - r |
fn gradient(points: &[Point2], c: &Circle2) -> ([f64; 3], f64) {
    let mut g = [0.0; 3];
    let mut scale = 0.0;
    for q in points {
        let (vx, vy) = (q.x - c.x(), q.y - c.y());
        let l = (vx * vx + vy * vy).sqrt();
        let d = l - c.r();
        g[0] += 2.0 * d * (-vx / l); g[1] += 2.0 * d * (-vy / l); g[2] -= 2.0 * d;
        scale += 2.0 * d.abs();
    }
    (g, scale)
}
fn check_circle_fit(r: &mut Report) {
    let circles = [(0.0, 0.0, 1.0), (3.0, -2.0, 5.0), (-40.0, 25.0, 12.5), (0.5, 0.25, 0.125)];
    let arcs = [(0.0, 360.0), (17.0, 60.0), (200.0, 90.0), (-45.0, 135.0), (10.0, 200.0), (90.0, 270.0)];
    // guesses: centre displaced by up to 0.15 r, radius scaled by 0.85 .. 1.15
    let guesses = [(0.0, 0.0, 1.0), (0.1, 0.0, 0.9), (-0.1, 0.05, 1.1), (0.05, -0.15, 1.15), (-0.08, -0.08, 0.85), (0.0, 0.15, 1.0)];
    for (cx, cy, rad) in circles { for (a0, sw) in arcs { for (gx, gy, gs) in guesses {
        let guess = Circle2::new(cx + gx * rad, cy + gy * rad, rad * gs);
        // exact samples: centre and radius are recovered
        let pts = arc_points(cx, cy, rad, a0, sw, 40, 0.0);
        r.case();
        let desc = |res: &Option<Circle2>| format!("fitting_circle(40 samples of circle ({:?}, {:?}, r {:?}) over [{:?}, {:?}] degrees, guess ({:?}, {:?}, r {:?}), All) -> {:?}", cx, cy, rad, a0, a0 + sw, guess.x(), guess.y(), guess.r(), res.map(|c| (c.x(), c.y(), c.r())));
        let res = Circle2::fitting_circle(&pts, &guess, BestFit::All).ok();
        let ok = match res { Some(c) => (c.x() - cx).abs() <= 1e-6 * rad && (c.y() - cy).abs() <= 1e-6 * rad && (c.r() - rad).abs() <= 1e-6 * rad, None => false };
        r.check(ok, "circle fit from a nearby guess recovers centre and radius from exact samples (arc >= 60 degrees)", || desc(&res));
        // perturbed samples: a stationary point of the summed squared radial residuals
        for amp in [0.02, 0.08] {
            let pts = arc_points(cx, cy, rad, a0, sw, 40, amp * rad);
            r.case();
            let res = Circle2::fitting_circle(&pts, &guess, BestFit::All).ok();
            let d2 = || format!("perturbed by up to {:?}: {}", amp * rad, desc(&res));
            match res {
                None => r.check(false, "circle fit of perturbed samples terminates successfully", d2),
                Some(c) => { let (g, scale) = gradient(&pts, &c);
                    let gn = (g[0] * g[0] + g[1] * g[1] + g[2] * g[2]).sqrt();
                    r.check(gn <= 1e-5 * scale, "circle fit stops at a stationary point of the summed squared radial residuals", || format!("{} gradient {:?} (sum of 2|residual| = {:?})", d2(), g, scale)); }
            }
        }
    } } }
}

fn check_ransac(r: &mut Report) {
    // 36 samples of the generating circle (rounded to 2^-20) + outliers inside and outside; tolerance 0.01
    for (cx, cy, rad, n_out) in [(0.0, 0.0, 10.0, 8usize), (5.0, -3.0, 4.0, 12), (-20.0, 11.0, 7.5, 18)] {
        let q = |v: f64| (v * 1048576.0).round() / 1048576.0;
        let mut pts: Vec<Point2> = (0..36).map(|i| { let a = (i as f64 * 10.0 + 3.0).to_radians(); Point2::new(q(cx + rad * a.cos()), q(cy + rad * a.sin())) }).collect();
        for k in 0..n_out {
            let a = (k as f64 * 47.0 + 11.0).to_radians();
            let d = rad * (0.2 + 0.15 * ((k * 5) % 7) as f64) + if k % 2 == 0 { rad * 0.9 } else { 0.0 };
            // insert the outliers between the inliers
            pts.insert((k * 3 + 1) % pts.len(), Point2::new(q(cx + d * a.cos()), q(cy + d * a.sin())));
        }
        let tol = 0.01;
        let gen = Circle2::new(cx, cy, rad);
        let count = |c: &Circle2| pts.iter().filter(|p| c.distance_to(p).abs() < tol).count();
        r.case();
        let res = Circle2::ransac(&pts, tol, None, None, None);
        let desc = || format!("ransac({} points: 36 on circle ({:?}, {:?}, r {:?}) + {} outliers, tol 0.01, default iterations) -> {:?}; generating circle has {} inliers", pts.len(), cx, cy, rad, n_out, res.as_ref().map(|c| (c.x(), c.y(), c.r(), count(c))).map_err(|_| "Err"), count(&gen));
        r.check(match &res { Ok(c) => count(c) >= count(&gen), Err(_) => false }, "seeded RANSAC circle has at least as many inliers as the generating circle", desc);
        // with a radius window that contains the generating radius
        let res2 = Circle2::ransac(&pts, tol, Some(300), Some(rad * 0.9), Some(rad * 1.1));
        r.check(match &res2 { Ok(c) => count(c) >= count(&gen) && c.r() >= rad * 0.9 && c.r() <= rad * 1.1, Err(_) => false }, "seeded RANSAC circle within a radius window has at least as many inliers as the generating circle", || format!("{} ; windowed -> {:?}", desc(), res2.as_ref().map(|c| (c.x(), c.y(), c.r(), count(c))).map_err(|_| "Err")));
    }
}

pub fn run() -> Option<Report> {
    let mut r = Report::new("polynomial sizes K=2..=6 x 6 abscissa sets (asymmetric integers, dyadic offset from zero, uneven both signs, positive side, 7 values within 4e-4 of 1.0 [K=2], 9 values within 0.07 of -2 [K<=3]) x {no weights, 2 non-uniform positive weight vectors} x {3 exact coefficient vectors, 2 arbitrary data vectors}; Series1 lines on 5 abscissa sets incl. clustered distinct values x 5 data vectors; three-point circles on all ordered triples of 10 points with |det| >= 1 and on 6 lines x all ordered triples of 8 parameters (exactly collinear and collinear up to rounding); circle fit on 4 circles x 6 arcs (60..360 degrees, 40 samples) x 6 guesses (centre within 0.16 r, radius within 15%) x {exact, perturbed 2% r, perturbed 8% r}; RANSAC on 3 contaminated sample sets (36 inliers + 8/12/18 outliers)");
    for s in xsets().iter() {
        check_poly::<2>(&mut r, s); check_poly::<3>(&mut r, s); check_poly::<4>(&mut r, s); check_poly::<5>(&mut r, s); check_poly::<6>(&mut r, s);
    }
    check_series(&mut r);
    check_three_points(&mut r);
    check_circle_fit(&mut r);
    check_ransac(&mut r);
    let _ = close(0.0, 0.0);
    Some(r)
}
