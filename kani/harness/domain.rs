//! C17: discrete domains and the closure-based slice helpers of vec_f64, bit-precise.
//! Collections => BOUNDED checks: slices of length <= 3, linear spaces with n in 2..=4.
use super::Src;
use crate::common::vec_f64::{are_all_finite, are_in_ascending_order, are_in_descending_order, has_nan};
use crate::common::{linear_space, DiscreteDomain};

pub const MAX_N: usize = 3;
pub const LIN_BOUND: f64 = 1.0e6;

// ---- definitions the helpers are meant to agree with (also the assumed contracts of the Verus units)
pub fn def_has_nan(v: &[f64]) -> bool { let mut r = false; let mut i = 0; while i < v.len() { r = r || v[i] != v[i]; i += 1; } r }
pub fn def_all_finite(v: &[f64]) -> bool {
    let mut r = true; let mut i = 0;
    while i < v.len() { r = r && (v[i] == v[i] && v[i] != f64::INFINITY && v[i] != f64::NEG_INFINITY); i += 1; }
    r
}
pub fn def_ascending(v: &[f64]) -> bool { let mut r = true; let mut i = 1; while i < v.len() { r = r && v[i - 1] <= v[i]; i += 1; } r }
pub fn def_descending(v: &[f64]) -> bool { let mut r = true; let mut i = 1; while i < v.len() { r = r && v[i - 1] >= v[i]; i += 1; } r }

// ---- postconditions referenced by the in-place contract lines (src/common/vec_f64.rs, src/common/discrete_domain.rs)
pub fn post_has_nan(v: &[f64], r: bool) -> bool { r == def_has_nan(v) }
pub fn post_all_finite(v: &[f64], r: bool) -> bool { r == def_all_finite(v) }
pub fn post_ascending(v: &[f64], r: bool) -> bool { r == def_ascending(v) }
pub fn post_descending(v: &[f64], r: bool) -> bool { r == def_descending(v) }
/// the class invariant of DiscreteDomain
pub fn domain_inv(v: &[f64]) -> bool { def_all_finite(v) && def_ascending(v) }
/// linear / linear_space for n >= 2 and finite bounds of magnitude <= 1e6 in either order
pub fn pre_linear(start: f64, end: f64, n: usize) -> bool {
    n >= 2 && n <= 4 && start >= -LIN_BOUND && start <= LIN_BOUND && end >= -LIN_BOUND && end <= LIN_BOUND
}
pub fn post_linear(start: f64, end: f64, n: usize, v: &[f64]) -> bool {
    let lo = if start <= end { start } else { end };
    let hi = if start <= end { end } else { start };
    // n values, ascending and finite (the class invariant), the first is the smaller bound exactly, none below it
    v.len() == n && domain_inv(v) && v[0] == lo && (lo < hi || v[n - 1] == lo)
}
/// the last value is the larger bound up to the rounding of lo + (n-1) * ((hi-lo)/(n-1)): within 1e-9 for |bounds| <= 1e6
pub fn post_linear_last(start: f64, end: f64, n: usize, v: &[f64]) -> bool {
    let hi = if start <= end { end } else { start };
    v.len() == n && v[n - 1] - hi <= 1.0e-9 && hi - v[n - 1] <= 1.0e-9
}

/// symbolic length, split into concrete cases by the callers (`match pick_n(..) { 0 => f(s, 0), .. }`) so that every
/// slice / Vec length is a constant for CBMC
fn pick_n<S: Src>(s: &mut S, max: usize) -> usize {
    let n = s.usize();
    s.assume(n <= max);
    n
}
fn any_slice<S: Src>(s: &mut S) -> [f64; MAX_N] { [s.f64(), s.f64(), s.f64()] }

pub fn h_vec_helpers<S: Src>(s: &mut S) {
    match pick_n(s, MAX_N) { 0 => h_vec_helpers_n(s, 0), 1 => h_vec_helpers_n(s, 1), 2 => h_vec_helpers_n(s, 2), _ => h_vec_helpers_n(s, 3) }
}
fn h_vec_helpers_n<S: Src>(s: &mut S, n: usize) {
    let a = any_slice(s);
    let v = &a[..n];
    s.check(post_has_nan(v, has_nan(v)), "has_nan <=> some element is NaN");
    s.check(post_all_finite(v, are_all_finite(v)), "are_all_finite <=> no element is NaN or +-inf");
    s.check(post_ascending(v, are_in_ascending_order(v)), "are_in_ascending_order <=> every adjacent pair satisfies a <= b (false for a NaN in a pair)");
    s.check(post_descending(v, are_in_descending_order(v)), "are_in_descending_order <=> every adjacent pair satisfies a >= b");
}

pub fn h_try_from<S: Src>(s: &mut S) {
    match pick_n(s, MAX_N) { 0 => h_try_from_n(s, 0), 1 => h_try_from_n(s, 1), 2 => h_try_from_n(s, 2), _ => h_try_from_n(s, 3) }
}
fn h_try_from_n<S: Src>(s: &mut S, n: usize) {
    let a = any_slice(s);
    let mut vals = Vec::with_capacity(MAX_N);
    if n > 0 { vals.push(a[0]); }
    if n > 1 { vals.push(a[1]); }
    if n > 2 { vals.push(a[2]); }
    let good = domain_inv(&a[..n]);
    match DiscreteDomain::try_from(vals) {
        Ok(d) => {
            s.check(good, "try_from accepts only finite ascending vectors");
            s.check(d.len() == n, "try_from keeps the length");
            s.check((n < 1 || d.values()[0].to_bits() == a[0].to_bits()) && (n < 2 || d.values()[1].to_bits() == a[1].to_bits()) && (n < 3 || d.values()[2].to_bits() == a[2].to_bits()), "try_from keeps every value");
        }
        Err(e) => {
            core::mem::forget(e);
            s.check(!good, "try_from rejects only vectors with a non-finite value or a descent");
        }
    }
}

/// push: from a valid domain of <= 2 values, push(x) succeeds exactly for finite x >= last and keeps the invariant
pub fn h_push<S: Src>(s: &mut S) {
    match pick_n(s, 2) { 0 => h_push_n(s, 0), 1 => h_push_n(s, 1), _ => h_push_n(s, 2) }
}
fn h_push_n<S: Src>(s: &mut S, n: usize) {
    let a = [s.f64(), s.f64()];
    let x = s.f64();
    s.assume(domain_inv(&a[..n]));
    let mut d = DiscreteDomain::default();
    if n > 0 { match d.push(a[0]) { Ok(()) => {} Err(e) => { core::mem::forget(e); s.check(false, "push rejects a valid first value"); return; } } }
    if n > 1 { match d.push(a[1]) { Ok(()) => {} Err(e) => { core::mem::forget(e); s.check(false, "push rejects a valid ascending value"); return; } } }
    let want = x.is_finite() && (n == 0 || x >= a[n - 1]);
    match d.push(x) {
        Ok(()) => {
            s.check(want, "push accepts only finite values not below the last one");
            s.check(d.len() == n + 1 && d.values()[n].to_bits() == x.to_bits(), "push appends the value unchanged");
            s.check(domain_inv(d.values()), "push keeps the domain finite and ascending");
        }
        Err(e) => {
            core::mem::forget(e);
            s.check(!want, "push rejects only non-finite values or values below the last one");
            s.check(d.len() == n && domain_inv(d.values()), "a rejected push leaves the domain unchanged");
        }
    }
}

pub fn h_linear<S: Src>(s: &mut S, n: usize, method: bool) {
    let a = s.f64();
    let b = s.f64();
    s.assume(pre_linear(a, b, n));
    let d = if method { DiscreteDomain::linear(a, b, n) } else { linear_space(a, b, n) };
    s.check(post_linear(a, b, n, d.values()), "linear: n finite ascending values, first == min(bounds) exactly");
}
pub fn h_linear_last<S: Src>(s: &mut S, n: usize, method: bool) {
    let a = s.f64();
    let b = s.f64();
    s.assume(pre_linear(a, b, n));
    let d = if method { DiscreteDomain::linear(a, b, n) } else { linear_space(a, b, n) };
    s.check(post_linear_last(a, b, n, d.values()), "linear: last == max(bounds) within 1e-9");
}

/// Series1::interpolate on 2..=3 strictly ascending finite knots with arbitrary non-NaN ordinates:
/// exactly the stored ordinate at a knot, NaN outside [first, last]. (The blend between two knots needs a symbolic
/// divide and multiply, which CBMC does not decide in reasonable time - left to the Verus unit / bounded native check.)
pub fn h_interpolate_knots<S: Src>(s: &mut S) {
    match pick_n(s, 3) { 0 | 1 | 2 => h_interpolate_knots_n(s, 2), _ => h_interpolate_knots_n(s, 3) }
}
fn h_interpolate_knots_n<S: Src>(s: &mut S, n: usize) {
    let xs = any_slice(s);
    let ys = any_slice(s);
    let k = s.u8() as usize;
    let outside = s.f64();
    s.assume(def_all_finite(&xs) && xs[0] < xs[1] && xs[1] < xs[2] && !def_has_nan(&ys));
    s.assume(k <= n); // k == n: query outside the domain
    let (xv, yv) = if n == 2 { (vec![xs[0], xs[1]], vec![ys[0], ys[1]]) } else { (vec![xs[0], xs[1], xs[2]], vec![ys[0], ys[1], ys[2]]) };
    let series = match crate::Series1::try_new(xv, yv) {
        Ok(v) => v,
        Err(e) => { core::mem::forget(e); s.check(false, "Series1::try_new accepts ascending finite abscissae of equal length"); return; }
    };
    if k < n {
        let r = series.interpolate(xs[k]);
        s.check(r.to_bits() == ys[k].to_bits(), "interpolate at a knot returns the stored ordinate exactly");
    } else {
        s.assume(!outside.is_nan() && (outside < xs[0] || outside > xs[n - 1]));
        let r = series.interpolate(outside);
        s.check(r.is_nan(), "interpolate outside [first, last] is NaN");
    }
    core::mem::forget(series);
}

pub fn dispatch<S: Src>(name: &str, s: &mut S) -> bool {
    match name {
        "vec_helpers" => h_vec_helpers(s),
        "series_interpolate_knots" => h_interpolate_knots(s),
        "domain_try_from" => h_try_from(s),
        "domain_push" => h_push(s),
        "domain_linear_2" => h_linear(s, 2, true),
        "domain_linear_3" => h_linear(s, 3, true),
        "domain_linear_4" => h_linear(s, 4, true),
        "domain_linear_last_2" => h_linear_last(s, 2, true),
        "domain_linear_last_3" => h_linear_last(s, 3, true),
        "linear_space_last_2" => h_linear_last(s, 2, false),
        "linear_space_2" => h_linear(s, 2, false),
        "linear_space_3" => h_linear(s, 3, false),
        "linear_space_4" => h_linear(s, 4, false),
        _ => return false,
    }
    true
}

#[cfg(kani)]
mod proofs {
    use super::*;
    use crate::verif_kani::Sym;

    // in-place contracts (src/common/vec_f64.rs), slices of length <= 3 (BOUNDED)
    #[kani::proof_for_contract(has_nan)] #[kani::unwind(5)]
    fn contract_has_nan() { let n = pick_n(&mut Sym, MAX_N); let a = any_slice(&mut Sym); kani::cover!(n == 3 && a[2].is_nan()); match n { 0 => has_nan(&a[..0]), 1 => has_nan(&a[..1]), 2 => has_nan(&a[..2]), _ => has_nan(&a[..3]) }; }
    #[kani::proof_for_contract(are_all_finite)] #[kani::unwind(5)]
    fn contract_are_all_finite() { let n = pick_n(&mut Sym, MAX_N); let a = any_slice(&mut Sym); kani::cover!(n == 3 && a[1].is_infinite()); match n { 0 => are_all_finite(&a[..0]), 1 => are_all_finite(&a[..1]), 2 => are_all_finite(&a[..2]), _ => are_all_finite(&a[..3]) }; }
    #[kani::proof_for_contract(are_in_ascending_order)] #[kani::unwind(5)]
    fn contract_are_in_ascending_order() { let n = pick_n(&mut Sym, MAX_N); let a = any_slice(&mut Sym); kani::cover!(n == 3 && a[1] == a[2]); match n { 0 => are_in_ascending_order(&a[..0]), 1 => are_in_ascending_order(&a[..1]), 2 => are_in_ascending_order(&a[..2]), _ => are_in_ascending_order(&a[..3]) }; }
    #[kani::proof_for_contract(are_in_descending_order)] #[kani::unwind(5)]
    fn contract_are_in_descending_order() { let n = pick_n(&mut Sym, MAX_N); let a = any_slice(&mut Sym); kani::cover!(n == 3 && a[1] == a[2]); match n { 0 => are_in_descending_order(&a[..0]), 1 => are_in_descending_order(&a[..1]), 2 => are_in_descending_order(&a[..2]), _ => are_in_descending_order(&a[..3]) }; }
    // in-place contracts (src/common/discrete_domain.rs); contract stated for n in 2..=4, this harness: n = 2 (BOUNDED)
    #[kani::proof_for_contract(DiscreteDomain::linear)] #[kani::unwind(6)]
    fn contract_domain_linear() { let a: f64 = kani::any(); let b: f64 = kani::any(); kani::cover!(a > b); DiscreteDomain::linear(a, b, 2); }
    #[kani::proof_for_contract(linear_space)] #[kani::unwind(6)]
    fn contract_linear_space() { let a: f64 = kani::any(); let b: f64 = kani::any(); kani::cover!(a > b); linear_space(a, b, 2); }

    #[kani::proof] #[kani::unwind(5)] fn series_interpolate_knots() { h_interpolate_knots(&mut Sym); kani::cover!(true); }
    #[kani::proof] #[kani::unwind(5)] fn vec_helpers() { h_vec_helpers(&mut Sym); kani::cover!(true); }
    #[kani::proof] #[kani::unwind(5)] fn domain_try_from() { h_try_from(&mut Sym); kani::cover!(true); }
    #[kani::proof] #[kani::unwind(5)] fn domain_push() { h_push(&mut Sym); kani::cover!(true); }
    #[kani::proof] #[kani::unwind(6)] fn domain_linear_2() { h_linear(&mut Sym, 2, true); kani::cover!(true); }
    #[kani::proof] #[kani::unwind(6)] fn domain_linear_3() { h_linear(&mut Sym, 3, true); kani::cover!(true); }
    #[kani::proof] #[kani::unwind(6)] fn domain_linear_4() { h_linear(&mut Sym, 4, true); kani::cover!(true); }
    #[kani::proof] #[kani::unwind(6)] fn domain_linear_last_2() { h_linear_last(&mut Sym, 2, true); kani::cover!(true); }
    #[kani::proof] #[kani::unwind(6)] fn domain_linear_last_3() { h_linear_last(&mut Sym, 3, true); kani::cover!(true); }
    #[kani::proof] #[kani::unwind(6)] fn linear_space_last_2() { h_linear_last(&mut Sym, 2, false); kani::cover!(true); }
    #[kani::proof] #[kani::unwind(6)] fn linear_space_2() { h_linear(&mut Sym, 2, false); kani::cover!(true); }
    #[kani::proof] #[kani::unwind(6)] fn linear_space_3() { h_linear(&mut Sym, 3, false); kani::cover!(true); }
    #[kani::proof] #[kani::unwind(6)] fn linear_space_4() { h_linear(&mut Sym, 4, false); kani::cover!(true); }
}
