//! C16: running extremes of a SurfaceDeviationSet and the piecewise-constant tolerance map, bit-precise.
//! Everything here loops over a collection => BOUNDED checks (sets of <= 3 deviations, domains of <= 3 breakpoints);
//! within the bound every double is covered (+-0, ties, one-ulp neighbours, +-inf where stated; NaN excluded).
use super::Src;
use crate::common::{DiscreteDomain, SurfacePoint};
use crate::metrology::{DiscreteDomainTolMap, SurfaceDeviation2, SurfaceDeviationSet2, Tolerance, ToleranceMap};
use crate::{Point2, Vector2};

pub const MAX_N: usize = 3;

// ---- predicates referenced by the in-place contract lines of src/metrology/surface_deviation.rs
// (private fields are passed in by the attribute, which expands inside the module; `key` reads the deviation)

/// Cache invariant of a SurfaceDeviationSet: both indices are None exactly for the empty set, otherwise they point at
/// the FIRST element attaining the maximum / minimum (NaN-free contents).
pub fn devset_inv<T>(values: &[T], key: impl Fn(&T) -> f64, max_index: Option<usize>, min_index: Option<usize>) -> bool {
    if values.is_empty() {
        return max_index.is_none() && min_index.is_none();
    }
    let (mx, mn) = match (max_index, min_index) {
        (Some(a), Some(b)) => (a, b),
        _ => return false,
    };
    if mx >= values.len() || mn >= values.len() {
        return false;
    }
    let vmax = key(&values[mx]);
    let vmin = key(&values[mn]);
    let mut ok = true;
    let mut i = 0;
    while i < values.len() {
        let v = key(&values[i]);
        ok = ok && !v.is_nan() && v <= vmax && v >= vmin && (i >= mx || v < vmax) && (i >= mn || v > vmin);
        i += 1;
    }
    ok
}
/// max()/min(): None exactly for the empty set, otherwise a true extreme that is attained
pub fn post_extreme<T>(values: &[T], key: impl Fn(&T) -> f64, r: Option<f64>, want_max: bool) -> bool {
    match r {
        None => values.is_empty(),
        Some(m) => {
            let mut all = true;
            let mut attained = false;
            let mut i = 0;
            while i < values.len() {
                let v = key(&values[i]);
                all = all && (if want_max { v <= m } else { v >= m });
                attained = attained || v.to_bits() == m.to_bits();
                i += 1;
            }
            !values.is_empty() && all && attained
        }
    }
}
/// symmetrical_zone_size: 0 for the empty set, otherwise twice the largest magnitude in the set (so that the zone
/// [-r/2, r/2] contains every deviation and is attained by one of them)
pub fn post_zone_size<T>(values: &[T], key: impl Fn(&T) -> f64, r: f64) -> bool {
    if values.is_empty() {
        return r == 0.0;
    }
    let mut all = true;
    let mut attained = false;
    let mut i = 0;
    while i < values.len() {
        let a = key(&values[i]).abs();
        all = all && a * 2.0 <= r;
        attained = attained || a * 2.0 == r;
        i += 1;
    }
    all && attained
}

fn dev(d: f64) -> SurfaceDeviation2 {
    SurfaceDeviation2::new(SurfacePoint::new(Point2::new(0.0, 0.0), crate::UnitVec2::new_unchecked(Vector2::new(0.0, 1.0))), d)
}

/// n <= 3 symbolic non-NaN deviations pushed one by one
/// the symbolic length is split into concrete cases before anything is built (keeps every Vec length concrete for CBMC)
fn pick_n<S: Src>(s: &mut S, max: usize) -> usize {
    let n = s.usize();
    s.assume(n <= max);
    if n == 0 { 0 } else if n == 1 { 1 } else if n == 2 { 2 } else { 3 }
}
fn any_set<S: Src>(s: &mut S, n: usize) -> (SurfaceDeviationSet2, [f64; MAX_N], usize) {
    let d = [s.f64(), s.f64(), s.f64()];
    s.assume(!d[0].is_nan() && !d[1].is_nan() && !d[2].is_nan());
    let mut set = SurfaceDeviationSet2::default();
    if n > 0 { set.push(dev(d[0])); }
    if n > 1 { set.push(dev(d[1])); }
    if n > 2 { set.push(dev(d[2])); }
    (set, d, n)
}
fn first_arg(d: &[f64; MAX_N], n: usize, want_max: bool) -> Option<usize> {
    if n == 0 { return None; }
    let mut b = 0;
    if n > 1 && (if want_max { d[1] > d[b] } else { d[1] < d[b] }) { b = 1; }
    if n > 2 && (if want_max { d[2] > d[b] } else { d[2] < d[b] }) { b = 2; }
    Some(b)
}

/// push keeps the extremes right after every push (checked through the public API only)
pub fn h_devset_push<S: Src>(s: &mut S) {
    match pick_n(s, MAX_N) { 0 => h_devset_push_n(s, 0), 1 => h_devset_push_n(s, 1), 2 => h_devset_push_n(s, 2), _ => h_devset_push_n(s, 3) }
}
fn h_devset_push_n<S: Src>(s: &mut S, n: usize) {
    let (set, d, n) = any_set(s, n);
    s.check(set.len() == n, "push appends exactly one element");
    if n > 0 { s.check(set[0].deviation.to_bits() == d[0].to_bits(), "pushed value 0 stored unchanged"); }
    if n > 1 { s.check(set[1].deviation.to_bits() == d[1].to_bits(), "pushed value 1 stored unchanged"); }
    if n > 2 { s.check(set[2].deviation.to_bits() == d[2].to_bits(), "pushed value 2 stored unchanged"); }
    match (set.max(), first_arg(&d, n, true)) {
        (None, None) => {}
        (Some(m), Some(k)) => {
            s.check(core::ptr::eq(m, &set[k]), "max() is the first element attaining the maximum");
            s.check((n < 1 || d[0] <= m.deviation) && (n < 2 || d[1] <= m.deviation) && (n < 3 || d[2] <= m.deviation), "max() is >= every pushed deviation");
        }
        _ => s.check(false, "max() is None exactly for the empty set"),
    }
    match (set.min(), first_arg(&d, n, false)) {
        (None, None) => {}
        (Some(m), Some(k)) => {
            s.check(core::ptr::eq(m, &set[k]), "min() is the first element attaining the minimum");
            s.check((n < 1 || d[0] >= m.deviation) && (n < 2 || d[1] >= m.deviation) && (n < 3 || d[2] >= m.deviation), "min() is <= every pushed deviation");
        }
        _ => s.check(false, "min() is None exactly for the empty set"),
    }
}
pub fn h_devset_zone<S: Src>(s: &mut S) {
    match pick_n(s, MAX_N) { 0 => h_devset_zone_n(s, 0), 1 => h_devset_zone_n(s, 1), 2 => h_devset_zone_n(s, 2), _ => h_devset_zone_n(s, 3) }
}
fn h_devset_zone_n<S: Src>(s: &mut S, n: usize) {
    let (set, d, n) = any_set(s, n);
    let r = set.symmetrical_zone_size();
    if n == 0 {
        s.check(r == 0.0, "symmetrical zone of the empty set is 0");
    } else {
        let a = [d[0].abs(), d[1].abs(), d[2].abs()];
        s.check((n < 1 || 2.0 * a[0] <= r) && (n < 2 || 2.0 * a[1] <= r) && (n < 3 || 2.0 * a[2] <= r), "symmetrical zone covers every deviation");
        s.check((n >= 1 && 2.0 * a[0] == r) || (n >= 2 && 2.0 * a[1] == r) || (n >= 3 && 2.0 * a[2] == r), "symmetrical zone is attained by a deviation");
    }
}

// ---- DiscreteDomain::index_of and DiscreteDomainTolMap::get

/// index_of on ascending finite breakpoints v (len >= 1), x not NaN
pub fn post_index_of(v: &[f64], x: f64, r: Option<usize>) -> bool {
    let n = v.len();
    if n == 0 { return r.is_none(); }
    match r {
        None => x < v[0] || x > v[n - 1],
        Some(i) => {
            if i >= n { return false; }
            // x lies in [v[i], v[i+1]] (closed on the right only when x itself is a breakpoint or i is the last index)
            let right = if i + 1 < n { x < v[i + 1] || (x == v[i + 1] && x == v[i]) } else { x == v[i] };
            v[i] <= x && right
        }
    }
}
/// greatest breakpoint not above x (for strictly ascending breakpoints this determines the index uniquely)
pub fn greatest_not_above(v: &[f64], x: f64) -> Option<usize> {
    let mut r = None;
    let mut i = 0;
    while i < v.len() {
        if v[i] <= x { r = Some(i); }
        i += 1;
    }
    r
}

fn any_domain<S: Src>(s: &mut S, n: usize) -> (DiscreteDomain, [f64; MAX_N], usize) {
    let v = [s.f64(), s.f64(), s.f64()];
    s.assume(v[0].is_finite() && v[1].is_finite() && v[2].is_finite());
    s.assume((n < 2 || v[0] <= v[1]) && (n < 3 || v[1] <= v[2]));
    let mut vals = Vec::with_capacity(MAX_N);
    if n > 0 { vals.push(v[0]); }
    if n > 1 { vals.push(v[1]); }
    if n > 2 { vals.push(v[2]); }
    match DiscreteDomain::try_from(vals) {
        Ok(d) => (d, v, n),
        Err(e) => {
            core::mem::forget(e);
            s.check(false, "try_from accepts every ascending finite vector");
            (DiscreteDomain::default(), v, 0)
        }
    }
}
pub fn h_index_of<S: Src>(s: &mut S) {
    match pick_n(s, MAX_N) { 0 => h_index_of_n(s, 0), 1 => h_index_of_n(s, 1), 2 => h_index_of_n(s, 2), _ => h_index_of_n(s, 3) }
}
fn h_index_of_n<S: Src>(s: &mut S, n: usize) {
    let (d, v, n) = any_domain(s, n);
    let x = s.f64();
    s.assume(!x.is_nan());
    let r = d.index_of(x);
    s.check(post_index_of(&v[..n], x, r), "index_of: Some(i) with v[i] <= x < v[i+1] (or x a breakpoint), None outside [first, last]");
    let strict = (n < 2 || v[0] < v[1]) && (n < 3 || v[1] < v[2]);
    if strict && n > 0 && x <= v[n - 1] {
        s.check(r == greatest_not_above(&v[..n], x), "index_of is the greatest breakpoint not above x (strictly ascending breakpoints)");
    }
}
pub fn h_tolmap_get<S: Src>(s: &mut S) {
    match pick_n(s, MAX_N) { 0 => h_tolmap_get_n(s, 0), 1 => h_tolmap_get_n(s, 1), 2 => h_tolmap_get_n(s, 2), _ => h_tolmap_get_n(s, 3) }
}
fn h_tolmap_get_n<S: Src>(s: &mut S, n: usize) {
    let (d, v, n) = any_domain(s, n);
    let x = s.f64();
    s.assume(!x.is_nan());
    // zone k is recognisable by its bounds
    let mut zones = Vec::with_capacity(MAX_N);
    if n > 0 { zones.push(Tolerance::new_unchecked(0.0, 10.0)); }
    if n > 1 { zones.push(Tolerance::new_unchecked(1.0, 11.0)); }
    if n > 2 { zones.push(Tolerance::new_unchecked(2.0, 12.0)); }
    let map = match DiscreteDomainTolMap::try_new(d, zones) {
        Ok(m) => m,
        Err(e) => { core::mem::forget(e); s.check(false, "try_new accepts equally long domain and zones"); return; }
    };
    let r = map.get(x);
    let want = greatest_not_above(&v[..n], x);
    match (r, want) {
        (None, None) => {}
        (Some(t), Some(k)) => {
            let got = t.lower as usize;
            s.check(t.upper == t.lower + 10.0, "get returns one of the zones unchanged");
            // ties between equal breakpoints may pick any of the tied zones; otherwise the zone of the greatest breakpoint <= x
            s.check(got < n && v[got] <= x && (got == k || v[got] == v[k]), "get(x) is the zone of the greatest breakpoint not above x (last zone beyond the end)");
        }
        (None, Some(_)) => s.check(false, "get is None although a breakpoint lies at or below x"),
        (Some(_), None) => s.check(false, "get is Some below the first breakpoint / on an empty map"),
    }
}

pub fn dispatch<S: Src>(name: &str, s: &mut S) -> bool {
    match name {
        "devset_push" => h_devset_push(s),
        "devset_zone" => h_devset_zone(s),
        "domain_index_of" => h_index_of(s),
        "tolmap_get" => h_tolmap_get(s),
        _ => return false,
    }
    true
}

#[cfg(kani)]
mod proofs {
    use super::*;
    use crate::verif_kani::Sym;

    // in-place contracts (src/metrology/surface_deviation.rs) on the read side, state built by <= 3 pushes (BOUNDED)
    #[kani::proof_for_contract(crate::metrology::surface_deviation::SurfaceDeviationSet::<2>::max)] #[kani::unwind(5)]
    fn contract_devset_max() { match pick_n(&mut Sym, MAX_N) { 0 => { any_set(&mut Sym, 0).0.max(); } 1 => { any_set(&mut Sym, 1).0.max(); } 2 => { any_set(&mut Sym, 2).0.max(); } _ => { let (set, d, _) = any_set(&mut Sym, 3); kani::cover!(d[0] < d[1]); set.max(); } } }
    #[kani::proof_for_contract(crate::metrology::surface_deviation::SurfaceDeviationSet::<2>::min)] #[kani::unwind(5)]
    fn contract_devset_min() { match pick_n(&mut Sym, MAX_N) { 0 => { any_set(&mut Sym, 0).0.min(); } 1 => { any_set(&mut Sym, 1).0.min(); } 2 => { any_set(&mut Sym, 2).0.min(); } _ => { let (set, d, _) = any_set(&mut Sym, 3); kani::cover!(d[0] < d[1]); set.min(); } } }
    #[kani::proof_for_contract(crate::metrology::surface_deviation::SurfaceDeviationSet::<2>::symmetrical_zone_size)] #[kani::unwind(5)]
    fn contract_devset_zone() { match pick_n(&mut Sym, MAX_N) { 0 => { any_set(&mut Sym, 0).0.symmetrical_zone_size(); } 1 => { any_set(&mut Sym, 1).0.symmetrical_zone_size(); } 2 => { any_set(&mut Sym, 2).0.symmetrical_zone_size(); } _ => { let (set, d, _) = any_set(&mut Sym, 3); kani::cover!(d[0] < d[1]); set.symmetrical_zone_size(); } } }

    #[kani::proof] #[kani::unwind(5)] fn devset_push() { h_devset_push(&mut Sym); kani::cover!(true); }
    #[kani::proof] #[kani::unwind(5)] fn devset_zone() { h_devset_zone(&mut Sym); kani::cover!(true); }
    #[kani::proof] #[kani::unwind(5)] fn domain_index_of() { h_index_of(&mut Sym); kani::cover!(true); }
    #[kani::proof] #[kani::unwind(5)] fn tolmap_get() { h_tolmap_get(&mut Sym); kani::cover!(true); }
}
