//! C16: scalar tolerance zones (src/metrology/tolerance.rs), bit-precise over the FULL domain of IEEE-754 doubles
//! (NaN, +-inf, +-0, subnormals included; what happens for NaN/inf is part of each clause).
use super::Src;
use crate::metrology::Tolerance;

/// same double (bit pattern), with every NaN identified
pub fn same(a: f64, b: f64) -> bool { a.to_bits() == b.to_bits() || (a.is_nan() && b.is_nan()) }
/// the zone the documentation asks for: ordered bounds (this excludes NaN bounds)
pub fn ordered(t: &Tolerance) -> bool { t.lower <= t.upper }
pub fn finite(t: &Tolerance) -> bool { t.lower.is_finite() && t.upper.is_finite() }
/// bounds small enough that `upper + lower` cannot overflow
pub fn center_domain(t: &Tolerance) -> bool {
    ordered(t) && t.lower >= -f64::MAX / 2.0 && t.upper <= f64::MAX / 2.0
}

// ---- postcondition predicates (used by the in-place kani::ensures lines and by the native replay)
pub fn post_new_unchecked(lower: f64, upper: f64, r: &Tolerance) -> bool { same(r.lower, lower) && same(r.upper, upper) }
/// `try_new` is Ok exactly for ordered bounds (NaN bounds are therefore rejected; equal and infinite bounds accepted)
/// and keeps both arguments bit for bit.
pub fn post_try_new(lower: f64, upper: f64, r: &crate::Result<Tolerance>) -> bool {
    match r { Ok(t) => post_try_new_parts(lower, upper, Some(t)), Err(_) => post_try_new_parts(lower, upper, None) }
}
pub fn post_try_new_parts(lower: f64, upper: f64, ok: Option<&Tolerance>) -> bool {
    match ok {
        Some(r) => lower <= upper && same(r.lower, lower) && same(r.upper, upper) && !lower.is_nan() && !upper.is_nan(),
        None => !(lower <= upper),
    }
}
/// `symmetrical` is specified away from inf -/+ inf (an infinite centre with an infinite half width gives a NaN bound)
pub fn pre_symmetrical(center: f64, half_width: f64) -> bool { !(center.is_infinite() && half_width.is_infinite()) }
pub fn post_symmetrical(center: f64, half_width: f64, r: &Tolerance) -> bool {
    let h = half_width.abs();
    // the two bounds are the correctly rounded centre -/+ |half width| (NaN in, NaN out)
    (r.lower == center - h || (r.lower.is_nan() && (center - h).is_nan()))
        && (r.upper == center + h || (r.upper.is_nan() && (center + h).is_nan()))
        // zero centre: the zone is exactly [-|h|, |h|]
        && (!(center == 0.0 && !half_width.is_nan()) || (r.lower == -h && r.upper == h))
}
/// a finite centre with any non-NaN half width (negative, infinite, subnormal) gives an ordered zone that contains the centre
pub fn post_symmetrical_ordered(center: f64, half_width: f64, r: &Tolerance) -> bool {
    !(center.is_finite() && !half_width.is_nan()) || (r.lower <= center && center <= r.upper)
}
/// x conforms <=> lower <= x <= upper; a NaN value or a NaN bound never conforms
pub fn post_conforms(t: &Tolerance, x: f64, r: bool) -> bool {
    r == (t.lower <= x && x <= t.upper) && (!(x.is_nan() || t.lower.is_nan() || t.upper.is_nan()) || !r)
}
/// `size` is specified away from inf - inf (both bounds the same infinity gives NaN)
pub fn pre_size(t: &Tolerance) -> bool { !(t.lower.is_infinite() && t.upper == t.lower) }
pub fn post_size(t: &Tolerance, r: f64) -> bool { same(r, t.upper - t.lower) }
/// ordered finite bounds: non-negative, zero exactly for a degenerate zone (gradual underflow), never NaN
pub fn post_size_sign(t: &Tolerance, r: f64) -> bool {
    !(ordered(t) && finite(t)) || (r >= 0.0 && ((r == 0.0) == (t.lower == t.upper)))
}
/// `center` is specified away from inf + -inf
pub fn pre_center(t: &Tolerance) -> bool { !(t.lower.is_infinite() && t.upper.is_infinite() && t.lower != t.upper) }
pub fn post_center(t: &Tolerance, r: f64) -> bool { same(r, (t.upper + t.lower) / 2.0) }
/// ordered bounds within +-MAX/2 (no overflow of the sum): the centre lies in the zone
pub fn post_center_inside(t: &Tolerance, r: f64) -> bool { !center_domain(t) || (t.lower <= r && r <= t.upper) }

fn any_tol<S: Src>(s: &mut S) -> Tolerance {
    let a = s.f64();
    let b = s.f64();
    Tolerance::new_unchecked(a, b)
}

// ---- harness bodies (shared by Kani and the native replay)
pub fn h_new_unchecked<S: Src>(s: &mut S) {
    let a = s.f64();
    let b = s.f64();
    let r = Tolerance::new_unchecked(a, b);
    s.check(post_new_unchecked(a, b, &r), "new_unchecked keeps both bounds bit for bit");
}
pub fn h_try_new<S: Src>(s: &mut S) {
    let a = s.f64();
    let b = s.f64();
    match Tolerance::try_new(a, b) {
        Ok(r) => {
            s.check(post_try_new_parts(a, b, Some(&r)), "try_new is Ok only for ordered non-NaN bounds and keeps them");
            s.check(r.conforms(a) && r.conforms(b), "both bounds of an accepted zone conform");
        }
        Err(e) => {
            core::mem::forget(e); // Kani cannot model the drop of Box<dyn Error>
            s.check(post_try_new_parts(a, b, None), "try_new rejects only unordered or NaN bounds");
        }
    }
}
pub fn h_symmetrical<S: Src>(s: &mut S) {
    let c = s.f64();
    let h = s.f64();
    s.assume(pre_symmetrical(c, h));
    let r = Tolerance::symmetrical(c, h);
    s.check(post_symmetrical(c, h, &r), "symmetrical: bounds are centre -/+ |half width|");
    s.check(post_symmetrical_ordered(c, h, &r), "symmetrical: ordered zone containing a finite centre");
    if c.is_finite() && !h.is_nan() {
        s.check(r.conforms(c), "the nominal centre conforms to its own symmetrical zone");
    }
}
pub fn h_symmetrical_ordered<S: Src>(s: &mut S) {
    let c = s.f64();
    let h = s.f64();
    s.assume(pre_symmetrical(c, h));
    let r = Tolerance::symmetrical(c, h);
    s.check(post_symmetrical_ordered(c, h, &r), "symmetrical: ordered zone containing a finite centre");
    if c.is_finite() && !h.is_nan() {
        s.check(r.conforms(c), "the nominal centre conforms to its own symmetrical zone");
    }
}
pub fn h_conforms<S: Src>(s: &mut S) {
    let t = any_tol(s);
    let x = s.f64();
    let r = t.conforms(x);
    s.check(post_conforms(&t, x, r), "conforms(x) <=> lower <= x <= upper (closed, NaN never conforms)");
}
pub fn h_size<S: Src>(s: &mut S) {
    let t = any_tol(s);
    s.assume(pre_size(&t));
    let r = t.size();
    s.check(post_size(&t, r), "size == upper - lower");
    s.check(post_size_sign(&t, r), "size >= 0 and zero only for lower == upper on ordered finite bounds");
}
pub fn h_size_sign<S: Src>(s: &mut S) {
    let t = any_tol(s);
    s.assume(pre_size(&t));
    let r = t.size();
    s.check(post_size_sign(&t, r), "size >= 0 and zero only for lower == upper on ordered finite bounds");
}
pub fn h_center<S: Src>(s: &mut S) {
    let t = any_tol(s);
    s.assume(pre_center(&t));
    let r = t.center();
    s.check(post_center(&t, r), "center == (upper + lower) / 2");
    s.check(post_center_inside(&t, r), "center lies in the zone (ordered bounds within +-MAX/2)");
    if center_domain(&t) {
        s.check(t.conforms(r), "the centre of an ordered zone conforms");
    }
}
pub fn h_center_inside<S: Src>(s: &mut S) {
    let t = any_tol(s);
    s.assume(pre_center(&t));
    let r = t.center();
    s.check(post_center_inside(&t, r), "center lies in the zone (ordered bounds within +-MAX/2)");
    if center_domain(&t) {
        s.check(t.conforms(r), "the centre of an ordered zone conforms");
    }
}

pub fn dispatch<S: Src>(name: &str, s: &mut S) -> bool {
    match name {
        "tol_new_unchecked" => h_new_unchecked(s),
        "tol_try_new" => h_try_new(s),
        "tol_symmetrical" => h_symmetrical(s),
        "tol_conforms" => h_conforms(s),
        "tol_size" => h_size(s),
        "tol_center" => h_center(s),
        "tol_symmetrical_ordered" => h_symmetrical_ordered(s),
        "tol_size_sign" => h_size_sign(s),
        "tol_center_inside" => h_center_inside(s),
        _ => return false,
    }
    true
}

#[cfg(kani)]
mod proofs {
    use super::*;
    use crate::verif_kani::Sym;

    // ---- contracts annotated in place (src/metrology/tolerance.rs), proved for every pair/triple of doubles
    #[kani::proof_for_contract(Tolerance::new_unchecked)]
    fn contract_tol_new_unchecked() { let a: f64 = kani::any(); let b: f64 = kani::any(); kani::cover!(a > b); kani::cover!(a.is_nan()); Tolerance::new_unchecked(a, b); }
    #[kani::proof_for_contract(Tolerance::try_new)]
    fn contract_tol_try_new() { let a: f64 = kani::any(); let b: f64 = kani::any(); kani::cover!(a > b); kani::cover!(a == b); core::mem::forget(Tolerance::try_new(a, b)); }
    #[kani::proof_for_contract(Tolerance::symmetrical)]
    fn contract_tol_symmetrical() { let c: f64 = kani::any(); let h: f64 = kani::any(); kani::cover!(h < 0.0); kani::cover!(c.is_infinite()); Tolerance::symmetrical(c, h); }
    #[kani::proof_for_contract(Tolerance::conforms)]
    fn contract_tol_conforms() { let t = any_tol(&mut Sym); let x: f64 = kani::any(); kani::cover!(x.is_nan()); kani::cover!(t.lower > t.upper); t.conforms(x); }
    #[kani::proof_for_contract(Tolerance::size)]
    fn contract_tol_size() { let t = any_tol(&mut Sym); kani::cover!(t.lower == t.upper); kani::cover!(t.upper.is_infinite()); t.size(); }
    #[kani::proof_for_contract(Tolerance::center)]
    fn contract_tol_center() { let t = any_tol(&mut Sym); kani::cover!(center_domain(&t)); kani::cover!(t.lower.is_nan()); t.center(); }

    // ---- loop-free full-domain harnesses (complete proofs)
    #[kani::proof] fn tol_new_unchecked() { h_new_unchecked(&mut Sym); kani::cover!(true); }
    #[kani::proof] fn tol_try_new() { h_try_new(&mut Sym); kani::cover!(true); }
    #[kani::proof] fn tol_conforms() { h_conforms(&mut Sym); kani::cover!(true); }
    #[kani::proof] fn tol_symmetrical_ordered() { h_symmetrical_ordered(&mut Sym); kani::cover!(true); }
    #[kani::proof] fn tol_size_sign() { h_size_sign(&mut Sym); kani::cover!(true); }
    #[kani::proof] fn tol_center_inside() { h_center_inside(&mut Sym); kani::cover!(true); }
}
