//! C18: angle normalisation, bit-precise IEEE-754 (this is where one-ulp boundary values live).
//! Domain restriction forced by CBMC's fmod model (exact only for moderate quotients, see DESIGN.md section 1):
//! |angle| <= DOMAIN. quick: 64, thorough harnesses: 1.0e4. Stated as `requires` of the in-place contracts.
use super::Src;
use crate::common::{angle_in_direction, angle_signed_pi, angle_to_2pi, signed_compliment_2pi, AngleDir, AngleInterval};
use std::f64::consts::PI;

pub const DOMAIN: f64 = 64.0;
pub const DOMAIN_THOROUGH: f64 = 1.0e4;

pub fn in_domain(a: f64) -> bool { a.is_finite() && a >= -DOMAIN_THOROUGH && a <= DOMAIN_THOROUGH }
pub fn in_quick(a: f64) -> bool { a >= -DOMAIN && a <= DOMAIN }

// ---- postcondition predicates (documented closed ranges)
/// (Kani only) the value angle_to_2pi's postcondition was last evaluated on. Under `stub_verified(angle_to_2pi)` that is the
/// value the stubbed callee returned, which lets a modular harness state its claim in terms of it (angle_interval.rs).
/// A plain store: no arithmetic on the static (Kani starts contract harnesses with arbitrary statics).
#[cfg(kani)] pub static mut LAST_TO_2PI: f64 = 0.0;
pub fn post_to_2pi(r: f64) -> bool {
    #[cfg(kani)] unsafe { LAST_TO_2PI = r; }
    r >= 0.0 && r <= 2.0 * PI
}
pub fn post_signed_pi(r: f64) -> bool { r >= -PI && r <= PI }
pub fn post_in_direction(r: f64) -> bool { r >= 0.0 && r <= 2.0 * PI }
pub fn post_compliment(a: f64, r: f64) -> bool {
    // the complementary angle going the other way round has the opposite sign (or is a full turn for 0)
    if a >= 0.0 { r <= 0.0 && r >= -2.0 * PI + a - 1e-300 && r == (-2.0 * PI) + a } else { r >= 0.0 && r == 2.0 * PI + a }
}
pub fn post_interval_new(i: &AngleInterval) -> bool {
    i.start() >= 0.0 && i.start() <= 2.0 * PI && i.angle() >= 0.0 && i.angle() <= 2.0 * PI
}

pub fn h_to_2pi<S: Src>(s: &mut S, dom: f64) {
    let a = s.f64();
    s.assume(a >= -dom && a <= dom);
    let r = angle_to_2pi(a);
    s.check(post_to_2pi(r), "angle_to_2pi result in [0, 2pi]");
}
pub fn h_signed_pi<S: Src>(s: &mut S, dom: f64) {
    let a = s.f64();
    s.assume(a >= -dom && a <= dom);
    let r = angle_signed_pi(a);
    s.check(post_signed_pi(r), "angle_signed_pi result in [-pi, pi]");
}
pub fn h_compliment<S: Src>(s: &mut S) {
    let a = s.f64();
    s.assume(a >= -2.0 * PI && a <= 2.0 * PI);
    let r = signed_compliment_2pi(a);
    s.check(post_compliment(a, r), "signed_compliment_2pi: opposite sign, |a| + |r| == 2pi");
    s.check(r >= -2.0 * PI && r <= 2.0 * PI, "signed_compliment_2pi result in [-2pi, 2pi]");
}
pub fn h_in_direction<S: Src>(s: &mut S, dom: f64) {
    let a = s.f64();
    let b = s.f64();
    let ccw = s.bool();
    s.assume(a >= -dom && a <= dom && b >= -dom && b <= dom);
    let r = angle_in_direction(a, b, if ccw { AngleDir::Ccw } else { AngleDir::Cw });
    s.check(post_in_direction(r), "angle_in_direction result in [0, 2pi]");
}
/// Replay form of the *modular* harness (angle_in_direction proved against angle_signed_pi's contract only):
/// Kani's counterexample carries the two values havoc'd by the stubbed callee (anything in [-pi, pi]); every such
/// value is a fixed point of angle_signed_pi, hence a realisable direct input.
pub fn h_in_direction_stubbed<S: Src>(s: &mut S) {
    let _a = s.f64();
    let _b = s.f64();
    let ccw = s.bool();
    let t0 = s.f64();
    let t1 = s.f64();
    s.assume(t0 >= -PI && t0 <= PI && t1 >= -PI && t1 <= PI);
    let r = angle_in_direction(t0, t1, if ccw { AngleDir::Ccw } else { AngleDir::Cw });
    s.check(post_in_direction(r), "angle_in_direction result in [0, 2pi]");
}
pub fn h_interval_new<S: Src>(s: &mut S, dom: f64) {
    let a = s.f64();
    let e = s.f64();
    s.assume(a >= -dom && a <= dom && e >= -dom && e <= dom);
    let i = AngleInterval::new(a, e);
    s.check(post_interval_new(&i), "AngleInterval::new: start in [0,2pi], extent in [0,2pi]");
}
pub fn h_angle_dir<S: Src>(s: &mut S) {
    let x = s.f64();
    s.assume(!x.is_nan());
    let d = AngleDir::from_sign(x);
    s.check((d.to_sign() == 1.0) == (x >= 0.0), "from_sign: non-negative -> ccw");
    s.check(d.opposite().to_sign() == -d.to_sign(), "opposite flips the sign");
    s.check(d.opposite().opposite().to_sign() == d.to_sign(), "opposite is an involution");
}

pub fn dispatch<S: Src>(name: &str, s: &mut S) -> bool {
    match name {
        "angle_to_2pi" => h_to_2pi(s, DOMAIN),
        "angle_to_2pi_wide" => h_to_2pi(s, DOMAIN_THOROUGH),
        "angle_signed_pi" => h_signed_pi(s, DOMAIN),
        "angle_signed_pi_wide" => h_signed_pi(s, DOMAIN_THOROUGH),
        "signed_compliment" => h_compliment(s),
        "angle_in_direction" => h_in_direction(s, DOMAIN),
        "angle_in_direction_small" => h_in_direction(s, 4.0),
        "angle_in_direction_stubbed" => h_in_direction_stubbed(s),
        "angle_interval_new" => h_interval_new(s, DOMAIN),
        "angle_dir" => h_angle_dir(s),
        _ => return false,
    }
    true
}

#[cfg(kani)]
mod proofs {
    use super::*;
    use crate::verif_kani::Sym;

    // in-place contracts (src/common/angles.rs)
    #[kani::proof_for_contract(angle_to_2pi)]
    fn contract_angle_to_2pi() { let a: f64 = kani::any(); kani::assume(in_quick(a)); kani::cover!(a < 0.0); angle_to_2pi(a); }
    #[kani::proof_for_contract(angle_signed_pi)]
    fn contract_angle_signed_pi() { let a: f64 = kani::any(); kani::assume(in_quick(a)); kani::cover!(a > 4.0); angle_signed_pi(a); }
    #[kani::proof_for_contract(signed_compliment_2pi)]
    fn contract_signed_compliment() { let a: f64 = kani::any(); signed_compliment_2pi(a); }
    // caller verified against the callee's contract only
    #[kani::proof_for_contract(angle_in_direction)]
    #[kani::stub_verified(angle_signed_pi)]
    fn contract_angle_in_direction() {
        let a: f64 = kani::any(); let b: f64 = kani::any(); let ccw: bool = kani::any();
        kani::assume(in_quick(a) && in_quick(b));
        angle_in_direction(a, b, if ccw { AngleDir::Ccw } else { AngleDir::Cw });
    }
    #[kani::proof] #[kani::stub_verified(angle_to_2pi)]
    fn angle_interval_new_modular() {
        let a: f64 = kani::any(); let e: f64 = kani::any();
        kani::assume(a >= -DOMAIN / 2.0 && a <= DOMAIN / 2.0 && e >= -DOMAIN / 2.0 && e <= DOMAIN / 2.0);
        let i = AngleInterval::new(a, e);
        kani::cover!(e < 0.0);
        assert!(post_interval_new(&i));
    }

    #[kani::proof] fn angle_in_direction_small() { h_in_direction(&mut Sym, 4.0); kani::cover!(true); }
    #[kani::proof] fn angle_to_2pi_h() { h_to_2pi(&mut Sym, DOMAIN); kani::cover!(true); }
    #[kani::proof] fn angle_signed_pi_h() { h_signed_pi(&mut Sym, DOMAIN); kani::cover!(true); }
    #[kani::proof] fn signed_compliment_h() { h_compliment(&mut Sym); kani::cover!(true); }
    #[kani::proof] fn angle_dir_h() { h_angle_dir(&mut Sym); kani::cover!(true); }
    // thorough tier: wider domain (minutes)
    #[kani::proof] fn angle_to_2pi_wide() { h_to_2pi(&mut Sym, DOMAIN_THOROUGH); }
    #[kani::proof] fn angle_signed_pi_wide() { h_signed_pi(&mut Sym, DOMAIN_THOROUGH); }
}
