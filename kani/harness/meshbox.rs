//! C12: the constant face table of `geom3::mesh::box_geom` (a closed, consistently wound surface over 8 corners) and
//! `common::indices::chain_candidates` (unique continuation of a chain).
//! Both functions are private to their modules: the Kani harness reaches them through a proxy whose body Kani replaces by
//! the private function (`kani::stub`; Kani resolves paths regardless of visibility), so NO line is added to /repo for them
//! (an in-place contract is rejected: the return types are not `kani::Arbitrary`). A native build cannot call them, hence
//! there is no native replay for these harnesses.
use super::Src;
use crate::Point3;

/// box_geom(w, h, d): 8 corners {0,w}x{0,h}x{0,d} in the documented order, 12 faces over them forming a closed
/// 2-manifold with consistent winding: every index < 8, no degenerate face, every directed edge at most once,
/// every undirected edge exactly twice (=> 18 edges, Euler characteristic 8 - 18 + 12 = 2).
pub fn post_box_geom(w: f64, h: f64, d: f64, verts: &[Point3], faces: &[[u32; 3]]) -> bool {
    if verts.len() != 8 || faces.len() != 12 {
        return false;
    }
    // corner k has x = w iff bit 0, z = d iff bit 1, y = h iff bit 2 (bit patterns compared: NaN sizes are kept too)
    let same = |a: f64, b: f64| a.to_bits() == b.to_bits();
    let mut ok = true;
    let mut k = 0;
    while k < 8 {
        let p = &verts[k];
        ok = ok && same(p.x, if k & 1 != 0 { w } else { 0.0 }) && same(p.z, if k & 2 != 0 { d } else { 0.0 }) && same(p.y, if k & 4 != 0 { h } else { 0.0 });
        k += 1;
    }
    // directed-edge incidence matrix over the 8 corners
    let mut dir = [[0u8; 8]; 8];
    let mut f = 0;
    while f < 12 {
        let t = faces[f];
        if t[0] >= 8 || t[1] >= 8 || t[2] >= 8 || t[0] == t[1] || t[1] == t[2] || t[2] == t[0] {
            return false;
        }
        dir[t[0] as usize][t[1] as usize] += 1;
        dir[t[1] as usize][t[2] as usize] += 1;
        dir[t[2] as usize][t[0] as usize] += 1;
        f += 1;
    }
    let mut edges = 0;
    let mut a = 0;
    while a < 8 {
        let mut b = 0;
        while b < 8 {
            // consistent winding: a directed edge is used at most once; closed: its reverse is used exactly as often
            ok = ok && dir[a][b] <= 1 && dir[a][b] == dir[b][a];
            if a < b && dir[a][b] == 1 { edges += 1; }
            b += 1;
        }
        a += 1;
    }
    ok && edges == 18
}

/// chain_candidates(pairs, indices, last, forward): Some((k, i)) exactly when pairs[k] == i is the ONLY entry of `pairs`
/// whose edge starts (forward) / ends (backward) at `last`; None when there is no such entry or more than one.
pub fn post_chain_candidates(pairs: &[usize], indices: &[[u32; 2]], last: u32, forward: bool, r: &Option<(usize, usize)>) -> bool {
    let j = if forward { 0 } else { 1 };
    let mut count = 0usize;
    let mut first = 0usize;
    let mut k = 0;
    while k < pairs.len() {
        if indices[pairs[k]][j] == last {
            if count == 0 { first = k; }
            count += 1;
        }
        k += 1;
    }
    match r {
        Some((k, i)) => count == 1 && *k == first && *k < pairs.len() && *i == pairs[*k],
        None => count != 1,
    }
}
pub fn pre_chain_candidates(pairs: &[usize], indices: &[[u32; 2]]) -> bool {
    let mut ok = true;
    let mut k = 0;
    while k < pairs.len() { ok = ok && pairs[k] < indices.len(); k += 1; }
    ok
}

pub fn dispatch<S: Src>(_name: &str, _s: &mut S) -> bool { false }

#[cfg(kani)]
mod proofs {
    use super::*;

    // proxies: bodies replaced by the private functions under Kani
    fn box_geom_proxy(_w: f64, _h: f64, _d: f64) -> (Vec<Point3>, Vec<[u32; 3]>) { unreachable!() }
    fn chain_candidates_proxy(_pairs: &[usize], _indices: &[[u32; 2]], _last: u32, _forward: bool) -> Option<(usize, usize)> { unreachable!() }

    /// COMPLETE proof: the loops run over the constant table (12 faces, 8 corners), the sizes are symbolic doubles
    #[kani::proof] #[kani::unwind(13)] #[kani::stub(box_geom_proxy, crate::geom3::mesh::box_geom)]
    fn box_geom_table() {
        let w: f64 = kani::any(); let h: f64 = kani::any(); let d: f64 = kani::any();
        let (v, f) = box_geom_proxy(w, h, d);
        kani::cover!(w < 0.0);
        assert!(post_box_geom(w, h, d, &v, &f), "box_geom: 8 corners, 12 faces, closed consistently wound surface");
    }

    /// BOUNDED: n <= 3 working pairs (any entries, repeats allowed) over a list of 3 index pairs with vertex ids < 4;
    /// the length n is split into concrete cases (n = 3 is its own harness: CBMC's memory grows quickly with the Vec pushes).
    fn chain_case(n: usize, m: usize) -> bool {
        let idx: [[u32; 2]; 3] = kani::any();
        let prs: [usize; 3] = kani::any();
        let last: u32 = kani::any(); let forward: bool = kani::any();
        kani::assume(idx[0][0] < 4 && idx[0][1] < 4 && idx[1][0] < 4 && idx[1][1] < 4 && idx[2][0] < 4 && idx[2][1] < 4 && last < 4);
        kani::assume(pre_chain_candidates(&prs[..n], &idx[..m]));
        let r = chain_candidates_proxy(&prs[..n], &idx[..m], last, forward);
        assert!(post_chain_candidates(&prs[..n], &idx[..m], last, forward, &r), "chain_candidates: Some exactly for a unique continuation");
        r.is_some()
    }
    #[kani::proof] #[kani::unwind(5)] #[kani::stub(chain_candidates_proxy, crate::common::indices::chain_candidates)]
    fn chain_candidates_3() { let some = chain_case(3, 3); kani::cover!(some); kani::cover!(!some); }
    #[kani::proof] #[kani::unwind(5)] #[kani::stub(chain_candidates_proxy, crate::common::indices::chain_candidates)]
    fn chain_candidates_le2() {
        let n: usize = kani::any();
        kani::assume(n <= 2);
        let some = match n { 0 => chain_case(0, 3), 1 => chain_case(1, 3), _ => chain_case(2, 3) };
        kani::cover!(n == 2 && some);
    }
}
